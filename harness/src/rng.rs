//! Every random choice of a stream derives from one u64 seed (splitmix64 / xoshiro-free).
#[derive(Clone)]
pub struct Rng(pub u64);

impl Rng {
    pub fn new(seed: u64) -> Self {
        Rng(seed ^ 0x9E37_79B9_7F4A_7C15)
    }
    /// Independent generator for case `i` of stream `name` (so a case replays alone).
    pub fn for_case(seed: u64, name: &str, i: u64) -> Self {
        let mut h = seed;
        for b in name.bytes() {
            h = h.wrapping_mul(0x100_0000_01B3) ^ (b as u64);
        }
        let mut r = Rng(h ^ i.wrapping_mul(0xD6E8_FEB8_6659_FD93));
        r.next();
        r.next();
        r
    }
    pub fn next(&mut self) -> u64 {
        self.0 = self.0.wrapping_add(0x9E37_79B9_7F4A_7C15);
        let mut z = self.0;
        z = (z ^ (z >> 30)).wrapping_mul(0xBF58_476D_1CE4_E5B9);
        z = (z ^ (z >> 27)).wrapping_mul(0x94D0_49BB_1331_11EB);
        z ^ (z >> 31)
    }
    /// Uniform in [0, n) (n > 0).
    pub fn below(&mut self, n: u64) -> u64 {
        self.next() % n
    }
    pub fn range(&mut self, lo: i64, hi: i64) -> i64 {
        lo + (self.below((hi - lo + 1) as u64) as i64)
    }
    pub fn chance(&mut self, num: u64, den: u64) -> bool {
        self.below(den) < num
    }
    pub fn pick<'a, T>(&mut self, xs: &'a [T]) -> &'a T {
        &xs[self.below(xs.len() as u64) as usize]
    }
    pub fn shuffle<T>(&mut self, xs: &mut [T]) {
        for i in (1..xs.len()).rev() {
            let j = self.below(i as u64 + 1) as usize;
            xs.swap(i, j);
        }
    }
}
