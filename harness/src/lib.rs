//! Shared pieces of the correspondence harness: PRNG, output files, statistics.
pub mod rng;
pub mod out;
pub mod enc;
pub mod sys;
pub mod sysops;
