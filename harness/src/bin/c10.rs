//! C10 streams: `ScalarValue` conversions and `compare`, the real ordered k-way merger
//! (two levels, as the shard and the coordinator instantiate it), and an end-to-end session.
use std::cmp::Ordering;
use std::sync::Arc;

use snel_db::engine::core::read::flow::{
    BatchPool, BatchReceiver, BatchSchema, FlowChannel, FlowMetrics, OrderedStreamMerger,
};
use snel_db::engine::core::read::result::ColumnSpec;
use snel_db::engine::types::ScalarValue as SV;
use snel_harness::enc::hex;
use snel_harness::out::{parse_args, Stream};
use snel_harness::rng::Rng;

// ------------------------------------------------------------------ value generators

const PLAIN: &[&str] = &[
    "", "a", "b", "abc", "abd", "Zed", "zed", "a b", "é", "日本", "x1", "1x", "1a", "9a", "tru", "falsey",
    "infx", "nanx", "e5", "-", "+", ".", "--1", "1..2", "1e", "1e+", "0x10", "1_0", " 1", "1 ", "１",
];
const NUMLIKE: &[&str] = &[
    "0", "1", "9", "10", "007", "+5", "-3", "-0", "+0", "1.5", "1.50", "1e3", "1E-2", ".5", "5.", "1.e2",
    "inf", "-inf", "+inf", "Infinity", "-INFINITY", "NaN", "nan", "-nan", "18446744073709551615",
    "18446744073709551616", "9223372036854775807", "9223372036854775808", "-9223372036854775808",
    "-9223372036854775809", "1e400", "-1e400", "1e-400", "4.9e-324", "2.4e-324", "2.5e-324", "0.1",
    "123456789012345678901234567890", "1.7976931348623157e308", "1.7976931348623159e308",
    "9007199254740993", "9007199254740992", "0.30000000000000004", "1e22", "1e23", "8.5e-5",
    "true", "TRUE", "false", "False", "tRuE", "00", "01", "1e0", "1e99999", "1e-99999", "0e99999",
    "2.2250738585072014e-308", "2.2250738585072011e-308", "100", "99", "+", "1e+05", "000000000000000000001",
];

fn rand_numstr(r: &mut Rng) -> String {
    let mut s = String::new();
    match r.below(5) {
        0 => s.push('-'),
        1 => s.push('+'),
        _ => {}
    }
    let nd = r.below(22);
    for _ in 0..nd {
        s.push((b'0' + r.below(10) as u8) as char);
    }
    if r.chance(1, 3) {
        s.push('.');
        for _ in 0..r.below(20) {
            s.push((b'0' + r.below(10) as u8) as char);
        }
    }
    if r.chance(1, 4) {
        s.push(if r.chance(1, 2) { 'e' } else { 'E' });
        match r.below(3) {
            0 => s.push('-'),
            1 => s.push('+'),
            _ => {}
        }
        let e = match r.below(4) {
            0 => r.below(10),
            1 => r.below(40),
            2 => 290 + r.below(40),
            _ => r.below(500),
        };
        s.push_str(&e.to_string());
    }
    s
}

fn rand_soup(r: &mut Rng) -> String {
    const A: &[u8] = b"0159aZ.-+eEnNiIfFtTrRuU ";
    let n = r.below(6);
    (0..n).map(|_| A[r.below(A.len() as u64) as usize] as char).collect()
}

fn gen_string(r: &mut Rng) -> String {
    match r.below(10) {
        0..=2 => r.pick(PLAIN).to_string(),
        3..=5 => r.pick(NUMLIKE).to_string(),
        6..=7 => rand_numstr(r),
        8 => rand_soup(r),
        _ => r.below(1000).to_string(),
    }
}

fn gen_plain_string(r: &mut Rng) -> String {
    const A: &[u8] = b"abcxyzABZ_ ";
    let n = r.below(5);
    let mut s: String = (0..n).map(|_| A[r.below(A.len() as u64) as usize] as char).collect();
    if r.chance(1, 6) {
        s.push('é');
    }
    // letters only: never parses as a number; exclude bool words and inf/nan words
    let l = s.to_ascii_lowercase();
    if ["true", "false", "inf", "nan", "infinity"].contains(&l.as_str()) {
        s.push('_');
    }
    s
}

fn gen_i64(r: &mut Rng) -> i64 {
    match r.below(12) {
        0 => 0,
        1 => 1,
        2 => -1,
        3 => i64::MAX,
        4 => i64::MIN,
        5 => (1i64 << 53) + r.range(-2, 2),
        6 => -(1i64 << 53) + r.range(-2, 2),
        7 => r.next() as i64,
        8 => i64::MAX - r.below(3) as i64,
        _ => r.range(-20, 20),
    }
}

fn gen_f64_any(r: &mut Rng) -> f64 {
    match r.below(16) {
        0 => 0.0,
        1 => -0.0,
        2 => f64::INFINITY,
        3 => f64::NEG_INFINITY,
        4 => f64::NAN,
        5 => f64::from_bits(0x7ff0_0000_0000_0001 | (r.next() & 0x000f_ffff_ffff_ffff)), // any NaN
        6 => f64::from_bits(0xfff8_0000_0000_0000),
        7 => f64::from_bits(r.below(1 << 20)),                          // small subnormals
        8 => f64::from_bits(r.next() & 0x000f_ffff_ffff_ffff),          // subnormals
        9 => f64::from_bits(r.next()),                                  // anything
        10 => r.range(-1000, 1000) as f64,
        11 => r.range(-1000, 1000) as f64 / 8.0,
        12 => r.range(-100000, 100000) as f64 / 1000.0,
        13 => *r.pick(&[f64::MAX, f64::MIN, f64::MIN_POSITIVE, f64::EPSILON, 9007199254740992.0, 9007199254740994.0,
                        9.223372036854775807e18, -9.223372036854775808e18, 1.8446744073709552e19, 1e21, 1e-7, 0.1, 0.3,
                        1e22, 1e23, 5e-324, 1.5, 2.5, 1e15, 1e16, 1e17, 123456789.125]),
        14 => (10f64).powi(r.range(-30, 30) as i32) * (r.range(1, 9999) as f64),
        _ => {
            let f = f64::from_bits(r.next());
            if f.is_nan() { 1.25 } else { f }
        }
    }
}

fn gen_f64_finite(r: &mut Rng) -> f64 {
    loop {
        let f = gen_f64_any(r);
        if f.is_finite() {
            return f;
        }
    }
}

/// A key of a `u64` field as the engine carries it: Int64 up to i64::MAX, Utf8(decimal) above.
/// Draws from small values, the neighbourhood of i64::MAX, both decimal-length bands above it
/// (19 digits: 2^63 .. 10^19-1, 20 digits: 10^19 .. u64::MAX) and the band boundaries.
fn gen_u64_key(r: &mut Rng) -> SV {
    const P19: u64 = 10_000_000_000_000_000_000;
    let u: u64 = match r.below(20) {
        0..=3 => r.below(50),
        4 | 5 => r.below(10_000_000_000),
        6 => i64::MAX as u64 - r.below(3),
        7..=11 => (1u64 << 63) + r.below(P19 - (1u64 << 63)),
        12..=16 => P19 + r.below(u64::MAX - P19) + r.below(2),
        17 => *r.pick(&[1u64 << 63, P19 - 1, P19, u64::MAX]),
        18 => *r.pick(&[(1u64 << 63) + 1, P19 - 2, P19 + 1, u64::MAX - 1, 9_500_000_000_000_000_000, 12_345_678_901_234_567_890]),
        _ => r.next(),
    };
    if u <= i64::MAX as u64 { SV::Int64(u as i64) } else { SV::Utf8(u.to_string()) }
}

fn u64_of_key(v: &SV) -> Option<u64> {
    match v {
        SV::Int64(i) if *i >= 0 => Some(*i as u64),
        SV::Utf8(s) => s.parse::<u64>().ok(),
        _ => None,
    }
}

fn gen_any(r: &mut Rng) -> SV {
    match r.below(14) {
        0 => SV::Null,
        1 => SV::Boolean(r.chance(1, 2)),
        2 | 3 => SV::Int64(gen_i64(r)),
        4 | 5 => SV::Float64(gen_f64_any(r)),
        6 => SV::Timestamp(gen_i64(r)),
        7..=11 => SV::Utf8(gen_string(r)),
        _ => {
            let n = r.below(7);
            SV::Binary((0..n).map(|_| r.below(256) as u8).collect())
        }
    }
}

fn tok(v: &SV) -> String {
    match v {
        SV::Null => "n".into(),
        SV::Boolean(b) => format!("b{}", *b as u8),
        SV::Int64(i) => format!("i{i}"),
        SV::Float64(f) => format!("f{:016x}", f.to_bits()),
        SV::Timestamp(t) => format!("t{t}"),
        SV::Utf8(s) => format!("s{}", hex(s.as_bytes())),
        SV::Binary(b) => format!("x{}", hex(b)),
    }
}

fn variant(v: &SV) -> &'static str {
    match v {
        SV::Null => "null",
        SV::Boolean(_) => "bool",
        SV::Int64(_) => "int",
        SV::Float64(_) => "float",
        SV::Timestamp(_) => "ts",
        SV::Utf8(_) => "utf8",
        SV::Binary(_) => "bin",
    }
}

fn letter(o: Ordering) -> char {
    match o {
        Ordering::Less => 'L',
        Ordering::Equal => 'E',
        Ordering::Greater => 'G',
    }
}

// ------------------------------------------------------------------ typed columns + reference order

#[derive(Clone, Copy, PartialEq, Debug)]
enum Col {
    Int,
    U64,
    Float,
    Bool,
    Ts,
    Str,
    PlainStr,
}
const COLS: &[Col] = &[Col::Int, Col::U64, Col::Float, Col::Bool, Col::Ts, Col::Str, Col::PlainStr];

fn col_name(c: Col) -> &'static str {
    match c {
        Col::Int => "int",
        Col::U64 => "u64",
        Col::Float => "float",
        Col::Bool => "bool",
        Col::Ts => "ts",
        Col::Str => "str",
        Col::PlainStr => "plainstr",
    }
}

/// A value as it reaches the merger for a field of the given declared type (what
/// `ScalarValue::from(json)` produces for a conforming payload), or Null for a missing key.
fn gen_typed(r: &mut Rng, c: Col, pool: &mut Vec<SV>) -> SV {
    if !pool.is_empty() && r.chance(1, 4) {
        return r.pick(pool).clone(); // duplicates
    }
    let v = if r.chance(1, 12) {
        SV::Null
    } else {
        match c {
            Col::Int => SV::Int64(gen_i64(r)),
            Col::U64 => gen_u64_key(r),
            Col::Float => match r.below(10) {
                0 | 1 => SV::Int64(r.range(-50, 50)), // integral JSON number in a float field
                2 => SV::Int64(gen_i64(r)),
                _ => SV::Float64(gen_f64_finite(r)),
            },
            Col::Bool => SV::Boolean(r.chance(1, 2)),
            Col::Ts => SV::Timestamp(if r.chance(1, 5) { gen_i64(r) } else { 1_700_000_000 + r.range(-5, 5) }),
            Col::Str => SV::Utf8(gen_string(r)),
            Col::PlainStr => SV::Utf8(gen_plain_string(r)),
        }
    };
    pool.push(v.clone());
    v
}

fn cmp_int_float(i: i64, f: f64) -> Ordering {
    // exact comparison of an integer with a finite float
    if f >= 9223372036854775808.0 {
        return Ordering::Less;
    }
    if f < -9223372036854775808.0 {
        return Ordering::Greater;
    }
    let t = f.trunc();
    let ti = t as i128;
    match (i as i128).cmp(&ti) {
        Ordering::Equal => {
            if f > t {
                Ordering::Less
            } else if f < t {
                Ordering::Greater
            } else {
                Ordering::Equal
            }
        }
        o => o,
    }
}

/// The field's typed order (independent of `ScalarValue::compare`). Missing keys sort lowest;
/// in string columns a missing key ties with the empty string (the property does not place
/// nulls; this is the placement the code uses, accepted as is).
fn ref_cmp(c: Col, a: &SV, b: &SV) -> Ordering {
    let null_like = |v: &SV| matches!(v, SV::Null) || (matches!(c, Col::Str | Col::PlainStr) && matches!(v, SV::Utf8(s) if s.is_empty()));
    match (null_like(a), null_like(b)) {
        (true, true) => return Ordering::Equal,
        (true, false) => return Ordering::Less,
        (false, true) => return Ordering::Greater,
        _ => {}
    }
    match (c, a, b) {
        (Col::Int, SV::Int64(x), SV::Int64(y)) => x.cmp(y),
        (Col::Ts, SV::Timestamp(x), SV::Timestamp(y)) => x.cmp(y),
        (Col::Bool, SV::Boolean(x), SV::Boolean(y)) => x.cmp(y),
        (Col::Str | Col::PlainStr, SV::Utf8(x), SV::Utf8(y)) => x.as_bytes().cmp(y.as_bytes()),
        (Col::U64, _, _) => {
            let g = |v: &SV| -> u64 {
                match v {
                    SV::Int64(i) => *i as u64,
                    SV::Utf8(s) => s.parse::<u64>().unwrap(),
                    _ => unreachable!(),
                }
            };
            g(a).cmp(&g(b))
        }
        (Col::Float, SV::Float64(x), SV::Float64(y)) => x.partial_cmp(y).unwrap(),
        (Col::Float, SV::Int64(x), SV::Int64(y)) => x.cmp(y),
        (Col::Float, SV::Int64(x), SV::Float64(y)) => cmp_int_float(*x, *y),
        (Col::Float, SV::Float64(x), SV::Int64(y)) => cmp_int_float(*y, *x).reverse(),
        _ => unreachable!("ref_cmp {:?} {:?} {:?}", c, a, b),
    }
}

/// Finding class of a pair on which `compare` departs from the typed order ("-" = none known).
fn pair_class(c: Col, a: &SV, b: &SV) -> &'static str {
    match (c, a, b) {
        (Col::Str, SV::Utf8(_), SV::Utf8(_)) => {
            let num = a.as_f64().is_some() && b.as_f64().is_some();
            let boo = a.as_bool().is_some() && b.as_bool().is_some();
            if num || boo { "string-keys-compared-as-numbers" } else { "-" }
        }
        (Col::Float, SV::Int64(i), SV::Float64(_)) | (Col::Float, SV::Float64(_), SV::Int64(i)) => {
            if i.unsigned_abs() > (1u64 << 53) { "int-vs-float-key-rounded" } else { "-" }
        }
        _ => "-",
    }
}

fn code_cmp(a: &SV, b: &SV) -> Ordering {
    // compare_scalar_values of ordered_merger.rs / segment_query_runner.rs / memtable_source.rs
    if let (Some(x), Some(y)) = (a.as_u64(), b.as_u64()) {
        return x.cmp(&y);
    }
    a.compare(b)
}

/// First pair of the column on which the code's comparison departs from the typed order.
fn first_departure(c: Col, keys: &[SV]) -> Option<(usize, usize)> {
    for i in 0..keys.len() {
        for j in 0..keys.len() {
            if code_cmp(&keys[i], &keys[j]) != ref_cmp(c, &keys[i], &keys[j]) {
                return Some((i, j));
            }
        }
    }
    None
}

// ------------------------------------------------------------------ real merger, two levels

fn schema() -> Arc<BatchSchema> {
    Arc::new(
        BatchSchema::new(vec![
            ColumnSpec { name: "key".into(), logical_type: "String".into() },
            ColumnSpec { name: "event_id".into(), logical_type: "Integer".into() },
        ])
        .unwrap(),
    )
}

fn feed(rows: Vec<(SV, u64)>, schema: Arc<BatchSchema>, batch: usize, cap: usize, metrics: Arc<FlowMetrics>) -> BatchReceiver {
    let (tx, rx) = FlowChannel::bounded(cap, metrics);
    tokio::spawn(async move {
        let pool = BatchPool::new(batch).unwrap();
        let mut b = pool.acquire(Arc::clone(&schema));
        for (k, id) in rows {
            b.push_row(&[k, SV::Int64(id as i64)]).unwrap();
            if b.is_full() {
                let done = b.finish().unwrap();
                if tx.send(Arc::new(done)).await.is_err() {
                    return;
                }
                b = pool.acquire(Arc::clone(&schema));
            }
        }
        if b.len() > 0 {
            let _ = tx.send(Arc::new(b.finish().unwrap())).await;
        }
    });
    rx
}

struct MergeCase {
    asc: bool,
    limit: Option<usize>,
    offset: Option<usize>,
    shards: Vec<Vec<Vec<(SV, u64)>>>,
    batch: usize,
    cap: usize,
}

async fn run_real(case: &MergeCase) -> Result<Vec<(SV, u64)>, String> {
    let sch = schema();
    let metrics = FlowMetrics::new();
    let eff = case.limit.map(|l| l + case.offset.unwrap_or(0));
    let mut shard_rx = vec![];
    for flows in &case.shards {
        let (tx, rx) = FlowChannel::bounded(case.cap, Arc::clone(&metrics));
        if flows.is_empty() {
            drop(tx); // engine/query/streaming/merger.rs: no receivers → empty stream
        } else {
            let recvs: Vec<BatchReceiver> = flows
                .iter()
                .map(|f| feed(f.clone(), Arc::clone(&sch), case.batch, case.cap, Arc::clone(&metrics)))
                .collect();
            OrderedStreamMerger::spawn(Arc::clone(&sch), recvs, 0, case.asc, 0, eff, tx, case.batch)?;
        }
        shard_rx.push(rx);
    }
    let (tx, mut rx) = FlowChannel::bounded(case.shards.len().max(1) * 2, Arc::clone(&metrics));
    OrderedStreamMerger::spawn(Arc::clone(&sch), shard_rx, 0, case.asc, case.offset.unwrap_or(0), case.limit, tx, 1024)?;
    let mut out = vec![];
    while let Some(b) = rx.recv().await {
        for i in 0..b.len() {
            let row = b.row(i).map_err(|e| e.to_string())?;
            let id = row[1].as_u64().ok_or("id")?;
            out.push((row[0].clone(), id));
        }
    }
    Ok(out)
}

fn merge_op(name: &str, case: &MergeCase) -> String {
    let mut s = format!(
        "{} {} {} {} {}",
        name,
        case.asc as u8,
        case.limit.map(|l| l.to_string()).unwrap_or("-".into()),
        case.offset.map(|l| l.to_string()).unwrap_or("-".into()),
        case.shards.len()
    );
    for flows in &case.shards {
        s.push_str(&format!(" {}", flows.len()));
        for f in flows {
            s.push_str(&format!(" {}", f.len()));
            for (k, id) in f {
                s.push_str(&format!(" {} {}", tok(k), id));
            }
        }
    }
    s
}

fn write_config(out: &std::path::Path, seed: u64, stream: &str) {
    let base = out.join("c10-sys");
    std::fs::create_dir_all(&base).unwrap();
    let t = std::fs::read_to_string("/repo/config/test.toml").unwrap();
    let b = base.to_str().unwrap();
    let t = t
        .replace("\"../data/wal/\"", &format!("\"{b}/wal/\""))
        .replace("\"../data/wal/archived/\"", &format!("\"{b}/wal/archived/\""))
        .replace("\"../data/cols\"", &format!("\"{b}/cols\""))
        .replace("\"../data/index/\"", &format!("\"{b}/index/\""))
        .replace("\"../data/schema/\"", &format!("\"{b}/schema/\""))
        .replace("\"../data/logs\"", &format!("\"{b}/logs\""))
        .replace("stdout_level = \"debug\"", "stdout_level = \"error\"")
        .replace("event_per_zone = 1", &format!("event_per_zone = {}", match stream {
            "deep" => [1, 2, 1, 3][(seed % 4) as usize],
            "window" | "passive" => [2, 1, 3][(seed % 3) as usize],
            "rlte" => [1, 2, 3, 5, 8][(seed % 5) as usize],
            _ => [1, 2, 3, 5][(seed % 4) as usize],
        }))
        .replace("fill_factor = 3", match stream { "deep" => "fill_factor = 400", "window" | "passive" => "fill_factor = 4", _ => "fill_factor = 80" });
    let p = base.join("cfg.toml");
    std::fs::write(&p, t).unwrap();
    unsafe { std::env::set_var("SNELDB_CONFIG", &p) };
}

fn main() {
    let a = parse_args();
    write_config(&a.out, a.seed, &a.stream);
    match a.stream.as_str() {
        "conv" => {
            let mut s = Stream::create(&a.out, "conv");
            for i in 0..a.cases {
                if a.only.is_some_and(|o| o != i) {
                    continue;
                }
                let mut r = Rng::for_case(a.seed, "conv", i);
                let v = gen_any(&mut r);
                let o = |x: Option<String>| x.unwrap_or("-".into());
                let imp = format!(
                    "u={} i={} f={} b={} r={}",
                    o(v.as_u64().map(|x| x.to_string())),
                    o(v.as_i64().map(|x| x.to_string())),
                    o(v.as_f64().map(|x| format!("{:016x}", x.to_bits()))),
                    o(v.as_bool().map(|x| (x as u8).to_string())),
                    hex(v.to_string_repr().as_bytes())
                );
                s.tally(variant(&v));
                if let SV::Utf8(t) = &v {
                    if t.parse::<f64>().is_ok() {
                        s.tally("utf8_parses_f64");
                    }
                    if t.parse::<u64>().is_ok() {
                        s.tally("utf8_parses_u64");
                    }
                }
                if let SV::Float64(f) = &v {
                    if f.is_nan() { s.tally("float_nan"); }
                    if f.is_subnormal() { s.tally("float_subnormal"); }
                    if f.is_infinite() { s.tally("float_inf"); }
                }
                let nontrivial = !matches!(v, SV::Null);
                s.case(&format!("conv {}", tok(&v)), &imp, nontrivial);
                // reflexivity is part of every preorder
                if v.compare(&v) == Ordering::Equal {
                    s.oracle_ok();
                } else {
                    s.oracle_fail(i, "-", &format!("compare(v,v) != Equal for {}", tok(&v)));
                }
            }
            s.finish();
        }
        "cmp" => {
            let mut s = Stream::create(&a.out, "cmp");
            for i in 0..a.cases {
                if a.only.is_some_and(|o| o != i) {
                    continue;
                }
                let mut r = Rng::for_case(a.seed, "cmp", i);
                let typed = r.chance(1, 2);
                let (col, vs): (Option<Col>, Vec<SV>) = if typed {
                    let c = *r.pick(COLS);
                    let mut pool = vec![];
                    (Some(c), (0..3).map(|_| gen_typed(&mut r, c, &mut pool)).collect())
                } else {
                    (None, (0..3).map(|_| gen_any(&mut r)).collect())
                };
                let pairs = [(0, 1), (1, 0), (1, 2), (2, 1), (0, 2), (2, 0), (0, 0), (1, 1), (2, 2)];
                let imp: String = pairs.iter().map(|(x, y)| letter(vs[*x].compare(&vs[*y]))).collect();
                match col {
                    Some(c) => s.tally(&format!("typed_{}", col_name(c))),
                    None => {
                        s.tally("mixed");
                        let mut vn: Vec<&str> = vs.iter().map(variant).collect();
                        vn.sort();
                        vn.dedup();
                        s.tally(&format!("mixed_variants_{}", vn.len()));
                    }
                }
                // is the triple a violation of the preorder laws?
                let le = |x: usize, y: usize| vs[x].compare(&vs[y]) != Ordering::Greater;
                let mut cyc = false;
                for p in [[0, 1, 2], [0, 2, 1], [1, 0, 2], [1, 2, 0], [2, 0, 1], [2, 1, 0]] {
                    if le(p[0], p[1]) && le(p[1], p[2]) && !le(p[0], p[2]) {
                        cyc = true;
                    }
                }
                let antisym = pairs.iter().all(|(x, y)| vs[*x].compare(&vs[*y]) == vs[*y].compare(&vs[*x]).reverse());
                if cyc { s.tally("intransitive_triple"); }
                if !antisym { s.tally("swap_law_broken"); }
                s.case(&format!("cmp {} {} {}", tok(&vs[0]), tok(&vs[1]), tok(&vs[2])), &imp, vs[0] != vs[1] || vs[1] != vs[2]);
                // oracle (typed columns only): the comparison used for ORDER BY is the field's typed order
                if let Some(c) = col {
                    let mut bad = None;
                    for (x, y) in pairs {
                        if code_cmp(&vs[x], &vs[y]) != ref_cmp(c, &vs[x], &vs[y]) {
                            bad = Some((x, y));
                            break;
                        }
                    }
                    match bad {
                        None => {
                            if cyc || !antisym {
                                s.oracle_fail(i, "-", &format!("preorder laws broken although every pair agrees with the typed order: {:?}", vs));
                            } else {
                                s.oracle_ok();
                            }
                        }
                        Some((x, y)) => s.oracle_fail(
                            i,
                            pair_class(c, &vs[x], &vs[y]),
                            &format!("col={} compare({}, {}) = {:?}, typed order says {:?}", col_name(c), tok(&vs[x]), tok(&vs[y]), code_cmp(&vs[x], &vs[y]), ref_cmp(c, &vs[x], &vs[y])),
                        ),
                    }
                }
            }
            s.finish();
        }
        "merge" => {
            let rt = tokio::runtime::Builder::new_multi_thread().worker_threads(4).enable_all().build().unwrap();
            let mut s = Stream::create(&a.out, "merge");
            for i in 0..a.cases {
                if a.only.is_some_and(|o| o != i) {
                    continue;
                }
                let mut r = Rng::for_case(a.seed, "merge", i);
                let c = *r.pick(COLS);
                let n_rows = match r.below(6) {
                    0 => r.below(4),
                    1 => 30 + r.below(60),
                    _ => r.below(30),
                } as usize;
                let mut pool = vec![];
                let rows: Vec<(SV, u64)> = (0..n_rows).map(|j| (gen_typed(&mut r, c, &mut pool), j as u64 + 1)).collect();
                let asc = r.chance(1, 2);
                let pick = |r: &mut Rng| -> usize {
                    match r.below(5) {
                        0 => 0,
                        1 => n_rows + r.below(3) as usize,
                        _ => r.below(n_rows as u64 + 1) as usize,
                    }
                };
                let limit = if r.chance(1, 6) { None } else { Some(pick(&mut r)) };
                let offset = if limit.is_none() { if r.chance(1, 3) { Some(pick(&mut r)) } else { None } } else if r.chance(1, 3) { None } else { Some(pick(&mut r)) };
                // split into shards × flows
                let n_shards = 1 + r.below(4) as usize;
                let mut shards: Vec<Vec<Vec<(SV, u64)>>> = (0..n_shards).map(|_| (0..r.below(4) as usize).map(|_| vec![]).collect()).collect();
                if shards.iter().all(|f| f.is_empty()) {
                    shards[0].push(vec![]);
                }
                let slots: Vec<(usize, usize)> = shards.iter().enumerate().flat_map(|(si, f)| (0..f.len()).map(move |fi| (si, fi))).collect();
                for row in &rows {
                    let (si, fi) = *r.pick(&slots);
                    shards[si][fi].push(row.clone());
                }
                // every flow is sorted the way the sources sort (segment_query_runner.rs:168,
                // memtable_source.rs:250); with ORDER BY the per-flow limit is deferred (None)
                let mut sort_panicked = false;
                let presorted = !r.chance(1, 10);
                if presorted {
                    for f in shards.iter_mut().flat_map(|f| f.iter_mut()) {
                        let mut copy = f.clone();
                        let res = std::panic::catch_unwind(std::panic::AssertUnwindSafe(|| {
                            copy.sort_unstable_by(|x, y| {
                                let o = code_cmp(&x.0, &y.0);
                                if asc { o } else { o.reverse() }
                            });
                            copy
                        }));
                        match res {
                            Ok(sorted) => *f = sorted,
                            Err(_) => {
                                sort_panicked = true;
                                f.sort_by(|x, y| {
                                    let o = ref_cmp(c, &x.0, &y.0);
                                    if asc { o } else { o.reverse() }
                                });
                            }
                        }
                    }
                }
                // optional per-flow truncation to at least n+m (what a source with a non-deferred limit does)
                if let (Some(l), true) = (limit, r.chance(1, 4)) {
                    let k = l + offset.unwrap_or(0) + r.below(3) as usize;
                    for f in shards.iter_mut().flat_map(|f| f.iter_mut()) {
                        f.truncate(k);
                    }
                    s.tally("flows_truncated");
                }
                let case = MergeCase { asc, limit, offset, shards, batch: 1 + r.below(6) as usize, cap: 1 + r.below(4) as usize };
                let op = merge_op("merge", &case);
                let res = rt.block_on(async { tokio::time::timeout(std::time::Duration::from_secs(20), run_real(&case)).await });
                let out = match res {
                    Ok(Ok(o)) => o,
                    Ok(Err(e)) => {
                        s.case(&op, &format!("error {e}"), false);
                        s.oracle_fail(i, "-", &format!("merger error {e}"));
                        continue;
                    }
                    Err(_) => {
                        s.case(&op, "timeout", false);
                        s.oracle_fail(i, "-", "merger hung");
                        continue;
                    }
                };
                let imp = if out.is_empty() { "-".to_string() } else { out.iter().map(|(_, id)| id.to_string()).collect::<Vec<_>>().join(" ") };
                s.tally(&format!("col_{}", col_name(c)));
                s.tally(if asc { "asc" } else { "desc" });
                s.tally(match (limit, offset) { (None, None) => "no_limit", (None, Some(_)) => "offset_only", (Some(_), None) => "limit", _ => "limit_offset" });
                s.tally(&format!("shards_{}", case.shards.len()));
                if !presorted { s.tally("flows_unsorted"); }
                if sort_panicked { s.tally("std_sort_panicked"); }
                s.tally_n("rows", n_rows as u64);
                s.tally_n("rows_out", out.len() as u64);
                s.case(&op, &imp, out.len() > 1);
                // oracle: slice m..m+n of a reference sort under the typed order (keys as a multiset)
                if !presorted {
                    continue; // unsorted flows only feed the correspondence
                }
                let mut reference: Vec<(SV, u64)> = rows.clone();
                reference.sort_by(|x, y| {
                    let o = ref_cmp(c, &x.0, &y.0);
                    if asc { o } else { o.reverse() }
                });
                let m = offset.unwrap_or(0);
                let expect: Vec<&(SV, u64)> = reference.iter().skip(m).take(limit.unwrap_or(usize::MAX)).collect();
                let mut ok = expect.len() == out.len();
                if ok {
                    for (e, o) in expect.iter().zip(out.iter()) {
                        if ref_cmp(c, &e.0, &o.0) != Ordering::Equal {
                            ok = false;
                        }
                    }
                }
                // rows returned are rows that exist, each at most once
                let mut ids: Vec<u64> = out.iter().map(|x| x.1).collect();
                ids.sort();
                let distinct = ids.windows(2).all(|w| w[0] != w[1]);
                let exist = out.iter().all(|(k, id)| rows.iter().any(|(k2, id2)| id == id2 && tok(k) == tok(k2)));
                if ok && distinct && exist && !sort_panicked {
                    s.oracle_ok();
                } else {
                    let keys: Vec<SV> = rows.iter().map(|x| x.0.clone()).collect();
                    let class = match first_departure(c, &keys) {
                        Some((x, y)) => pair_class(c, &keys[x], &keys[y]),
                        None => "-",
                    };
                    s.oracle_fail(
                        i,
                        if distinct && exist { class } else { "-" },
                        &format!("col={} asc={} limit={:?} offset={:?} rows={} sort_panicked={} expected keys {:?} got {:?}",
                            col_name(c), asc, limit, offset, n_rows, sort_panicked,
                            expect.iter().map(|x| tok(&x.0)).collect::<Vec<_>>(), out.iter().map(|x| tok(&x.0)).collect::<Vec<_>>()),
                    );
                }
            }
            s.finish();
        }
        "witness" => {
            // fixed, minimal inputs for the proposed findings (replayed on the real code every run)
            let rt = tokio::runtime::Builder::new_multi_thread().worker_threads(2).enable_all().build().unwrap();
            let mut s = Stream::create(&a.out, "witness");
            let st = |x: &str| SV::Utf8(x.to_string());
            // W0/W1: compare triples
            let triples: Vec<(Col, [SV; 3])> = vec![
                (Col::Str, [st("9"), st("10"), st("1a")]),
                (Col::Float, [SV::Int64((1 << 53) + 1), SV::Float64(9007199254740992.0), SV::Int64(1 << 53)]),
                (Col::Str, [st("true"), st("1"), st("TRUE")]),
            ];
            let mut idx = 0u64;
            for (c, vs) in &triples {
                let pairs = [(0, 1), (1, 0), (1, 2), (2, 1), (0, 2), (2, 0), (0, 0), (1, 1), (2, 2)];
                let imp: String = pairs.iter().map(|(x, y)| letter(vs[*x].compare(&vs[*y]))).collect();
                s.case(&format!("cmp {} {} {}", tok(&vs[0]), tok(&vs[1]), tok(&vs[2])), &imp, true);
                let bad = pairs.iter().find(|(x, y)| code_cmp(&vs[*x], &vs[*y]) != ref_cmp(*c, &vs[*x], &vs[*y]));
                match bad {
                    Some((x, y)) => s.oracle_fail(idx, pair_class(*c, &vs[*x], &vs[*y]),
                        &format!("witness col={} compare({}, {}) = {:?}, typed order says {:?}", col_name(*c), tok(&vs[*x]), tok(&vs[*y]), code_cmp(&vs[*x], &vs[*y]), ref_cmp(*c, &vs[*x], &vs[*y]))),
                    None => s.oracle_ok(),
                }
                idx += 1;
            }
            // W3/W4: ORDER BY s ASC LIMIT 1 over two shards
            let merges: Vec<(Col, Vec<Vec<Vec<(SV, u64)>>>)> = vec![
                (Col::Str, vec![vec![vec![(st("10"), 1)]], vec![vec![(st("9"), 2)]]]),
                (Col::Float, vec![vec![vec![(SV::Float64(9007199254740992.0), 1)]], vec![vec![(SV::Int64((1 << 53) + 1), 2)]]]),
            ];
            for (c, shards) in merges {
                let case = MergeCase { asc: true, limit: Some(1), offset: None, shards: shards.clone(), batch: 4, cap: 2 };
                let out = rt.block_on(run_real(&case)).unwrap();
                let imp = out.iter().map(|(_, id)| id.to_string()).collect::<Vec<_>>().join(" ");
                s.case(&merge_op("merge", &case), &imp, true);
                let mut all: Vec<(SV, u64)> = shards.into_iter().flatten().flatten().collect();
                all.sort_by(|x, y| ref_cmp(c, &x.0, &y.0));
                if ref_cmp(c, &all[0].0, &out[0].0) == Ordering::Equal {
                    s.oracle_ok();
                } else {
                    let keys: Vec<SV> = all.iter().map(|x| x.0.clone()).collect();
                    let class = first_departure(c, &keys).map(|(x, y)| pair_class(c, &keys[x], &keys[y])).unwrap_or("-");
                    s.oracle_fail(idx, class, &format!("witness col={} ORDER BY ASC LIMIT 1 returned {} but the smallest key is {}", col_name(c), tok(&out[0].0), tok(&all[0].0)));
                }
                idx += 1;
            }
            s.finish();
        }
        "e2e" | "u64seg" => e2e::run(&a),
        "deep" => e2e::run_deep(&a),
        "rlte" => rlte::run(&a),
        "accept" => accept::run(&a),
        "window" => e2e::run_window(&a),
        "passive" => e2e::run_passive(&a),
        other => {
            eprintln!("unknown stream {other}");
            std::process::exit(2);
        }
    }
}

// ------------------------------------------------------------------ end-to-end session
mod e2e {
    use super::*;
    use snel_db::command::dispatcher::dispatch_command;
    use snel_db::command::parser::parse_command;
    use snel_db::engine::schema::SchemaRegistry;
    use snel_db::engine::shard::manager::ShardManager;
    use snel_db::shared::response::JsonRenderer;
    use tokio::sync::RwLock;

    pub struct Sys {
        pub sm: Arc<ShardManager>,
        pub reg: Arc<RwLock<SchemaRegistry>>,
    }

    impl Sys {
        pub async fn cmd(&self, line: &str) -> Result<String, String> {
            let cmd = parse_command(line).map_err(|e| format!("parse: {e:?}"))?;
            let mut out: Vec<u8> = vec![];
            dispatch_command(&cmd, &mut out, &self.sm, &self.reg, None, Some("bypass"), &JsonRenderer)
                .await
                .map_err(|e| format!("io: {e}"))?;
            Ok(String::from_utf8_lossy(&out).to_string())
        }
    }

    pub struct Resp {
        pub status: u16,
        pub msg: String,
        /// per row: (cell of column `col`, event_id)
        pub rows: Vec<(serde_json::Value, Option<u64>)>,
    }

    /// Reads the NDJSON frames of a streaming response; cells are located by header name.
    pub fn parse_rows(resp: &str, col: &str) -> Resp {
        let mut cidx = None;
        let mut eidx = None;
        let mut out = Resp { status: 0, msg: String::new(), rows: vec![] };
        for line in resp.lines() {
            let Ok(v) = serde_json::from_str::<serde_json::Value>(line) else { continue };
            match v.get("type").and_then(|t| t.as_str()) {
                Some("schema") => {
                    out.status = 200;
                    if let Some(cols) = v.get("columns").and_then(|c| c.as_array()) {
                        cidx = cols.iter().position(|c| c.get("name").and_then(|n| n.as_str()) == Some(col));
                        eidx = cols.iter().position(|c| c.get("name").and_then(|n| n.as_str()) == Some("event_id"));
                    }
                }
                Some("batch") => {
                    if let (Some(rows), Some(ci)) = (v.get("rows").and_then(|r| r.as_array()), cidx) {
                        for r in rows {
                            let cell = r.get(ci).cloned().unwrap_or(serde_json::Value::Null);
                            let eid = eidx.and_then(|e| r.get(e)).and_then(|x| x.as_u64());
                            out.rows.push((cell, eid));
                        }
                    }
                }
                Some("row") => {
                    let cell = v.get("values").and_then(|x| x.get(col)).cloned().unwrap_or(serde_json::Value::Null);
                    let eid = v.get("values").and_then(|x| x.get("event_id")).and_then(|x| x.as_u64());
                    out.rows.push((cell, eid));
                }
                Some("end") => {}
                _ => {
                    if let Some(s) = v.get("status").and_then(|s| s.as_u64()) {
                        out.status = s as u16;
                        out.msg = v.get("message").and_then(|m| m.as_str()).unwrap_or("").to_string();
                    }
                }
            }
        }
        out
    }

    /// A returned cell as a key of the column's type.
    fn key_of_cell(c: Col, v: &serde_json::Value) -> Option<SV> {
        match c {
            Col::U64 => {
                let u = match v {
                    serde_json::Value::Number(n) => n.as_u64(),
                    serde_json::Value::String(s) => s.parse::<u64>().ok(),
                    _ => None,
                }?;
                Some(if u <= i64::MAX as u64 { SV::Int64(u as i64) } else { SV::Utf8(u.to_string()) })
            }
            Col::Int => v.as_i64().map(SV::Int64),
            Col::Float => v.as_i64().map(SV::Int64).or_else(|| v.as_f64().map(SV::Float64)),
            _ => match v {
                serde_json::Value::String(s) => Some(SV::Utf8(s.clone())),
                serde_json::Value::Number(n) => Some(SV::Utf8(n.to_string())), // to_json turns big unsigned strings into numbers (C07)
                _ => None,
            },
        }
    }

    fn json_of(c: Col, v: &SV) -> serde_json::Value {
        if let (Col::U64, Some(u)) = (c, u64_of_key(v)) {
            return serde_json::json!(u); // a JSON number, also above i64::MAX
        }
        match v {
            SV::Null => serde_json::Value::Null,
            SV::Boolean(b) => serde_json::json!(b),
            SV::Int64(i) => serde_json::json!(i),
            SV::Float64(f) => serde_json::json!(f),
            SV::Timestamp(t) => serde_json::json!(t),
            SV::Utf8(s) => serde_json::json!(s),
            SV::Binary(_) => unreachable!(),
        }
    }

    pub fn run(a: &snel_harness::out::Args) {
        let rt = tokio::runtime::Builder::new_multi_thread().worker_threads(4).enable_all().build().unwrap();
        let u64_only = a.stream == "u64seg";
        let mut s = Stream::create(&a.out, &a.stream);
        let sys_base = a.out.join("c10-sys");
        let sys = rt.block_on(async {
            let reg = Arc::new(RwLock::new(SchemaRegistry::new().expect("registry")));
            let n = snel_db::shared::config::CONFIG.engine.shard_count;
            let sm = Arc::new(ShardManager::new(n, sys_base.join("cols"), sys_base.join("wal")).await);
            Sys { sm, reg }
        });
        let zone = snel_db::shared::config::CONFIG.engine.event_per_zone;
        let fill = snel_db::shared::config::CONFIG.engine.fill_factor;
        s.tally(&format!("cfg_event_per_zone_{zone}_fill_{fill}"));
        let mut model = ModelProc::start();
        if model.is_none() { s.tally("model_driver_missing"); }
        for i in 0..a.cases {
            if a.only.is_some_and(|o| o != i) {
                continue;
            }
            let mut r = Rng::for_case(a.seed, &a.stream, i);
            let c = if u64_only { Col::U64 } else { *r.pick(&[Col::Int, Col::Float, Col::PlainStr, Col::Str, Col::Int, Col::PlainStr, Col::U64]) };
            let ty = match c {
                Col::U64 => "u64",
                Col::Int => "int",
                Col::Float => "float",
                _ => "string",
            };
            let ev = format!("{}{}x{}", if u64_only { "u" } else { "e" }, a.seed, i);
            let n_rows = match r.below(4) { 0 => 1 + r.below(5), 1 => 30 + r.below(40), _ => 5 + r.below(25) } as usize;
            let n_ctx = 1 + r.below(if c == Col::U64 { 3 } else { 5 }) as usize;
            let mut rows: Vec<(SV, u64, usize)> = vec![]; // (key, k, ctx)
            for j in 0..n_rows {
                // conservative values (what survives storage unchanged is C07's subject): small ints,
                // dyadic floats, short lowercase words; the `str` column adds number-looking words
                let v = match c {
                    Col::U64 => gen_u64_key(&mut r),
                    Col::Int => SV::Int64(r.range(-40, 40)),
                    Col::Float => if r.chance(1, 5) { SV::Int64(r.range(-20, 20)) } else { SV::Float64(r.range(-400, 400) as f64 / 8.0) },
                    Col::PlainStr => {
                        let n = 1 + r.below(3);
                        SV::Utf8((0..n).map(|_| (b'a' + r.below(6) as u8) as char).collect())
                    }
                    _ => SV::Utf8(r.pick(&["9", "10", "1a", "100", "2", "b", "a", "07", "7", "1e1", "x"]).to_string()),
                };
                rows.push((v, j as u64 + 1, r.below(n_ctx as u64) as usize));
            }
            // where in the history the flushes happen
            let n_flush = r.below(3) as usize;
            let mut flush_at: Vec<usize> = (0..n_flush).map(|_| r.below(n_rows as u64 + 1) as usize).collect();
            if c == Col::U64 && r.chance(2, 3) {
                // most or all rows in segments (the rest stays in the memtable)
                flush_at.push(if r.chance(1, 2) { n_rows } else { n_rows - r.below(n_rows as u64 / 3 + 1) as usize });
            }
            flush_at.sort();
            let queries: Vec<(bool, bool, Option<usize>, Option<usize>, Option<i64>, Option<usize>, bool)> = (0..8)
                .map(|_| {
                    let ordered = !r.chance(1, 4);
                    let pick = |r: &mut Rng| match r.below(5) { 0 => 0, 1 => n_rows + r.below(3) as usize, _ => r.below(n_rows as u64 + 1) as usize };
                    let limit = if r.chance(1, 6) { None } else { Some(pick(&mut r)) };
                    let offset = if r.chance(1, 2) { None } else { Some(pick(&mut r)) };
                    let wh = if r.chance(1, 3) { Some(r.below(n_rows as u64 + 1) as i64) } else { None };
                    let ctx = if r.chance(1, 5) { Some(r.below(n_ctx as u64) as usize) } else { None };
                    (ordered, r.chance(1, 2), limit, offset, wh, ctx, r.chance(1, 8))
                })
                .collect();
            let res: Result<Vec<(String, Resp, Resp, bool)>, String> = rt.block_on(async {
                let d = sys.cmd(&format!("DEFINE {ev} FIELDS {{ k: \"int\", v: \"{ty}\" }}")).await?;
                if !d.contains("200") && !d.to_lowercase().contains("ok") {
                    return Err(format!("define failed: {d}"));
                }
                let mut fi = 0;
                for (j, (v, k, ctx)) in rows.iter().enumerate() {
                    while fi < flush_at.len() && flush_at[fi] == j {
                        // everything stored so far must be in the memtable before the flush
                        wait_visible(&sys, &ev, j).await?;
                        sys.cmd("FLUSH").await?;
                        fi += 1;
                    }
                    let payload = serde_json::json!({"k": k, "v": json_of(c, v)});
                    let resp = sys.cmd(&format!("STORE {ev} FOR c{ctx} PAYLOAD {payload}")).await?;
                    if !resp.contains("200") {
                        return Err(format!("store rejected: {payload} -> {resp}"));
                    }
                }
                wait_visible(&sys, &ev, rows.len()).await?;
                while fi < flush_at.len() {
                    sys.cmd("FLUSH").await?;
                    fi += 1;
                }
                let mut out = vec![];
                for (ordered, desc, limit, offset, wh, ctx, ret_k) in &queries {
                    let mut q = format!("QUERY {ev}");
                    if let Some(cx) = ctx { q.push_str(&format!(" FOR c{cx}")); }
                    q.push_str(if *ret_k { " RETURN [k]" } else { " RETURN [v]" });
                    if let Some(w) = wh { q.push_str(&format!(" WHERE k >= {w}")); }
                    if *ordered { q.push_str(&format!(" ORDER BY v {}", if *desc { "DESC" } else { "ASC" })); }
                    if let Some(l) = limit { q.push_str(&format!(" LIMIT {l}")); }
                    if let Some(o) = offset { q.push_str(&format!(" OFFSET {o}")); }
                    // the selection as the engine itself returns it without ORDER BY / LIMIT / OFFSET
                    let mut bq = format!("QUERY {ev}");
                    if let Some(cx) = ctx { bq.push_str(&format!(" FOR c{cx}")); }
                    bq.push_str(if *ret_k { " RETURN [k]" } else { " RETURN [v]" });
                    if let Some(w) = wh { bq.push_str(&format!(" WHERE k >= {w}")); }
                    let base = parse_rows(&sys.cmd(&bq).await?, if *ret_k { "k" } else { "v" });
                    let resp = sys.cmd(&q).await?;
                    let base2 = parse_rows(&sys.cmd(&bq).await?, if *ret_k { "k" } else { "v" });
                    let stable = base.status == 200 && base2.status == 200 && {
                        let mut a: Vec<Option<u64>> = base.rows.iter().map(|x| x.1).collect();
                        let mut b: Vec<Option<u64>> = base2.rows.iter().map(|x| x.1).collect();
                        a.sort(); b.sort(); a == b
                    };
                    out.push((q, parse_rows(&resp, if *ret_k { "k" } else { "v" }), base, stable));
                }
                Ok(out)
            });
            s.tally(&format!("col_{}", col_name(c)));
            s.tally(&format!("flushes_{}", flush_at.len()));
            s.tally_n("events", n_rows as u64);
            let answers = match res {
                Ok(x) => x,
                Err(e) => {
                    // a write that never becomes visible, a rejected STORE …: other properties' subject
                    s.tally("session_skipped");
                    let _ = e;
                    s.case(&format!("e2e {i}"), "session-skipped", false);
                    continue;
                }
            };
            let mut summary = vec![];
            for ((ordered, desc, limit, offset, wh, ctx, ret_k), (q, resp, base, stable)) in queries.iter().zip(answers.iter()) {
                let matching: Vec<&(SV, u64, usize)> = rows
                    .iter()
                    .filter(|(_, k, cx)| wh.map_or(true, |w| *k as i64 >= w) && ctx.map_or(true, |c0| *cx == c0))
                    .collect();
                let m = offset.unwrap_or(0);
                let st = resp.status;
                summary.push(format!("{st}:{}", resp.rows.len()));
                if c == Col::U64 && *ordered {
                    // flushed keys above i64::MAX whose decimal lengths differ (text order ≠ numeric order)
                    let last_flush = flush_at.last().cloned().unwrap_or(0);
                    let big: Vec<(usize, usize)> = matching.iter()
                        .filter(|x| (x.1 as usize) <= last_flush)
                        .filter_map(|x| u64_of_key(&x.0).filter(|u| *u > i64::MAX as u64).map(|u| (u.to_string().len(), x.2)))
                        .collect();
                    let mixed = big.iter().any(|a| big.iter().any(|b| a.0 != b.0));
                    let mixed_same_ctx = big.iter().any(|a| big.iter().any(|b| a.0 != b.0 && a.1 == b.1));
                    if mixed { s.tally("q_ordered_u64_2plus_flushed_keys_above_i64max_of_different_length"); }
                    if mixed_same_ctx { s.tally("q_ordered_u64_such_keys_in_one_context"); }
                }
                s.tally(match (ordered, limit.is_some(), offset.is_some()) {
                    (true, true, true) => "q_ordered_limit_offset",
                    (true, true, false) => "q_ordered_limit",
                    (true, false, false) => "q_ordered",
                    (false, true, true) => "q_unordered_limit_offset",
                    (false, true, false) => "q_unordered_limit",
                    (false, false, false) => "q_unordered",
                    (_, false, true) => "q_offset_without_limit",
                });
                s.tally_n("rows_returned", resp.rows.len() as u64);
                if offset.is_some() && limit.is_none() {
                    if st == 400 { s.oracle_ok(); } else {
                        s.oracle_fail(i, "-", &format!("OFFSET without LIMIT not rejected: {q} -> {st} {}", resp.msg));
                    }
                    continue;
                }
                if st != 200 {
                    let class = if *ordered && *ret_k && st == 500 && resp.msg.contains("order by field") { "order-field-not-returned" } else { "-" };
                    s.oracle_fail(i, class, &format!("query failed: {q} -> {st} {}", resp.msg));
                    continue;
                }
                // Reference 1: the rows written by this session that satisfy FOR/WHERE (ground truth).
                // If the response is right against the ground truth it is right, whatever the engine's
                // own unordered selection says.
                {
                    let truth: Vec<SV> = matching.iter().map(|x| x.0.clone()).collect();
                    let want_t = limit.map_or(truth.len().saturating_sub(m), |l| l.min(truth.len().saturating_sub(m)));
                    let ids: Vec<u64> = resp.rows.iter().filter_map(|x| x.1).collect();
                    let mut sid = ids.clone();
                    sid.sort();
                    let distinct_t = ids.len() == resp.rows.len() && sid.windows(2).all(|w| w[0] != w[1]);
                    let got_t: Option<Vec<SV>> = if *ret_k { None } else { resp.rows.iter().map(|(cell, _)| key_of_cell(c, cell)).collect() };
                    if let (true, true, Some(got_t)) = (distinct_t, resp.rows.len() == want_t, got_t) {
                        let ok = if *ordered {
                            let mut reference: Vec<&SV> = truth.iter().collect();
                            reference.sort_by(|x, y| { let o = ref_cmp(c, x, y); if *desc { o.reverse() } else { o } });
                            reference.iter().skip(m).take(limit.unwrap_or(usize::MAX)).zip(got_t.iter()).all(|(e, g)| ref_cmp(c, e, g) == Ordering::Equal)
                        } else {
                            let mut pool: Vec<&SV> = truth.iter().collect();
                            got_t.iter().all(|g| match pool.iter().position(|p| ref_cmp(c, p, g) == Ordering::Equal) {
                                Some(ix) => { pool.swap_remove(ix); true }
                                None => false,
                            })
                        };
                        if ok {
                            s.tally("q_right_against_written_rows");
                            s.oracle_ok();
                            continue;
                        }
                    }
                }
                // Reference 2: the selection the engine returns for the same FOR/WHERE without
                // ORDER BY / LIMIT / OFFSET (whether that selection is right is C02/C03's subject)
                if !*stable || base.rows.iter().any(|x| x.1.is_none()) {
                    s.tally("q_base_unstable");
                    continue;
                }
                let mut base_ids: Vec<u64> = base.rows.iter().filter_map(|x| x.1).collect();
                base_ids.sort();
                base_ids.dedup();
                if base_ids.len() != base.rows.len() {
                    s.tally("q_base_has_duplicates"); // C03
                    continue;
                }
                if base.rows.len() != matching.len() { s.tally("q_base_differs_from_written"); }
                let mut eids: Vec<u64> = resp.rows.iter().filter_map(|x| x.1).collect();
                let have_ids = eids.len() == resp.rows.len();
                eids.sort();
                let distinct = have_ids && eids.windows(2).all(|w| w[0] != w[1]);
                let from_base = eids.iter().all(|e| base_ids.binary_search(e).is_ok());
                let bn = base.rows.len();
                let want = limit.map_or(bn.saturating_sub(m), |l| l.min(bn.saturating_sub(m)));
                let base_keys: Option<Vec<SV>> = if *ret_k { Some(vec![]) } else { base.rows.iter().map(|(cell, _)| key_of_cell(c, cell)).collect() };
                let Some(keys) = base_keys else {
                    s.tally("q_base_unreadable_cell"); // C07
                    continue;
                };
                if !distinct || !from_base || resp.rows.len() != want {
                    let truth: Vec<SV> = matching.iter().map(|x| x.0.clone()).collect();
                    let mut class = if *ordered && distinct { let k1 = e2e_class(c, &keys, flush_at.len()); if k1 == "-" { e2e_class(c, &truth, flush_at.len()) } else { k1 } } else { "-" };
                    if class == "-" && *ordered && distinct && limit.is_some() && !*ret_k {
                        let got: Option<Vec<SV>> = resp.rows.iter().map(|(cell, _)| key_of_cell(c, cell)).collect();
                        let written: Vec<(i64, SV, usize)> = rows.iter().map(|(v, k, cx)| (*k as i64, v.clone(), *cx)).collect();
                        let pred = rt.block_on(predict(&sys, &mut model, &sys_base, &ev, "v", c, &written, !*desc, *limit, *offset, *wh, *ctx));
                        if let (Some(p), Some(got)) = (pred, got) {
                            if p.len() == got.len() && p.iter().zip(got.iter()).all(|(x, y)| ref_cmp(c, x, y) == Ordering::Equal) {
                                class = "rlte-preselection-drops-zones";
                            }
                        }
                    }
                    s.oracle_fail(i, class, &format!("{q}: returned {} rows (distinct={distinct} from_selection={from_base}), expected {want} of a selection of {bn}; flushes={} zone={zone} col={}", resp.rows.len(), flush_at.len(), col_name(c)));
                    continue;
                }
                if *ret_k {
                    // unordered with RETURN [k]: every k is a matching row's k
                    s.oracle_ok(); // ids are distinct, from the selection, and as many as required
                    continue;
                }
                let got: Option<Vec<SV>> = resp.rows.iter().map(|(cell, _)| key_of_cell(c, cell)).collect();
                let Some(got) = got else {
                    s.oracle_fail(i, "-", &format!("{q}: unreadable cell in {:?}", resp.rows.iter().map(|x| x.0.to_string()).collect::<Vec<_>>()));
                    continue;
                };
                if !*ordered {
                    // the returned keys are a sub-multiset of the matching keys
                    let mut pool: Vec<&SV> = keys.iter().collect();
                    let mut ok = true;
                    for g in &got {
                        match pool.iter().position(|p| ref_cmp(c, p, g) == Ordering::Equal) {
                            Some(ix) => { pool.swap_remove(ix); }
                            None => ok = false,
                        }
                    }
                    if ok { s.oracle_ok(); } else { s.oracle_fail(i, "-", &format!("{q}: returned keys are not among the matching rows: {:?}", got.iter().map(tok).collect::<Vec<_>>())); }
                    continue;
                }
                let mut reference: Vec<&SV> = keys.iter().collect();
                reference.sort_by(|x, y| { let o = ref_cmp(c, x, y); if *desc { o.reverse() } else { o } });
                let expect: Vec<&SV> = reference.iter().skip(m).take(limit.unwrap_or(usize::MAX)).cloned().collect();
                let same = expect.len() == got.len() && expect.iter().zip(got.iter()).all(|(e, g)| ref_cmp(c, e, g) == Ordering::Equal);
                if same {
                    s.oracle_ok();
                } else {
                    let mut class = e2e_class(c, &keys, flush_at.len());
                    if class == "-" { let truth: Vec<SV> = matching.iter().map(|x| x.0.clone()).collect(); class = e2e_class(c, &truth, flush_at.len()); }
                    if class == "-" && limit.is_some() {
                        // known RLTE defect iff the faithful model of the planner, run on the ladders
                        // that are on disk, predicts exactly this response
                        let written: Vec<(i64, SV, usize)> = rows.iter().map(|(v, k, cx)| (*k as i64, v.clone(), *cx)).collect();
                        let pred = rt.block_on(predict(&sys, &mut model, &sys_base, &ev, "v", c, &written, !*desc, *limit, *offset, *wh, *ctx));
                        match pred {
                            Some(p) if p.len() == got.len() && p.iter().zip(got.iter()).all(|(x, y)| ref_cmp(c, x, y) == Ordering::Equal) => {
                                class = "rlte-preselection-drops-zones";
                            }
                            Some(_) => s.tally("q_fail_not_predicted_by_rlte_model"),
                            None => s.tally("q_fail_no_prediction"),
                        }
                    }
                    s.oracle_fail(i, class, &format!("{q}: expected keys {:?} got {:?}; flushes={} zone={zone} col={}",
                        expect.iter().map(|x| tok(x)).collect::<Vec<_>>(), got.iter().map(tok).collect::<Vec<_>>(), flush_at.len(), col_name(c)));
                }
            }
            s.case(&format!("e2e {i}"), &summary.join(" "), true);
        }
        s.finish();
        std::process::exit(0); // shard tasks keep the runtime alive
    }

    /// The compiled Lean model as a line server (`drv_c10 --interactive`), used to decide whether a
    /// failing response is the one the faithful model of the code predicts (known defect) or not.
    pub struct ModelProc {
        child: std::process::Child,
        stdin: std::process::ChildStdin,
        stdout: std::io::BufReader<std::process::ChildStdout>,
    }

    impl ModelProc {
        pub fn start() -> Option<ModelProc> {
            let path = std::env::var("VERIF_C10_DRIVER").unwrap_or_else(|_| "lean/.lake/build/bin/drv_c10".to_string());
            let mut child = std::process::Command::new(path)
                .arg("--interactive")
                .stdin(std::process::Stdio::piped())
                .stdout(std::process::Stdio::piped())
                .spawn()
                .ok()?;
            let stdin = child.stdin.take()?;
            let stdout = std::io::BufReader::new(child.stdout.take()?);
            Some(ModelProc { child, stdin, stdout })
        }
        pub fn ask(&mut self, line: &str) -> Option<String> {
            use std::io::{BufRead, Write};
            writeln!(self.stdin, "{line}").ok()?;
            self.stdin.flush().ok()?;
            let mut out = String::new();
            self.stdout.read_line(&mut out).ok()?;
            Some(out.trim_end().to_string())
        }
    }

    impl Drop for ModelProc {
        fn drop(&mut self) {
            let _ = self.child.kill();
        }
    }

    /// Zones of `ev` on disk: (shard, segment label, zone id, ladder of `field`, k values of the zone).
    pub fn zones_on_disk(base: &std::path::Path, uid: &str, field: &str) -> Vec<(usize, String, u32, Vec<String>, Vec<i64>)> {
        use snel_db::engine::core::ColumnReader;
        use snel_db::engine::core::zone::rlte_index::RlteIndex;
        let mut out = vec![];
        let n = snel_db::shared::config::CONFIG.engine.shard_count;
        for shard in 0..n {
            let dir = base.join("cols").join(format!("shard-{shard}"));
            let Ok(rd) = std::fs::read_dir(&dir) else { continue };
            let mut segs: Vec<String> = rd
                .filter_map(|e| e.ok())
                .filter_map(|e| e.file_name().into_string().ok())
                .filter(|n| !n.is_empty() && n.chars().all(|c| c.is_ascii_digit()))
                .collect();
            segs.sort();
            for seg in segs {
                let sdir = dir.join(&seg);
                let Ok(idx) = RlteIndex::load(uid, &sdir) else { continue };
                let Some(lads) = idx.ladders.get(field) else { continue };
                let mut zids: Vec<u32> = lads.keys().cloned().collect();
                zids.sort();
                for z in zids {
                    let ks: Vec<i64> = ColumnReader::load_for_zone(&sdir, &seg, uid, "k", z)
                        .map(|v| v.iter().filter_map(|s| s.parse::<i64>().ok()).collect())
                        .unwrap_or_default();
                    out.push((shard, seg.clone(), z, lads[&z].clone(), ks));
                }
            }
        }
        out
    }

    pub fn rltel_op(asc: bool, limit: Option<usize>, offset: Option<usize>, zone_size: usize, wb: Option<(&str, u64)>,
                    zones: &[(usize, u64, u32, Vec<String>)]) -> String {
        let o = |x: Option<usize>| x.map(|v| v.to_string()).unwrap_or("-".into());
        let mut s = format!("rltel {} {} {} {} {} {} {}", asc as u8, o(limit), o(offset), zone_size,
            wb.map(|w| w.0).unwrap_or("-"), wb.map(|w| w.1).unwrap_or(0), zones.len());
        for (sh, sg, z, lad) in zones {
            s.push_str(&format!(" {sh} {sg} {z} {}", lad.len()));
            for l in lad {
                s.push_str(&format!(" {}", hex(l.as_bytes())));
            }
        }
        s
    }

    /// `cutoff=.. kept=a:b:c,…` → kept set; `none` → None.
    pub fn parse_kept(line: &str) -> Option<Option<Vec<(usize, u64, u32)>>> {
        if line == "none" {
            return Some(None);
        }
        let kept = line.split(" kept=").nth(1)?;
        let mut v = vec![];
        for part in kept.split(',').filter(|p| !p.is_empty()) {
            let mut it = part.split(':');
            v.push((it.next()?.parse().ok()?, it.next()?.parse().ok()?, it.next()?.parse().ok()?));
        }
        Some(Some(v))
    }

    /// What the faithful model says the engine returns: memtable rows plus the rows of the zones the
    /// (modelled) planner keeps, filtered by FOR / WHERE k >= w, sorted, sliced.
    #[allow(clippy::too_many_arguments)]
    pub async fn predict(sys: &Sys, model: &mut Option<ModelProc>, base: &std::path::Path, ev: &str, field: &str, c: Col,
                         written: &[(i64, SV, usize)], asc: bool, limit: Option<usize>, offset: Option<usize>,
                         wh: Option<i64>, ctx: Option<usize>) -> Option<Vec<SV>> {
        let model = model.as_mut()?;
        let uid = sys.reg.read().await.get_uid(ev)?;
        let zones = zones_on_disk(base, &uid, field);
        let zone_size = snel_db::shared::config::CONFIG.engine.event_per_zone;
        let zl: Vec<(usize, u64, u32, Vec<String>)> = zones.iter().map(|z| (z.0, z.1.parse::<u64>().unwrap_or(0), z.2, z.3.clone())).collect();
        let ans = model.ask(&rltel_op(asc, limit, offset, zone_size, None, &zl))?;
        let kept = parse_kept(&ans)?;
        let mut in_segments: std::collections::HashSet<i64> = std::collections::HashSet::new();
        let mut visible: std::collections::HashSet<i64> = std::collections::HashSet::new();
        for z in &zones {
            let key = (z.0, z.1.parse::<u64>().unwrap_or(0), z.2);
            let read = kept.as_ref().map_or(true, |k| k.contains(&key));
            for k in &z.4 {
                in_segments.insert(*k);
                if read {
                    visible.insert(*k);
                }
            }
        }
        let mut rows: Vec<&(i64, SV, usize)> = written
            .iter()
            .filter(|(k, _, cx)| (visible.contains(k) || !in_segments.contains(k)) && wh.map_or(true, |w| *k >= w) && ctx.map_or(true, |c0| *cx == c0))
            .collect();
        rows.sort_by(|x, y| { let o = ref_cmp(c, &x.1, &y.1); if asc { o } else { o.reverse() } });
        Some(rows.into_iter().skip(offset.unwrap_or(0)).take(limit.unwrap_or(usize::MAX)).map(|r| r.1.clone()).collect())
    }

    /// Deep pagination over flushed data with many zones: ORDER BY v [DESC] LIMIT n OFFSET m with m
    /// large against n (the planner sizes its pre-selection from n + m).
    pub fn run_deep(a: &snel_harness::out::Args) {
        let rt = tokio::runtime::Builder::new_multi_thread().worker_threads(4).enable_all().build().unwrap();
        let mut s = Stream::create(&a.out, "deep");
        let base = a.out.join("c10-sys");
        let sys = rt.block_on(async {
            let reg = Arc::new(RwLock::new(SchemaRegistry::new().expect("registry")));
            let n = snel_db::shared::config::CONFIG.engine.shard_count;
            let sm = Arc::new(ShardManager::new(n, base.join("cols"), base.join("wal")).await);
            Sys { sm, reg }
        });
        let zone = snel_db::shared::config::CONFIG.engine.event_per_zone;
        s.tally(&format!("cfg_event_per_zone_{zone}"));
        let mut model = ModelProc::start();
        if model.is_none() { s.tally("model_driver_missing"); }
        let c = Col::Int;
        for i in 0..a.cases {
            if a.only.is_some_and(|o| o != i) {
                continue;
            }
            let mut r = Rng::for_case(a.seed, "deep", i);
            let ev = format!("d{}x{}", a.seed, i);
            let n_rows = 80 + r.below(240) as usize;
            let n_ctx = 1 + r.below(60) as usize;
            let distinct_vals = r.chance(2, 3);
            let mut vals: Vec<i64> = (1..=n_rows as i64).collect();
            r.shuffle(&mut vals);
            let rows: Vec<(i64, SV, usize)> = (0..n_rows)
                .map(|j| {
                    let v = if distinct_vals { vals[j] } else { r.range(-30, 30) };
                    (j as i64 + 1, SV::Int64(v), r.below(n_ctx as u64) as usize)
                })
                .collect();
            let n_mid = r.below(3) as usize;
            let mut flush_at: Vec<usize> = (0..n_mid).map(|_| r.below(n_rows as u64) as usize).collect();
            flush_at.sort();
            let tail_in_memtable = if r.chance(1, 5) { r.below(20) as usize } else { 0 };
            let queries: Vec<(bool, usize, usize)> = (0..8)
                .map(|_| {
                    let n = 1 + r.below(4) as usize;
                    let m = match r.below(6) {
                        0 => 0,
                        1 => r.below(9 * n as u64 + 1) as usize,
                        2 => n_rows + r.below(3) as usize,
                        _ => 9 * n + 1 + r.below(6 * n as u64 + 2) as usize, // deeper than 9 × LIMIT
                    };
                    (r.chance(1, 2), n, m)
                })
                .collect();
            let res: Result<Vec<(String, Resp)>, String> = rt.block_on(async {
                let d = sys.cmd(&format!("DEFINE {ev} FIELDS {{ k: \"int\", v: \"int\" }}")).await?;
                if !d.contains("200") && !d.to_lowercase().contains("ok") {
                    return Err(format!("define failed: {d}"));
                }
                let mut fi = 0;
                let flushed_upto = n_rows - tail_in_memtable;
                for (j, (k, v, ctx)) in rows.iter().enumerate() {
                    while fi < flush_at.len() && flush_at[fi] == j {
                        wait_visible(&sys, &ev, j).await?;
                        sys.cmd("FLUSH").await?;
                        fi += 1;
                    }
                    if j == flushed_upto {
                        wait_visible(&sys, &ev, j).await?;
                        sys.cmd("FLUSH").await?;
                    }
                    let SV::Int64(vv) = v else { unreachable!() };
                    let payload = serde_json::json!({"k": k, "v": vv});
                    let resp = sys.cmd(&format!("STORE {ev} FOR c{ctx} PAYLOAD {payload}")).await?;
                    if !resp.contains("200") {
                        return Err(format!("store rejected: {payload} -> {resp}"));
                    }
                }
                wait_visible(&sys, &ev, rows.len()).await?;
                if tail_in_memtable == 0 {
                    sys.cmd("FLUSH").await?;
                }
                wait_visible(&sys, &ev, rows.len()).await?;
                let mut out = vec![];
                for (desc, n, m) in &queries {
                    let q = format!("QUERY {ev} RETURN [v] ORDER BY v {} LIMIT {n} OFFSET {m}", if *desc { "DESC" } else { "ASC" });
                    let resp = sys.cmd(&q).await?;
                    out.push((q, parse_rows(&resp, "v")));
                }
                Ok(out)
            });
            s.tally_n("events", n_rows as u64);
            s.tally(&format!("mid_flushes_{}", flush_at.len()));
            if tail_in_memtable > 0 { s.tally("tail_in_memtable"); }
            let answers = match res {
                Ok(x) => x,
                Err(_) => {
                    s.tally("session_skipped");
                    s.case(&format!("deep {i}"), "session-skipped", false);
                    continue;
                }
            };
            let mut summary = vec![];
            for ((desc, n, m), (q, resp)) in queries.iter().zip(answers.iter()) {
                summary.push(format!("{}:{}", resp.status, resp.rows.len()));
                s.tally(if *m > 9 * *n { "q_offset_gt_9x_limit" } else { "q_offset_le_9x_limit" });
                let mut reference: Vec<&SV> = rows.iter().map(|x| &x.1).collect();
                reference.sort_by(|x, y| { let o = ref_cmp(c, x, y); if *desc { o.reverse() } else { o } });
                let expect: Vec<&SV> = reference.iter().skip(*m).take(*n).cloned().collect();
                let got: Option<Vec<SV>> = resp.rows.iter().map(|(cell, _)| key_of_cell(c, cell)).collect();
                let got = got.unwrap_or_default();
                let ok = resp.status == 200 && expect.len() == got.len() && expect.iter().zip(got.iter()).all(|(e, g)| ref_cmp(c, e, g) == Ordering::Equal);
                if ok {
                    s.oracle_ok();
                    continue;
                }
                let pred = rt.block_on(predict(&sys, &mut model, &base, &ev, "v", c, &rows, !*desc, Some(*n), Some(*m), None, None));
                let class = match &pred {
                    Some(p) if resp.status == 200 && p.len() == got.len() && p.iter().zip(got.iter()).all(|(x, y)| ref_cmp(c, x, y) == Ordering::Equal) => "rlte-preselection-drops-zones",
                    _ => "-",
                };
                s.oracle_fail(i, class, &format!("{q}: status {} expected keys {:?} got {:?}, faithful model predicts {:?}; events={n_rows} zone={zone} mid_flushes={} tail_in_memtable={tail_in_memtable}",
                    resp.status, expect.iter().map(|x| tok(x)).collect::<Vec<_>>(), got.iter().map(tok).collect::<Vec<_>>(),
                    pred.map(|p| p.iter().map(tok).collect::<Vec<_>>()), flush_at.len()));
            }
            s.case(&format!("deep {i}"), &summary.join(" "), true);
        }
        s.finish();
        std::process::exit(0);
    }

    /// Verdict on one unordered LIMIT/OFFSET response: `min(n, max(0, matches - m))` distinct events,
    /// judged against the rows written (ground truth) or against the engine's own de-duplicated
    /// selection for the same WHERE (whether that selection is complete is C02/C03's subject).
    fn judge_page(rows: &[(i64, usize)], wh: Option<i64>, n: usize, m: Option<usize>, resp: &Resp, base: &Resp) -> Result<(), String> {
        let matches = rows.iter().filter(|(v, _)| wh.map_or(true, |w| *v >= w)).count();
        let m0 = m.unwrap_or(0);
        let want_truth = n.min(matches.saturating_sub(m0));
        let mut base_ids: Vec<u64> = base.rows.iter().filter_map(|x| x.1).collect();
        base_ids.sort();
        base_ids.dedup();
        let want_base = n.min(base_ids.len().saturating_sub(m0));
        let mut ids: Vec<u64> = resp.rows.iter().filter_map(|x| x.1).collect();
        let have_ids = ids.len() == resp.rows.len();
        ids.sort();
        let distinct = have_ids && ids.windows(2).all(|w| w[0] != w[1]);
        let all_match = resp.rows.iter().all(|(cell, _)| cell.as_i64().is_some_and(|v| wh.map_or(true, |w| v >= w)));
        let from_base = have_ids && ids.iter().all(|e| base_ids.binary_search(e).is_ok());
        let ok_truth = resp.rows.len() == want_truth && all_match;
        let ok_base = base.status == 200 && resp.rows.len() == want_base && from_base;
        if resp.status == 200 && distinct && (ok_truth || ok_base) {
            return Ok(());
        }
        let mut d = ids.clone();
        d.dedup();
        Err(format!("status {} returned {} rows ({} distinct ids, all match WHERE: {all_match}); {matches} events match, so min(n, max(0, matches - m)) = {want_truth} (engine's own de-duplicated selection: {} events -> {want_base})",
            resp.status, resp.rows.len(), d.len(), base_ids.len()))
    }

    fn same_ids(a: &Resp, b: &Resp) -> bool {
        let mut x: Vec<Option<u64>> = a.rows.iter().map(|r| r.1).collect();
        let mut y: Vec<Option<u64>> = b.rows.iter().map(|r| r.1).collect();
        x.sort();
        y.sort();
        a.status == 200 && b.status == 200 && x == y
    }

    /// Unordered LIMIT / OFFSET / WHERE while shards sit inside their flush window: the flush worker is
    /// parked at `flush.published` (segment published, passive buffer not yet cleared), so the rows
    /// of the flushed memtable reach the coordinator twice — from the passive buffer and from the
    /// segment.  The response must still be `min(n, max(0, matches - m))` distinct matching events.
    /// Only quiescent states are judged (every started flush is parked or finished, the selection is
    /// the same before and after the query); a failure must reproduce to be reported.
    pub fn run_window(a: &snel_harness::out::Args) {
        let rt = tokio::runtime::Builder::new_multi_thread().worker_threads(8).enable_all().build().unwrap();
        let mut s = Stream::create(&a.out, "window");
        let base = a.out.join("c10-sys");
        let sys = rt.block_on(async {
            let reg = Arc::new(RwLock::new(SchemaRegistry::new().expect("registry")));
            let n = snel_db::shared::config::CONFIG.engine.shard_count;
            let sm = Arc::new(ShardManager::new(n, base.join("cols"), base.join("wal")).await);
            Sys { sm, reg }
        });
        let cap = snel_db::shared::config::CONFIG.engine.event_per_zone * snel_db::shared::config::CONFIG.engine.fill_factor;
        s.tally(&format!("cfg_memtable_capacity_{cap}"));
        for i in 0..a.cases {
            if a.only.is_some_and(|o| o != i) {
                continue;
            }
            let mut r = Rng::for_case(a.seed, "window", i);
            let ev = format!("w{}x{}", a.seed, i);
            let n_rows = cap + 1 + r.below(3 * cap as u64) as usize;
            let n_ctx = 1 + r.below(3) as usize;
            let rows: Vec<(i64, usize)> = (0..n_rows).map(|_| (r.range(0, 12), r.below(n_ctx as u64) as usize)).collect();
            let park = !r.chance(1, 6);
            let queries: Vec<(Option<i64>, usize, Option<usize>)> = (0..10)
                .map(|_| {
                    let wh = if r.chance(1, 3) { Some(r.range(0, 12)) } else { None };
                    let pick = |r: &mut Rng| match r.below(6) { 0 => 0, 1 => n_rows + r.below(8) as usize, 2 => n_rows, _ => r.below(n_rows as u64 + 1) as usize };
                    let n = pick(&mut r);
                    let m = if r.chance(1, 5) { None } else { Some(pick(&mut r)) };
                    (wh, n, m)
                })
                .collect();
            // per query: (text, verdict: None = state not quiescent, Some(Ok) / Some(Err(detail)), transient failures seen)
            type Ans = (String, Option<Result<(), String>>, usize, usize);
            let res: Result<(u64, Vec<Ans>, Vec<Ans>), String> = rt.block_on(async {
                let d = sys.cmd(&format!("DEFINE {ev} FIELDS {{ v: \"int\" }}")).await?;
                if !d.contains("200") && !d.to_lowercase().contains("ok") {
                    return Err(format!("define failed: {d}"));
                }
                if park {
                    snel_db::verif::arm_park("flush.published");
                }
                for (v, ctx) in &rows {
                    let resp = sys.cmd(&format!("STORE {ev} FOR wc{ctx} PAYLOAD {{\"v\": {v}}}")).await?;
                    if !resp.contains("200") {
                        snel_db::verif::release("flush.published");
                        return Err(format!("store rejected: {resp}"));
                    }
                }
                if !park {
                    let errs = sys.sm.wait_for_flush_completion().await;
                    if !errs.is_empty() {
                        return Err(format!("flush errors {errs:?}"));
                    }
                }
                // quiescence: all rows visible, every flush that started has reached flush.published
                let mut calm = 0;
                for _ in 0..800 {
                    let b = parse_rows(&sys.cmd(&format!("QUERY {ev}")).await?, "v");
                    let mut ids: Vec<u64> = b.rows.iter().filter_map(|x| x.1).collect();
                    ids.sort();
                    ids.dedup();
                    let started = snel_db::verif::hits("flush.registered");
                    let published = snel_db::verif::hits("flush.published");
                    if ids.len() >= rows.len() && started == published {
                        calm += 1;
                        if calm >= 4 {
                            break;
                        }
                    } else {
                        calm = 0;
                    }
                    tokio::time::sleep(std::time::Duration::from_millis(10)).await;
                }
                let parked = snel_db::verif::parked("flush.published");
                let run_queries = |phase: &'static str| {
                    let sys = &sys;
                    let ev = &ev;
                    let queries = &queries;
                    let rows = &rows;
                    async move {
                        let mut out: Vec<Ans> = vec![];
                        for (wh, n, m) in queries.iter() {
                            let mut bq = format!("QUERY {ev}");
                            if let Some(w) = wh { bq.push_str(&format!(" WHERE v >= {w}")); }
                            let mut q = bq.clone();
                            q.push_str(&format!(" LIMIT {n}"));
                            if let Some(m) = m { q.push_str(&format!(" OFFSET {m}")); }
                            let mut verdict: Option<Result<(), String>> = None;
                            let mut failures = 0usize;
                            let mut returned = 0usize;
                            for _attempt in 0..3 {
                                let base = parse_rows(&sys.cmd(&bq).await?, "v");
                                let resp = parse_rows(&sys.cmd(&q).await?, "v");
                                let base2 = parse_rows(&sys.cmd(&bq).await?, "v");
                                returned = resp.rows.len();
                                if !same_ids(&base, &base2) {
                                    tokio::time::sleep(std::time::Duration::from_millis(20)).await;
                                    continue; // a flush is moving rows between tiers: not judged
                                }
                                match judge_page(rows, *wh, *n, *m, &resp, &base) {
                                    Ok(()) => { verdict = Some(Ok(())); break; }
                                    Err(e) => {
                                        failures += 1;
                                        verdict = Some(Err(e));
                                        tokio::time::sleep(std::time::Duration::from_millis(20)).await;
                                    }
                                }
                            }
                            // reported only if every judged attempt failed, at least twice
                            if matches!(verdict, Some(Err(_))) && failures < 2 {
                                verdict = None;
                            }
                            out.push((format!("[{phase}] {q}"), verdict, failures, returned));
                        }
                        Ok::<_, String>(out)
                    }
                };
                let in_window = run_queries("flush window").await;
                snel_db::verif::release("flush.published");
                let errs = sys.sm.wait_for_flush_completion().await;
                let in_window = in_window?;
                if !errs.is_empty() {
                    return Err(format!("flush errors {errs:?}"));
                }
                let after = run_queries("after flush").await?;
                Ok((parked, in_window, after))
            });
            let (parked, in_window, after) = match res {
                Ok(x) => x,
                Err(_) => {
                    snel_db::verif::release("flush.published");
                    s.tally("session_skipped");
                    s.case(&format!("window {i}"), "session-skipped", false);
                    continue;
                }
            };
            s.tally(if parked > 0 { "flush_parked_during_queries" } else { "no_flush_parked" });
            s.tally_n("events", n_rows as u64);
            let mut summary = vec![];
            for (phase_i, answers) in [in_window, after].iter().enumerate() {
                for ((_wh, _n, m), (q, verdict, failures, returned)) in queries.iter().zip(answers.iter()) {
                    summary.push(format!("{returned}"));
                    if phase_i == 0 && parked > 0 {
                        s.tally(if m.is_some_and(|x| x > 0) { "q_window_with_offset" } else { "q_window_no_offset" });
                    }
                    match verdict {
                        None => s.tally("q_not_quiescent_or_transient"),
                        Some(Ok(())) => {
                            if *failures > 0 { s.tally("q_passed_on_retry"); }
                            s.oracle_ok();
                        }
                        Some(Err(e)) => s.oracle_fail(i, "-", &format!("{q}: {e}; flush parked at flush.published: {}; reproduced {failures}x", parked > 0)),
                    }
                }
            }
            s.case(&format!("window {i}"), &summary.join(" "), parked > 0);
        }
        s.finish();
        std::process::exit(0);
    }

    /// Ordered LIMIT/OFFSET pages while a shard holds a non-empty passive memtable next to an active
    /// memtable with at least LIMIT+OFFSET matching rows: the flush worker is parked at
    /// `flush.registered` (nothing written yet: active + passive only, no segment, so no RLTE) or at
    /// `flush.published` (passive + segment).  Keys are drawn so that passive rows sort both before
    /// and after active rows; the page is checked against the reference sort of all acknowledged rows.
    pub fn run_passive(a: &snel_harness::out::Args) {
        let rt = tokio::runtime::Builder::new_multi_thread().worker_threads(8).enable_all().build().unwrap();
        let mut s = Stream::create(&a.out, "passive");
        let base = a.out.join("c10-sys");
        let sys = rt.block_on(async {
            let reg = Arc::new(RwLock::new(SchemaRegistry::new().expect("registry")));
            let n = snel_db::shared::config::CONFIG.engine.shard_count;
            let sm = Arc::new(ShardManager::new(n, base.join("cols"), base.join("wal")).await);
            Sys { sm, reg }
        });
        let cap = snel_db::shared::config::CONFIG.engine.event_per_zone * snel_db::shared::config::CONFIG.engine.fill_factor;
        s.tally(&format!("cfg_memtable_capacity_{cap}"));
        let mut model = ModelProc::start();
        let c = Col::Int;
        for i in 0..a.cases {
            if a.only.is_some_and(|o| o != i) {
                continue;
            }
            let mut r = Rng::for_case(a.seed, "passive", i);
            let ev = format!("p{}x{}", a.seed, i);
            // `published` (extra argument) also parks after publication, where passive buffer and segment
            // both serve the flushed rows; ordered pages then count those duplicates (proposed finding
            // C10-ordered-page-counts-window-duplicates), so that half is opt-in until the finding is listed
            let with_published = a.extra.iter().any(|x| x == "published");
            let pick_pub = r.chance(1, 2);
            let point: &'static str = if with_published && pick_pub { "flush.published" } else { "flush.registered" };
            let n_active = 4 + r.below(6) as usize;
            let queries: Vec<(bool, usize, Option<usize>)> = (0..8)
                .map(|_| {
                    let n = 1 + r.below(3) as usize;
                    let m = if r.chance(1, 2) { None } else { Some(r.below(3) as usize) };
                    (r.chance(1, 2), n, m)
                })
                .collect();
            let keys: Vec<i64> = (0..(2 * cap + 2 + n_active)).map(|_| r.range(0, 40)).collect();
            // (k, v, in_passive)
            type Out = (Vec<(i64, i64, bool)>, Vec<(String, Option<Result<(), String>>, Vec<SV>, Vec<SV>)>);
            let res: Result<Out, String> = rt.block_on(async {
                let d = sys.cmd(&format!("DEFINE {ev} FIELDS {{ k: \"int\", v: \"int\" }}")).await?;
                if !d.contains("200") && !d.to_lowercase().contains("ok") {
                    return Err(format!("define failed: {d}"));
                }
                snel_db::verif::arm_park(point);
                let mut rows: Vec<(i64, i64, bool)> = vec![];
                let mut next = 0usize;
                // one context = one shard: store until that shard's memtable rotates and its flush parks
                while snel_db::verif::parked(point) == 0 && next < 2 * cap + 2 {
                    let (k, v) = (next as i64 + 1, keys[next]);
                    let resp = sys.cmd(&format!("STORE {ev} FOR pc{i} PAYLOAD {{\"k\": {k}, \"v\": {v}}}")).await?;
                    if !resp.contains("200") { return Err(format!("store rejected: {resp}")); }
                    rows.push((k, v, true));
                    next += 1;
                    tokio::time::sleep(std::time::Duration::from_millis(4)).await;
                }
                if snel_db::verif::parked(point) == 0 {
                    return Err("no rotation".into());
                }
                // a few more rows: they land in the fresh active memtable
                for _ in 0..n_active {
                    let (k, v) = (next as i64 + 1, keys[next]);
                    let resp = sys.cmd(&format!("STORE {ev} FOR pc{i} PAYLOAD {{\"k\": {k}, \"v\": {v}}}")).await?;
                    if !resp.contains("200") { return Err(format!("store rejected: {resp}")); }
                    rows.push((k, v, false));
                    next += 1;
                }
                let mut calm = 0;
                for _ in 0..600 {
                    let b = parse_rows(&sys.cmd(&format!("QUERY {ev} RETURN [k]")).await?, "k");
                    let mut ks: Vec<i64> = b.rows.iter().filter_map(|x| x.0.as_i64()).collect();
                    ks.sort();
                    ks.dedup();
                    if ks.len() >= rows.len() { calm += 1; if calm >= 3 { break; } } else { calm = 0; }
                    tokio::time::sleep(std::time::Duration::from_millis(5)).await;
                }
                if calm < 3 { return Err("rows not visible".into()); }
                let mut out = vec![];
                for (desc, n, m) in &queries {
                    let mut q = format!("QUERY {ev} RETURN [v] ORDER BY v {} LIMIT {n}", if *desc { "DESC" } else { "ASC" });
                    if let Some(m) = m { q.push_str(&format!(" OFFSET {m}")); }
                    let mut reference: Vec<SV> = rows.iter().map(|x| SV::Int64(x.1)).collect();
                    reference.sort_by(|x, y| { let o = ref_cmp(c, x, y); if *desc { o.reverse() } else { o } });
                    let expect: Vec<SV> = reference.into_iter().skip(m.unwrap_or(0)).take(*n).collect();
                    let mut verdict = None;
                    let mut fails = 0;
                    let mut got: Vec<SV> = vec![];
                    for _ in 0..3 {
                        let resp = parse_rows(&sys.cmd(&q).await?, "v");
                        got = resp.rows.iter().filter_map(|(cell, _)| key_of_cell(c, cell)).collect();
                        let ok = resp.status == 200 && got.len() == expect.len() && got.iter().zip(expect.iter()).all(|(x, y)| ref_cmp(c, x, y) == Ordering::Equal);
                        if ok { verdict = Some(Ok(())); break; }
                        fails += 1;
                        verdict = Some(Err(format!("status {}", resp.status)));
                        tokio::time::sleep(std::time::Duration::from_millis(15)).await;
                    }
                    if matches!(verdict, Some(Err(_))) && fails < 3 { verdict = None; }
                    out.push((q, verdict, expect, got));
                }
                Ok((rows, out))
            });
            // known RLTE class only where a segment exists (parked after publication)
            let mut preds: Vec<Option<Vec<SV>>> = vec![];
            if let Ok((rows, out)) = &res {
                for ((desc, n, m), (_, verdict, _, _)) in queries.iter().zip(out.iter()) {
                    if matches!(verdict, Some(Err(_))) && point == "flush.published" {
                        let written: Vec<(i64, SV, usize)> = rows.iter().map(|x| (x.0, SV::Int64(x.1), 0)).collect();
                        preds.push(rt.block_on(predict(&sys, &mut model, &base, &ev, "v", c, &written, !*desc, Some(*n), *m, None, None)));
                    } else {
                        preds.push(None);
                    }
                }
            }
            snel_db::verif::release(point);
            let _ = rt.block_on(sys.sm.wait_for_flush_completion());
            let (rows, out) = match res {
                Ok(x) => x,
                Err(_) => {
                    s.tally("session_skipped");
                    s.case(&format!("passive {i}"), "session-skipped", false);
                    continue;
                }
            };
            s.tally(&format!("parked_at_{point}"));
            s.tally_n("rows_passive", rows.iter().filter(|x| x.2).count() as u64);
            s.tally_n("rows_active", rows.iter().filter(|x| !x.2).count() as u64);
            let mut summary = vec![];
            for (((desc, n, m), (q, verdict, expect, got)), pred) in queries.iter().zip(out.iter()).zip(preds.iter()) {
                summary.push(format!("{}", got.len()));
                let k = n + m.unwrap_or(0);
                // did a passive row belong in the page while the active memtable alone had >= n+m rows?
                let mut reference: Vec<&(i64, i64, bool)> = rows.iter().collect();
                reference.sort_by(|x, y| { let o = x.1.cmp(&y.1); if *desc { o.reverse() } else { o } });
                let active_only = rows.iter().filter(|x| !x.2).count() >= k;
                let boundary = reference.get(k.saturating_sub(1)).map(|x| x.1);
                let passive_needed = boundary.is_some_and(|b| rows.iter().any(|x| x.2 && (if *desc { x.1 > b } else { x.1 < b })))
                    || reference.iter().skip(m.unwrap_or(0)).take(*n).any(|x| x.2);
                if active_only && passive_needed {
                    s.tally("q_passive_row_in_page_while_active_alone_has_n_plus_m");
                }
                match verdict {
                    None => s.tally("q_transient"),
                    Some(Ok(())) => s.oracle_ok(),
                    Some(Err(e)) => {
                        let mut class = match pred {
                            Some(p) if p.len() == got.len() && p.iter().zip(got.iter()).all(|(x, y)| ref_cmp(c, x, y) == Ordering::Equal) => "rlte-preselection-drops-zones",
                            _ => "-",
                        };
                        if class == "-" && point == "flush.published" {
                            // the merger cuts the page from an order in which every row of the passive buffer
                            // occurs twice (buffer + segment); the writer then drops the second copies
                            let mut doubled: Vec<i64> = rows.iter().flat_map(|x| if x.2 { vec![x.1, x.1] } else { vec![x.1] }).collect();
                            doubled.sort();
                            if *desc { doubled.reverse(); }
                            let w: Vec<i64> = doubled.into_iter().skip(m.unwrap_or(0)).take(*n).collect();
                            let g: Vec<i64> = got.iter().filter_map(|x| if let SV::Int64(v) = x { Some(*v) } else { None }).collect();
                            let mut it = w.iter();
                            let subseq = g.iter().all(|x| it.any(|y| y == x));
                            if subseq && g.len() == got.len() && !g.is_empty() || (g.is_empty() && w.is_empty()) {
                                class = "ordered-page-counts-window-duplicates";
                            }
                        }
                        s.oracle_fail(i, class, &format!("{q} ({e}) while the flush is parked at {point}: expected keys {:?} got {:?}; passive memtable holds v = {:?}, active memtable holds v = {:?}",
                            expect.iter().map(tok).collect::<Vec<_>>(), got.iter().map(tok).collect::<Vec<_>>(),
                            rows.iter().filter(|x| x.2).map(|x| x.1).collect::<Vec<_>>(), rows.iter().filter(|x| !x.2).map(|x| x.1).collect::<Vec<_>>()));
                    }
                }
            }
            s.case(&format!("passive {i}"), &summary.join(" "), true);
        }
        s.finish();
        std::process::exit(0);
    }

    fn e2e_class(c: Col, keys: &[SV], _flushes: usize) -> &'static str {
        match first_departure(c, keys) {
            Some((x, y)) => pair_class(c, &keys[x], &keys[y]),
            None => "-",
        }
    }

    async fn wait_visible(sys: &Sys, ev: &str, n: usize) -> Result<(), String> {
        for _ in 0..400 {
            let resp = sys.cmd(&format!("QUERY {ev} RETURN [k]")).await?;
            let mut d: Vec<i64> = parse_rows(&resp, "k").rows.iter().filter_map(|x| x.0.as_i64()).collect();
            d.sort();
            d.dedup();
            if d.len() >= n {
                return Ok(());
            }
            tokio::time::sleep(std::time::Duration::from_millis(5)).await;
        }
        Err(format!("stored events did not become visible ({n})"))
    }
}

// ------------------------------------------------------------------ RLTE planner, component level
mod rlte {
    use super::e2e::{parse_kept, rltel_op, ModelProc, Sys};
    use super::*;
    use snel_db::command::parser::parse_command;
    use snel_db::engine::core::read::catalog::{IndexKind, SegmentIndexCatalog};
    use snel_db::engine::core::zone::rlte_index::RlteIndex;
    use snel_db::engine::core::zone::zone_plan::ZonePlan;
    use snel_db::engine::core::{Event, QueryPlan};
    use snel_db::engine::query::rlte_planner::plan_with_rlte;
    use snel_db::engine::schema::SchemaRegistry;
    use snel_db::engine::shard::manager::ShardManager;
    use std::collections::HashMap;
    use tokio::sync::RwLock;

    fn gen_val(r: &mut Rng, kind: u64) -> SV {
        match kind {
            0 => SV::Int64(r.range(-15, 40)),
            1 => SV::Int64(match r.below(8) { 0 => i64::MAX - r.below(3) as i64, 1 => i64::MIN + r.below(3) as i64, _ => r.range(-1000, 1000) }),
            2 => {
                let n = 1 + r.below(3);
                SV::Utf8((0..n).map(|_| (b'a' + r.below(5) as u8) as char).collect())
            }
            3 => SV::Utf8(r.below(120).to_string()), // number-looking strings: numeric ladders in a string field
            _ => {
                if r.chance(1, 2) { SV::Utf8(r.below(30).to_string()) } else { SV::Utf8(r.pick(&["a", "b", "zz", "", "10x"]).to_string()) }
            }
        }
    }

    pub fn run(a: &snel_harness::out::Args) {
        let rt = tokio::runtime::Builder::new_multi_thread().worker_threads(2).enable_all().build().unwrap();
        let mut s = Stream::create(&a.out, "rlte");
        let base = a.out.join("c10-sys");
        let sys = rt.block_on(async {
            let reg = Arc::new(RwLock::new(SchemaRegistry::new().expect("registry")));
            let n = snel_db::shared::config::CONFIG.engine.shard_count;
            let sm = Arc::new(ShardManager::new(n, base.join("cols"), base.join("wal")).await);
            Sys { sm, reg }
        });
        let zone_size = snel_db::shared::config::CONFIG.engine.event_per_zone;
        s.tally(&format!("cfg_event_per_zone_{zone_size}"));
        let uid = rt.block_on(async {
            let d = sys.cmd("DEFINE r FIELDS { k: \"int\", v: \"int\", s: \"string\" }").await.unwrap();
            assert!(d.contains("200") || d.to_lowercase().contains("ok"), "{d}");
            sys.reg.read().await.get_uid("r").unwrap()
        });
        let mut model = ModelProc::start();
        if model.is_none() { s.tally("model_driver_missing"); }
        for i in 0..a.cases {
            if a.only.is_some_and(|o| o != i) {
                continue;
            }
            let mut r = Rng::for_case(a.seed, "rlte", i);
            let kind = r.below(5);
            let field = if kind < 2 { "v" } else { "s" };
            let col = if kind < 2 { Col::Int } else { Col::PlainStr };
            let n_shards = 1 + r.below(3) as usize;
            let case_dir = a.out.join("rlte-cases").join(format!("{i}"));
            let mut bases: HashMap<usize, std::path::PathBuf> = HashMap::new();
            let mut segs: HashMap<usize, Vec<String>> = HashMap::new();
            // (shard, seg, zone, values of the zone)
            let mut zones: Vec<(usize, u64, u32, Vec<SV>)> = vec![];
            let mut ladders: Vec<(usize, u64, u32, Vec<String>)> = vec![];
            let mut kk = 0i64;
            let many = r.chance(1, 2);
            for sh in 0..n_shards {
                let sdir = case_dir.join(format!("shard-{sh}"));
                bases.insert(sh, sdir.clone());
                let n_segs = 1 + r.below(2) as usize;
                let mut labels = vec![];
                for sg in 0..n_segs {
                    let label = format!("{:05}", sg + 1);
                    let n_ev = 1 + r.below(if many { zone_size as u64 * 25 } else { zone_size as u64 * 4 }) as usize;
                    let events: Vec<Event> = (0..n_ev)
                        .map(|_| {
                            kk += 1;
                            let v = gen_val(&mut r, kind);
                            let mut payload = serde_json::Map::new();
                            payload.insert("k".into(), serde_json::json!(kk));
                            match &v {
                                SV::Int64(x) => { payload.insert("v".into(), serde_json::json!(x)); payload.insert("s".into(), serde_json::json!("x")); }
                                SV::Utf8(x) => { payload.insert("v".into(), serde_json::json!(0)); payload.insert("s".into(), serde_json::json!(x)); }
                                _ => unreachable!(),
                            }
                            serde_json::from_value::<Event>(serde_json::json!({"event_type": "r", "context_id": "c", "timestamp": 1u64, "payload": payload})).unwrap()
                        })
                        .collect();
                    let plans = ZonePlan::build_all(&events, zone_size, uid.clone(), (sg + 1) as u64).unwrap();
                    let idx = RlteIndex::build_from_zones(&plans);
                    let dir = sdir.join(&label);
                    std::fs::create_dir_all(&dir).unwrap();
                    idx.save(&uid, &dir).unwrap();
                    let mut cat = SegmentIndexCatalog::new(uid.clone(), label.clone());
                    cat.add_global_kind(IndexKind::RLTE);
                    cat.save(&dir.join(format!("{uid}.icx"))).unwrap();
                    for zp in &plans {
                        let vals: Vec<SV> = zp.events.iter().map(|e| e.payload.get(field).cloned().unwrap()).collect();
                        let lad = idx.ladders.get(field).and_then(|m| m.get(&zp.id)).cloned().unwrap_or_default();
                        // ladder construction: real vs model (one line per zone)
                        if r.chance(1, 4) {
                            let op = format!("ladder {}", vals.iter().map(tok).collect::<Vec<_>>().join(" "));
                            let imp = lad.iter().map(|l| hex(l.as_bytes())).collect::<Vec<_>>().join(" ");
                            s.case(&op, &imp, vals.len() > 1);
                        }
                        zones.push((sh, (sg + 1) as u64, zp.id, vals));
                        ladders.push((sh, (sg + 1) as u64, zp.id, lad));
                    }
                    labels.push(label);
                }
                segs.insert(sh, labels);
            }
            let asc = r.chance(1, 2);
            let total: usize = zones.iter().map(|z| z.3.len()).sum();
            let limit = match r.below(8) { 0 => None, 1 => Some(0), _ => Some(1 + r.below(4) as usize) };
            let offset = match r.below(5) { 0 => None, 1 => Some(0), 2 => Some(r.below(total as u64 / 8 + 2) as usize), _ => Some(r.below(12) as usize) };
            // WHERE on the ORDER BY field (numeric literal) → WhereBound; on another field → none
            let wb: Option<(&str, &str, u64)> = if field == "v" && r.chance(1, 4) {
                let (name, sym) = *r.pick(&[("lt", "<"), ("lte", "<="), ("gt", ">"), ("gte", ">=")]);
                Some((name, sym, r.below(40)))
            } else { None };
            let mut q = "QUERY r RETURN [v]".to_string();
            if let Some((_, sym, x)) = wb { q.push_str(&format!(" WHERE v {sym} {x}")); }
            else if r.chance(1, 6) { q.push_str(" WHERE k >= 0"); }
            q.push_str(&format!(" ORDER BY {field} {}", if asc { "ASC" } else { "DESC" }));
            if let Some(l) = limit { q.push_str(&format!(" LIMIT {l}")); }
            if let (Some(o), Some(_)) = (offset, limit) { q.push_str(&format!(" OFFSET {o}")); }
            let offset = if limit.is_some() { offset } else { None };
            let real = rt.block_on(async {
                let cmd = parse_command(&q).map_err(|e| format!("{e:?}"))?;
                let plan = QueryPlan::build(&cmd, Arc::clone(&sys.reg)).await;
                Ok::<_, String>(plan_with_rlte(&plan, &bases, &segs).await)
            });
            let real = match real {
                Ok(x) => x,
                Err(e) => { s.case(&format!("rltel-parse-error {i}"), &e, false); continue; }
            };
            let imp = match &real {
                None => "none".to_string(),
                Some(out) => {
                    let mut kept: Vec<(usize, u64, u32)> = vec![];
                    let mut cutoff = String::new();
                    for (sh, pz) in &out.per_shard {
                        cutoff = pz.cutoff.clone();
                        for (sg, z) in &pz.zones {
                            kept.push((*sh, sg.parse::<u64>().unwrap(), *z));
                        }
                    }
                    kept.sort();
                    format!("cutoff={} kept={}", hex(cutoff.as_bytes()), kept.iter().map(|k| format!("{}:{}:{}", k.0, k.1, k.2)).collect::<Vec<_>>().join(","))
                }
            };
            ladders.sort_by_key(|z| (z.0, z.1, z.2));
            let op = rltel_op(asc, limit, offset, zone_size, wb.map(|w| (w.0, w.2)), &ladders);
            s.tally(if real.is_some() { "planned" } else { "no_plan" });
            s.tally(if field == "v" { "field_int" } else { "field_string" });
            if wb.is_some() { s.tally("where_bound"); }
            s.tally_n("zones", zones.len() as u64);
            s.case(&op, &imp, real.is_some());
            // oracle: the kept zones hold the slice m..m+n of the matching rows
            let Some(kept) = parse_kept(&imp).flatten() else { s.oracle_ok(); continue };
            let matches = |v: &SV| -> bool {
                match (wb, v) {
                    (Some((name, _, x)), SV::Int64(val)) => match name { "lt" => *val < x as i64, "lte" => *val <= x as i64, "gt" => *val > x as i64, _ => *val >= x as i64 },
                    _ => true,
                }
            };
            let cmpf = |x: &SV, y: &SV| { let o = ref_cmp(col, x, y); if asc { o } else { o.reverse() } };
            let mut all: Vec<&SV> = zones.iter().flat_map(|z| z.3.iter()).filter(|v| matches(v)).collect();
            let mut vis: Vec<&SV> = zones.iter().filter(|z| kept.contains(&(z.0, z.1, z.2))).flat_map(|z| z.3.iter()).filter(|v| matches(v)).collect();
            all.sort_by(|x, y| cmpf(x, y));
            vis.sort_by(|x, y| cmpf(x, y));
            let m = offset.unwrap_or(0);
            let n = limit.unwrap_or(usize::MAX);
            let e: Vec<&&SV> = all.iter().skip(m).take(n).collect();
            let g: Vec<&&SV> = vis.iter().skip(m).take(n).collect();
            if e.len() == g.len() && e.iter().zip(g.iter()).all(|(x, y)| ref_cmp(col, x, y) == Ordering::Equal) {
                s.oracle_ok();
            } else {
                let class = match model.as_mut().and_then(|mp| mp.ask(&op)) {
                    Some(ans) if ans == imp => "rlte-preselection-drops-zones",
                    _ => "-",
                };
                s.oracle_fail(i, class, &format!("{q} zone_size={zone_size}: kept zones give {:?}, all zones give {:?}", g.iter().map(|x| tok(x)).collect::<Vec<_>>(), e.iter().map(|x| tok(x)).collect::<Vec<_>>()));
            }
        }
        s.finish();
        std::process::exit(0);
    }
}

// ------------------------------------------------------------------ response writer alone
mod accept {
    use super::*;
    use snel_db::command::handlers::query::QueryResponseWriter;
    use snel_db::shared::response::JsonRenderer;

    /// Drives the real `QueryResponseWriter` (JSON streaming) with generated batches in which event
    /// ids repeat, and reads back which rows it emitted (column `idx` numbers the incoming rows).
    async fn run_writer(ids: &[Option<u64>], batches: &[usize], limit: Option<u32>, offset: Option<u32>, id_first: bool) -> Result<(Vec<u64>, u64), String> {
        let cols = if id_first { vec!["event_id", "idx"] } else { vec!["idx", "event_id"] };
        let schema = Arc::new(
            BatchSchema::new(cols.iter().map(|n| ColumnSpec { name: n.to_string(), logical_type: "Integer".into() }).collect()).map_err(|e| e.to_string())?,
        );
        let (tx, rx) = FlowChannel::bounded(batches.len().max(1) + 1, FlowMetrics::new());
        let mut start = 0usize;
        for len in batches {
            let idc: Vec<SV> = ids[start..start + len].iter().enumerate().map(|(j, id)| match id {
                Some(x) => SV::Int64(*x as i64),
                None => if (start + j) % 2 == 0 { SV::Null } else { SV::Int64(-1 - (start + j) as i64) },
            }).collect();
            let ixc: Vec<SV> = (start..start + len).map(|j| SV::Int64(j as i64)).collect();
            let columns = if id_first { vec![idc, ixc] } else { vec![ixc, idc] };
            let batch = snel_db::verif::column_batch(Arc::clone(&schema), columns, *len).map_err(|e| e.to_string())?;
            tx.send(Arc::new(batch)).await.map_err(|_| "send".to_string())?;
            start += len;
        }
        drop(tx);
        let stream = snel_db::verif::query_batch_stream(Arc::clone(&schema), rx);
        let mut out: Vec<u8> = vec![];
        QueryResponseWriter::new(&mut out, &JsonRenderer, Arc::clone(&schema), limit, offset)
            .write(stream)
            .await
            .map_err(|e| e.to_string())?;
        let text = String::from_utf8_lossy(&out).to_string();
        let ix = if id_first { 1 } else { 0 };
        let mut emitted = vec![];
        let mut row_count = u64::MAX;
        for line in text.lines() {
            let Ok(v) = serde_json::from_str::<serde_json::Value>(line) else { continue };
            match v.get("type").and_then(|t| t.as_str()) {
                Some("batch") => {
                    for r in v.get("rows").and_then(|r| r.as_array()).ok_or("rows")? {
                        emitted.push(r.get(ix).and_then(|x| x.as_u64()).ok_or("idx")?);
                    }
                }
                Some("row") => emitted.push(v.get("values").and_then(|x| x.get("idx")).and_then(|x| x.as_u64()).ok_or("idx")?),
                Some("end") => row_count = v.get("row_count").and_then(|x| x.as_u64()).unwrap_or(u64::MAX),
                _ => {}
            }
        }
        Ok((emitted, row_count))
    }

    pub fn run(a: &snel_harness::out::Args) {
        let rt = tokio::runtime::Builder::new_multi_thread().worker_threads(2).enable_all().build().unwrap();
        let mut s = Stream::create(&a.out, "accept");
        for i in 0..a.cases {
            if a.only.is_some_and(|o| o != i) {
                continue;
            }
            let mut r = Rng::for_case(a.seed, "accept", i);
            let n_rows = match r.below(5) { 0 => r.below(3), 1 => 30 + r.below(40), _ => r.below(25) } as usize;
            // ids from a small pool: the same event arrives several times (flush window), a few rows
            // carry no readable id
            let pool_max = match r.below(3) { 0 => 3, 1 => n_rows as u64 + 1, _ => (n_rows as u64) / 2 + 1 };
            let pool = 1 + r.below(pool_max);
            let base_id = if r.chance(1, 2) { 0 } else { 1u64 << 40 };
            let shape = r.below(3);
            let ids: Vec<Option<u64>> = (0..n_rows)
                .map(|j| {
                    if r.chance(1, 15) { None }
                    else if shape == 0 && j >= n_rows / 2 { Some(base_id + (j - n_rows / 2) as u64 % pool) } // second half repeats the first
                    else if shape == 0 { Some(base_id + j as u64 % pool) }
                    else { Some(base_id + r.below(pool)) }
                })
                .collect();
            let pick = |r: &mut Rng| match r.below(6) { 0 => 0, 1 => n_rows as u32 + r.below(4) as u32, _ => r.below(n_rows as u64 + 1) as u32 };
            let limit = if r.chance(1, 6) { None } else { Some(pick(&mut r)) };
            let offset = if r.chance(1, 4) { None } else { Some(pick(&mut r)) };
            let mut batches = vec![];
            let mut left = n_rows;
            while left > 0 {
                let b = if r.chance(1, 8) { 0 } else { (1 + r.below(9) as usize).min(left) };
                batches.push(b);
                left -= b;
            }
            if r.chance(1, 5) { batches.push(0); }
            let id_first = r.chance(1, 2);
            let o = |x: Option<u32>| x.map(|v| v.to_string()).unwrap_or("-".into());
            let op = format!("accept {} {} {} {}", o(limit), o(offset), n_rows, ids.iter().map(|x| x.map(|v| v.to_string()).unwrap_or("-".into())).collect::<Vec<_>>().join(" "));
            let op = op.trim_end().to_string();
            let res = rt.block_on(run_writer(&ids, &batches, limit, offset, id_first));
            let (emitted, row_count) = match res {
                Ok(x) => x,
                Err(e) => {
                    s.case(&op, &format!("error {e}"), false);
                    s.oracle_fail(i, "-", &format!("response writer failed: {e}"));
                    continue;
                }
            };
            let imp = if emitted.is_empty() { "-".to_string() } else { emitted.iter().map(|x| x.to_string()).collect::<Vec<_>>().join(" ") };
            let dups = { let mut d: Vec<u64> = ids.iter().flatten().cloned().collect(); let n0 = d.len(); d.sort(); d.dedup(); n0 - d.len() };
            s.tally(match (limit.is_some(), offset.is_some()) { (true, true) => "limit_offset", (true, false) => "limit", (false, true) => "offset_only", _ => "neither" });
            s.tally(if dups > 0 { "has_duplicate_ids" } else { "no_duplicate_ids" });
            if ids.iter().any(|x| x.is_none()) { s.tally("has_rows_without_id"); }
            s.tally_n("rows", n_rows as u64);
            s.tally_n("duplicate_rows", dups as u64);
            s.case(&op, &imp, !emitted.is_empty());
            // oracle: dedupe by id (first arrival wins), then OFFSET, then LIMIT
            let mut seen = std::collections::HashSet::new();
            let dedup: Vec<u64> = ids.iter().enumerate().filter(|(_, id)| id.map_or(true, |x| seen.insert(x))).map(|(j, _)| j as u64).collect();
            let expect: Vec<u64> = dedup.iter().skip(offset.unwrap_or(0) as usize).take(limit.map_or(usize::MAX, |l| l as usize)).cloned().collect();
            if emitted == expect && row_count == expect.len() as u64 {
                s.oracle_ok();
            } else {
                s.oracle_fail(i, "-", &format!("response writer, LIMIT {} OFFSET {} over incoming event ids {:?}: emitted rows {:?} (end frame row_count {row_count}), but dedupe-by-id then OFFSET then LIMIT gives rows {:?} ({} distinct ids arrived)",
                    o(limit), o(offset), ids, emitted, expect, seen.len()));
            }
        }
        s.finish();
    }
}
