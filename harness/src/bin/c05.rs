//! C05 / C11: compaction histories on one shard. STORE / FLUSH / RUN build segment populations
//! (1-3 event types, so batches drain inputs only partially), `C` runs one compaction round of
//! the real CompactionWorker, reads and listings before/after are compared with the shard
//! machine + compaction model, and with the property oracle (answers unchanged by a round;
//! C11: files of a published segment never change while it is listed).
use snel_harness::out::{parse_args, Stream};
use snel_harness::rng::Rng;
use snel_harness::sys::{self, SysCfg};
use snel_harness::sysops::{history_line, Exec, Op};
use std::collections::BTreeMap;

fn gen_history(r: &mut Rng, ntypes: u64, len: usize, crashes: bool, stepping: bool) -> Vec<Op> {
    let mut ops = vec![];
    let mut k = 0u64;
    let nctx = 1 + r.below(3);
    // types present in different subsets of segments: a "phase" favours one type
    let mut fav = r.below(ntypes);
    for _ in 0..len {
        let x = r.below(100);
        let op = if stepping && x >= 55 && x < 66 {
            // single flush-worker steps, so that crashes land between "files written",
            // "index saved", "published", …
            Op::Adv
        } else if x < 55 {
            k += 1;
            let ty = if r.chance(3, 4) { fav } else { r.below(ntypes) };
            Op::S { k, ctx: r.below(nctx), ty }
        } else if x < 63 {
            fav = r.below(ntypes);
            Op::F
        } else if x < 70 {
            Op::Run
        } else if x < 86 {
            Op::C
        } else if x < 94 {
            Op::R
        } else if x < 97 && crashes {
            if r.chance(1, 3) { Op::D } else { Op::X }
        } else {
            Op::Ls
        };
        // a read before and after every compaction round
        if op == Op::C {
            ops.push(Op::Run);
            ops.push(Op::R);
            ops.push(Op::C);
            ops.push(Op::R);
            ops.push(Op::Ls);
        } else {
            ops.push(op);
        }
    }
    ops.extend([Op::Run, Op::R, Op::C, Op::R, Op::C, Op::R, Op::Ls]);
    ops
}

fn witnesses() -> Vec<(SysCfg, u64, Vec<Op>)> {
    let s = |k: u64, ty: u64| Op::S { k, ctx: 0, ty };
    // C05-partial-drain-double-read: k=3 (threshold 2). Segment 0 holds types 0 and 1, segments
    // 1 and 2 only type 0. Type 0 is compacted out of {0,1,2}; type 1 (one segment) stays, so
    // directory 0 is not drained and keeps type 0's files: its rows are read from both places.
    let c = SysCfg { event_per_zone: 1, fill_factor: 2, segments_per_merge: 3, ..Default::default() };
    vec![(
        c,
        2,
        vec![s(1, 0), s(2, 1), Op::Run, s(3, 0), s(4, 0), Op::Run, s(5, 0), s(6, 0), Op::Run, Op::R, Op::C, Op::R, Op::Ls],
    )]
}

/// name → (size, content hash) of every file of a segment directory
fn dir_fingerprint(p: &std::path::Path) -> BTreeMap<String, (u64, u64)> {
    let mut m = BTreeMap::new();
    if let Ok(rd) = std::fs::read_dir(p) {
        for e in rd.flatten() {
            if let Ok(b) = std::fs::read(e.path()) {
                let mut h: u64 = 0xcbf29ce484222325;
                for x in &b {
                    h ^= *x as u64;
                    h = h.wrapping_mul(0x100000001b3);
                }
                m.insert(e.file_name().to_string_lossy().to_string(), (b.len() as u64, h));
            }
        }
    }
    m
}

fn main() {
    sys::maybe_child();
    let a = parse_args();
    if a.stream == "compactkill" || a.stream == "compactkilldirs" {
        compactkill_stream(&a);
        return;
    }
    if a.stream == "l0span" {
        l0span_stream(&a);
        return;
    }
    if a.stream == "plan" {
        plan_stream(&a);
        return;
    }
    if a.stream == "compactopt" {
        compactopt_stream(&a);
        return;
    }
    if a.stream == "flushcompact" {
        flushcompact_stream(&a);
        return;
    }
    let (crashes, immut) = match a.stream.as_str() {
        "compact" => (false, false),
        "compactcrash" => (true, false),
        "immutable" => (true, true),
        other => {
            eprintln!("unknown stream {other}");
            std::process::exit(2);
        }
    };
    let mut st = Stream::create(&a.out, &a.stream);
    let wits = if immut { vec![] } else { witnesses() };
    let nw = wits.len() as u64;
    for i in 0..(a.cases + nw) {
        if a.only.is_some_and(|o| o != i) {
            continue;
        }
        let (cfg, ntypes, ops) = if i < nw {
            st.tally("witness_histories");
            wits[i as usize].clone()
        } else {
            let mut r = Rng::for_case(a.seed, &a.stream, i - nw);
            let cfg = SysCfg {
                event_per_zone: 1 + r.below(2) as usize,
                fill_factor: 1 + r.below(2) as usize,
                segments_per_merge: 2 + r.below(3) as usize,
                ..Default::default()
            };
            let ntypes = 1 + r.below(3);
            let len = 10 + r.below(30) as usize;
            (cfg, ntypes, gen_history(&mut r, ntypes, len, crashes, immut))
        };
        let root = a.out.join(format!("{}-{i}", a.stream));
        let _ = std::fs::remove_dir_all(&root);
        let mut ex = Exec::start(&root, &cfg, ntypes);
        let mut obs = vec![];
        let mut applied = 0usize;
        let mut fail: Option<String> = None;
        let mut last_read: Option<String> = None;
        let mut prev_was_compact = false;
        let mut rounds = 0u64;
        // key -> (context, type) of every stored event, for the scoped read shapes
        let mut placed: std::collections::BTreeMap<u64, (u64, u64)> = Default::default();
        let mut shape_rng = Rng::for_case(a.seed, "compact-shapes", i);
        let mut shape_fail: Option<String> = None;
        // C11 monitor: fingerprint of every listed segment directory at first sight
        let mut born: BTreeMap<String, BTreeMap<String, (u64, u64)>> = BTreeMap::new();
        for (n, op) in ops.iter().enumerate() {
            if let Op::S { k, ctx, ty } = op {
                applied += 1;
                placed.insert(*k, (*ctx, *ty));
            }
            if *op == Op::C { rounds += 1; }
            let out = ex.exec(op);
            if immut {
                // after every command: every segment the live list names has exactly the files it
                // had when first seen; a name that disappeared and came back is a new segment
                let live: Vec<String> = ex.s.ctl(serde_json::json!({"ctl":"live","shard":0}))
                    .and_then(|v| v["live"].as_array().map(|a| a.iter().filter_map(|x| x.as_str().map(|s| s.to_string())).collect()))
                    .unwrap_or_default();
                let mut now = BTreeMap::new();
                for name in &live {
                    let fp = dir_fingerprint(&ex.s.shard_data_dir(0).join(name));
                    if fp.is_empty() && fail.is_none() {
                        fail = Some(format!("-\top#{n}: live list names segment {name} which has no files; {}", history_line(&cfg, ntypes, &ops)));
                    }
                }
                // every numeric directory on disk (published or not): while it exists its files
                // never change — nothing is ever written into an existing directory
                if let Ok(rd) = std::fs::read_dir(ex.s.shard_data_dir(0)) {
                    for e in rd.flatten() {
                        let name = e.file_name().to_string_lossy().to_string();
                        if name.is_empty() || !name.chars().all(|c| c.is_ascii_digit()) || !e.path().is_dir() {
                            continue;
                        }
                        let fp = dir_fingerprint(&e.path());
                        if let Some(old) = born.get(&name) {
                            if *old != fp && fail.is_none() {
                                fail = Some(format!("-\top#{n}: files of existing segment directory {name} changed ({} -> {} files); {}", old.len(), fp.len(), history_line(&cfg, ntypes, &ops)));
                            }
                        }
                        now.insert(name, fp);
                    }
                }
                born = now;
            }
            if let Some(line) = out {
                if *op == Op::R {
                    let real = ex.last_real_read.clone();
                    if prev_was_compact && fail.is_none() && !immut {
                        if let Some(before) = &last_read {
                            if *before != real && !ex.last_read_racy {
                                let (bk, ak) = (before.split(' ').next().unwrap(), real.split(' ').next().unwrap());
                                let class = if bk == ak && ntypes > 1 {
                                    "partial-drain-double-read"
                                } else if ex.tainted {
                                    "stale-cache-on-segment-id-reuse"
                                } else {
                                    "-"
                                };
                                fail = Some(format!("{class}\top#{n}: before round [{before}] after [{real}] in {}", history_line(&cfg, ntypes, &ops)));
                            }
                        }
                    }
                    // Scoped reads must agree with the full selection of the same instant (oracle
                    // only): a point lookup and a context-scoped selection over whatever mix of
                    // memtable, level-0 and compacted segments holds the events now. A compaction
                    // output carries its own zone index and filters.
                    if !immut && shape_fail.is_none() && rounds > 0 {
                        let full: Vec<u64> = real.split(' ').next().unwrap().trim_start_matches("keys=").split(',').filter_map(|x| x.parse().ok()).collect();
                        if !full.is_empty() {
                            let pk = full[shape_rng.below(full.len() as u64) as usize];
                            let (pctx, pty) = placed[&pk];
                            let mut want_ctx: Vec<u64> = full.iter().copied().filter(|k| placed[k] == (pctx, pty)).collect();
                            want_ctx.sort();
                            for (q, want) in [(format!("QUERY ev{pty} WHERE k = {pk}"), vec![pk]), (format!("QUERY ev{pty} FOR c{pctx} RETURN [k]"), want_ctx)] {
                                let r = ex.s.cmd(&q).expect("child died in a scoped read");
                                let mut got: Vec<u64> = r.col("k").iter().filter_map(|x| x.as_u64()).collect();
                                got.sort();
                                if !r.ok() || got != want {
                                    let class = if ex.tainted { "stale-cache-on-segment-id-reuse" } else { "-" };
                                    shape_fail = Some(format!("{class}\top#{n}: `{q}` returned {got:?} while the full selection of the same instant holds {want:?}; in {}", history_line(&cfg, ntypes, &ops)));
                                    break;
                                }
                            }
                            st.tally_n("scoped_reads", 2);
                        }
                    }
                    last_read = if ex.last_read_racy { None } else { Some(real) };
                }
                obs.push(line);
            }
            prev_was_compact = *op == Op::C;
        }
        drop(ex);
        if std::env::var("KEEP").is_err() {
            let _ = std::fs::remove_dir_all(&root);
        }
        st.tally(&format!("k={}", cfg.segments_per_merge));
        st.tally(&format!("types={ntypes}"));
        st.tally_n("ops", ops.len() as u64);
        st.tally_n("stores", applied as u64);
        st.tally_n("rounds", rounds);
        st.case(&history_line(&cfg, ntypes, &ops), &obs.join(" ; "), rounds > 0 && applied >= cfg.capacity());
        // an unknown-class failure of the scoped reads is reported before a known-class one
        let chosen = match (&shape_fail, &fail) {
            (Some(sf), _) if sf.starts_with("-\t") => shape_fail.clone(),
            (_, Some(_)) => fail.clone(),
            _ => shape_fail.clone(),
        };
        match chosen {
            None => st.oracle_ok(),
            Some(f) => {
                let (class, detail) = f.split_once('\t').unwrap();
                st.oracle_fail(i, class, detail)
            }
        }
    }
    st.finish();
}

/// `compactkill` stream (oracle only): kill the process at a hook point inside a compaction
/// round, restart, and require the previous answers (C05 "if the process dies part-way through,
/// the previous answers still hold after restart"); then run another round and require the same,
/// with the C11 directory monitor on.
pub fn compactkill_stream(a: &snel_harness::out::Args) {
    use serde_json::json;
    use snel_harness::sys::Session;
    const POINTS: [&str; 11] = [
        // inside the write of the output directory (`ZoneWriter::write_all` of the first event
        // type): the `.zones` file exists, the column / index files do not (yet)
        "zonewriter.meta_written",
        "zonewriter.cols_written",
        "compact.output_written",
        "handover.before_index_save",
        // inside SegmentIndex::save: temporary file complete / renamed over segments.idx
        "segidx.tmp_written",
        "segidx.renamed",
        "handover.index_saved",
        "handover.lock_released",
        "handover.live_updated",
        "compact.before_reclaim",
        "reclaim.moved",
    ];
    // `compactkill` (C05) judges the answers, `compactkilldirs` (C11) the directories, on the
    // same scenarios
    let dirs_only = a.stream == "compactkilldirs";
    let mut st = Stream::create(&a.out, &a.stream);
    for i in 0..a.cases {
        if a.only.is_some_and(|o| o != i) {
            continue;
        }
        let mut r = Rng::for_case(a.seed, "compactkill", i);
        let cfg = SysCfg {
            event_per_zone: 1 + r.below(2) as usize,
            fill_factor: 1 + r.below(2) as usize,
            segments_per_merge: 2 + r.below(2) as usize,
            ..Default::default()
        };
        let cap = cfg.capacity() as u64;
        let point = POINTS[(i % POINTS.len() as u64) as usize];
        let root = a.out.join(format!("compactkill-{i}"));
        let _ = std::fs::remove_dir_all(&root);
        let mut s = Session::start(&root, &cfg);
        assert!(s.cmd("DEFINE ev0 FIELDS { k: \"int\" }").map(|x| x.ok()).unwrap_or(false));
        let nseg = cfg.segments_per_merge as u64 + r.below(3);
        let mut k = 0u64;
        for _ in 0..nseg {
            for _ in 0..cap {
                k += 1;
                assert!(s.cmd(&format!("STORE ev0 FOR c{} PAYLOAD {{\"k\":{k}}}", r.below(2))).map(|x| x.ok()).unwrap_or(false));
            }
            s.ctl(json!({"ctl": "await_flush"}));
        }
        let read = |s: &mut Session| -> (Vec<i64>, i64) {
            let q = s.cmd("QUERY ev0 RETURN [k]").expect("query");
            let mut keys: Vec<i64> = q.col("k").iter().filter_map(|v| v.as_i64()).collect();
            keys.sort();
            let c = s.cmd("QUERY ev0 COUNT").expect("count");
            let n = c.rows.first().and_then(|r| r.first()).and_then(|v| v.as_i64()).unwrap_or(0);
            (keys, n)
        };
        let before = read(&mut s);
        let dirs_before: BTreeMap<String, BTreeMap<String, (u64, u64)>> = list_dirs(&s.shard_data_dir(0));
        let desc = format!("compactkill cap={cap} k={} segs={nseg} kill@{point}", cfg.segments_per_merge);
        // the index-save points were already passed by the flushes above: die at the NEXT hit
        let seen = s.ctl(json!({"ctl": "hits", "point": point})).and_then(|v| v["hits"].as_u64()).unwrap_or(0);
        s.arm_crash(point, seen + 1);
        let _ = s.compact(0);
        let died = s.wait_dead(3000);
        if !died {
            // the point was not reached (e.g. nothing drained, so no reclaim): plain restart
            s.kill();
        }
        let mut fail: Option<(String, String)> = None;
        if dirs_only {
            // what the kill left behind: the index file must be complete by itself and name only
            // directories that exist
            match decode_index_strict(&s.shard_data_dir(0).join("segments.idx")) {
                Err(e) => fail = Some(("-".into(), format!("after a kill at {point} segments.idx is not a complete index: {e}"))),
                Ok(ids) => {
                    let on_disk = list_dirs(&s.shard_data_dir(0));
                    for id in ids {
                        let label = format!("{id:05}");
                        if on_disk.get(&label).map(|fp| fp.is_empty()).unwrap_or(true) && fail.is_none() {
                            fail = Some(("-".into(), format!("after a kill at {point} segments.idx names {label}, which has no files")));
                        }
                    }
                }
            }
        }
        let mut s = Session::start(&root, &cfg);
        let after = read(&mut s);
        if after != before && !dirs_only {
            let class = if after.0 == before.0 && after.1 > before.1 { "compaction-crash-output-and-inputs-both-live" } else { "-" };
            fail = Some((class.into(), format!("answers changed by a kill at {point}: before {before:?} after restart {after:?}")));
        }
        // a directory that existed before the round and still exists must be unchanged
        let dirs_after = list_dirs(&s.shard_data_dir(0));
        for (name, fp) in &dirs_before {
            if let Some(fp2) = dirs_after.get(name) {
                if fp2 != fp && fail.is_none() && dirs_only {
                    fail = Some(("-".into(), format!("directory {name} changed across the killed round")));
                }
            }
        }
        // next round on the recovered state
        let dirs_mid = dirs_after;
        let _ = s.compact(0);
        std::thread::sleep(std::time::Duration::from_millis(150));
        let after2 = read(&mut s);
        if fail.is_none() && after2 != after && !dirs_only {
            let class = if after2.0 == after.0 { "compaction-crash-output-and-inputs-both-live" } else { "-" };
            fail = Some((class.into(), format!("answers changed by the round after the recovery: {after:?} -> {after2:?}")));
        }
        let dirs_end = list_dirs(&s.shard_data_dir(0));
        for (name, fp) in &dirs_mid {
            if let Some(fp2) = dirs_end.get(name) {
                if fp2 != fp && fail.is_none() && dirs_only {
                    fail = Some(("compaction-reuses-unpublished-output-id".into(), format!("directory {name} was rewritten by the round after a kill at {point}")));
                }
            }
        }
        // whatever the recovery round did: the index names only complete directories
        // (takes precedence over a failure of a known class)
        if dirs_only && fail.as_ref().map(|f| f.0 != "-").unwrap_or(true) {
            match decode_index_strict(&s.shard_data_dir(0).join("segments.idx")) {
                Err(e) => fail = Some(("-".into(), format!("after the round that follows a kill at {point} segments.idx is not a complete index: {e}"))),
                Ok(ids) => {
                    for id in ids {
                        let label = format!("{id:05}");
                        if let Some(missing) = incomplete_dir(&s.shard_data_dir(0).join(&label)) {
                            fail = Some(("-".into(), format!("after the round that follows a kill at {point} segments.idx names {label}, whose files are incomplete: {missing}")));
                            break;
                        }
                    }
                }
            }
        }
        drop(s);
        let _ = std::fs::remove_dir_all(&root);
        st.tally(point);
        if died { st.tally("died_at_point"); }
        st.case(&desc, "-", died);
        match fail {
            None => st.oracle_ok(),
            Some((c, d)) => st.oracle_fail(i, &c, &format!("{d}; {desc}")),
        }
    }
    st.finish();
}

/// C05: the real `KWayCountPolicy::plan` and `SegmentBatch::group_plans` on generated segment
/// indexes (no engine), against `planAll` / `groupPlans` of the model. Oracle: the side condition
/// of the round theorem (`GoodBatches`: output ids pairwise distinct, none an index label) must
/// hold whenever no level's offsets run past the level span (`C05_planner_outputs_fresh`).
pub fn plan_stream(a: &snel_harness::out::Args) {
    use snel_db::engine::core::compaction::policy::{CompactionPolicy, KWayCountPolicy};
    use snel_db::engine::core::compaction::segment_batch::SegmentBatch;
    use snel_db::engine::core::{SegmentEntry, SegmentIndex};
    const SPAN: u32 = 10_000;
    let mut st = Stream::create(&a.out, "plan");
    let rt = tokio::runtime::Builder::new_current_thread().enable_all().build().unwrap();
    let empty_dir = a.out.join("plan-empty-shard");
    let _ = std::fs::remove_dir_all(&empty_dir);
    std::fs::create_dir_all(&empty_dir).unwrap();
    // witnesses first: allocator offsets running past the span into the next level's range
    let wits: Vec<(usize, Vec<(u32, Vec<u32>)>)> = vec![
        (2, vec![(0, vec![0]), (1, vec![0]), (19999, vec![0]), (20000, vec![0])]),
        (2, vec![(0, vec![0]), (1, vec![0]), (2, vec![0]), (3, vec![0]), (19998, vec![1]), (20000, vec![1])]),
    ];
    let nw = wits.len() as u64;
    for i in 0..(a.cases + nw) {
        if a.only.is_some_and(|o| o != i) {
            continue;
        }
        let (k, entries): (usize, Vec<(u32, Vec<u32>)>) = if i < nw {
            st.tally("witness");
            wits[i as usize].clone()
        } else {
            let mut r = Rng::for_case(a.seed, "plan", i - nw);
            let k = 2 + r.below(5) as usize;
            let ntypes = 1 + r.below(3) as u32;
            let nlevels = 1 + r.below(3) as u32;
            let high = r.below(12) == 0; // offsets near the top of a level
            let mut es: Vec<(u32, Vec<u32>)> = Vec::new();
            for lvl in 0..nlevels {
                let n = r.below(2 * k as u64 + 3);
                let mut offs = std::collections::BTreeSet::new();
                for _ in 0..n {
                    let o = if high && r.below(2) == 0 { SPAN - 1 - r.below(4) as u32 } else { r.below(40) as u32 };
                    offs.insert(o);
                }
                for o in offs {
                    let mut tys: Vec<u32> = (0..ntypes).filter(|_| r.below(4) != 0).collect();
                    if tys.is_empty() {
                        tys.push(r.below(ntypes as u64) as u32);
                    }
                    es.push((lvl * SPAN + o, tys));
                }
            }
            // entry order in the index is arbitrary
            for j in (1..es.len()).rev() {
                let t = r.below(j as u64 + 1) as usize;
                es.swap(j, t);
            }
            (k, es)
        };
        let idx_txt = if entries.is_empty() {
            "-".to_string()
        } else {
            entries.iter().map(|(l, t)| format!("{l}:{}", t.iter().map(|x| x.to_string()).collect::<Vec<_>>().join(","))).collect::<Vec<_>>().join(";")
        };
        let op = format!("plan k={k} idx={idx_txt}");
        // an empty shard directory loads as an empty index; entries go in through the public insert
        let mut index = rt.block_on(SegmentIndex::load(&empty_dir)).expect("empty index");
        for (l, t) in &entries {
            index.insert_entry(SegmentEntry { id: *l, uids: t.iter().map(|x| format!("u{x}")).collect() });
        }
        let plans = KWayCountPolicy::new(k).plan(&index);
        let ty_of = |u: &str| u[1..].parse::<u32>().unwrap();
        let lab = |v: &Vec<String>| -> Vec<u32> { v.iter().map(|s| s.parse::<u32>().unwrap()).collect() };
        let join = |v: &Vec<u32>| if v.is_empty() { "-".to_string() } else { v.iter().map(|x| x.to_string()).collect::<Vec<_>>().join(",") };
        let mut ps: Vec<(u32, u32, Vec<u32>, u32)> =
            plans.iter().map(|p| (p.level_from, ty_of(&p.uid), lab(&p.input_segment_labels), p.output_segment_id)).collect();
        ps.sort();
        let mut detail: Option<String> = None;
        for p in &plans {
            if p.level_to != p.level_from + 1 {
                detail.get_or_insert(format!("plan targets level {} from {}", p.level_to, p.level_from));
            }
        }
        let batches = SegmentBatch::group_plans(plans.clone());
        let mut bs: Vec<(usize, Vec<u32>, Vec<u32>)> = batches
            .iter()
            .map(|b| {
                let mut inputs = lab(&b.input_segment_labels);
                inputs.sort();
                let first = ps.iter().position(|p| { let mut q = p.2.clone(); q.sort(); q == inputs }).unwrap_or(usize::MAX);
                let mut tys: Vec<u32> = b.uid_plans.iter().map(|u| ty_of(&u.uid)).collect();
                tys.sort();
                (first, inputs, tys)
            })
            .collect();
        bs.sort();
        let mut outs: Vec<u32> = ps.iter().map(|p| p.3).collect();
        outs.sort();
        let labels: std::collections::BTreeSet<u32> = entries.iter().map(|e| e.0).collect();
        let distinct = outs.windows(2).all(|w| w[0] != w[1]);
        let fresh = outs.iter().all(|o| !labels.contains(o));
        let good = distinct && fresh;
        let sh = |v: Vec<String>| if v.is_empty() { "-".to_string() } else { v.join(";") };
        let imp = format!(
            "plans={} outs={} batches={} good={}",
            sh(ps.iter().map(|p| format!("{}/{}/{}", p.0, p.1, join(&p.2))).collect()),
            join(&outs),
            sh(bs.iter().map(|b| format!("{}/{}", join(&b.1), join(&b.2))).collect()),
            if good { 1 } else { 0 }
        );
        // the bound of the theorem: next offset of every level + number of plans <= span
        let mut next_off: std::collections::BTreeMap<u32, u32> = Default::default();
        for l in &labels {
            let e = next_off.entry(l / SPAN).or_insert(0);
            *e = (*e).max(l % SPAN + 1);
        }
        let no_overflow = next_off.values().all(|o| *o as usize + ps.len() <= SPAN as usize);
        st.tally(if ps.is_empty() { "no_plan" } else if bs.iter().any(|b| b.2.len() > 1) { "multi_uid_batch" } else { "single_uid_batches" });
        st.tally(if no_overflow { "within_span" } else { "offsets_past_span" });
        st.tally_n("plans", ps.len() as u64);
        st.case(&op, &imp, !ps.is_empty());
        if detail.is_none() && !good {
            detail = Some(format!("output ids {outs:?} are not pairwise distinct and unused (labels {labels:?})"));
        }
        match detail {
            None => st.oracle_ok(),
            Some(d) => {
                let class = if !no_overflow { "allocator-offset-runs-past-level-span" } else { "-" };
                st.oracle_fail(i, class, &format!("{d}; {op}"))
            }
        }
    }
    st.finish();
}

/// C05, oracle-only: populations with an OPTIONAL field that some segments carry and others do not
/// (a segment flushed from events none of which has the field has no column files for it). A
/// compaction round over such inputs may succeed or fail; either way every answer must be what it
/// was before the round, also after a restart ("if a compaction run fails … the previous answers
/// still hold").
pub fn compactopt_stream(a: &snel_harness::out::Args) {
    use serde_json::json;
    use snel_harness::sys::Session;
    let mut st = Stream::create(&a.out, "compactopt");
    for i in 0..a.cases {
        if a.only.is_some_and(|o| o != i) {
            continue;
        }
        let mut r = Rng::for_case(a.seed, "compactopt", i);
        let cfg = SysCfg {
            event_per_zone: 1 + r.below(2) as usize,
            fill_factor: 1 + r.below(2) as usize,
            segments_per_merge: 2 + r.below(2) as usize,
            ..Default::default()
        };
        let cap = cfg.capacity() as u64;
        let root = a.out.join(format!("compactopt-{i}"));
        let _ = std::fs::remove_dir_all(&root);
        let mut s = Session::start(&root, &cfg);
        assert!(s.cmd("DEFINE ev0 FIELDS { k: \"int\", note: \"string | null\" }").map(|x| x.ok()).unwrap_or(false));
        let nseg = cfg.segments_per_merge as u64 + r.below(4);
        let mut k = 0u64;
        let mut with_note = vec![];
        for _ in 0..nseg {
            // a whole segment with the field, without it, or mixed
            let mode = r.below(3);
            for _ in 0..cap {
                k += 1;
                let has = match mode { 0 => false, 1 => true, _ => r.below(2) == 0 };
                let payload = if has { format!("{{\"k\":{k},\"note\":\"n{k}\"}}") } else { format!("{{\"k\":{k}}}") };
                assert!(s.cmd(&format!("STORE ev0 FOR c{} PAYLOAD {payload}", r.below(3))).map(|x| x.ok()).unwrap_or(false));
                if has { with_note.push(k); }
            }
            s.ctl(json!({"ctl": "await_flush"}));
        }
        let read = |s: &mut Session| -> String {
            let mut out = vec![];
            for q in ["QUERY ev0 RETURN [k, note]".to_string(), "QUERY ev0 FOR c0 RETURN [k]".to_string(), "QUERY ev0 FOR c1 RETURN [k]".to_string(), format!("QUERY ev0 WHERE k >= {} RETURN [k]", k / 2)] {
                let r = s.cmd(&q).expect("query");
                let mut rows: Vec<String> = (0..r.rows.len()).map(|j| {
                    let kk = r.col("k").get(j).map(|v| v.to_string()).unwrap_or_default();
                    let nn = r.col("note").get(j).map(|v| v.to_string()).unwrap_or_default();
                    format!("{kk}:{nn}")
                }).collect();
                rows.sort();
                out.push(format!("[{}] {}", r.status_class(), rows.join(",")));
            }
            out.join(" | ")
        };
        let before = read(&mut s);
        let mut fail: Option<String> = None;
        let mut outcomes = vec![];
        let rounds = 1 + r.below(3);
        for round in 0..rounds {
            let v = s.compact(0);
            let ok = v.as_ref().map(|v| v["ok"].as_bool().unwrap_or(false)).unwrap_or(false);
            if v.is_none() {
                // the round panicked and took the process with it (in the engine proper the
                // background compaction task of the shard dies): a process death part-way through
                // a round - restart and judge the answers
                outcomes.push("died");
                s.kill();
                s = Session::start(&root, &cfg);
            } else {
                outcomes.push(if ok { "ok" } else { "err" });
            }
            std::thread::sleep(std::time::Duration::from_millis(150));
            let after = read(&mut s);
            if after != before && fail.is_none() {
                fail = Some(format!("round {round} ({}) changed the answers: before [{before}] after [{after}]", if ok { "succeeded" } else { "failed" }));
            }
        }
        s.kill();
        s = Session::start(&root, &cfg);
        let after = read(&mut s);
        if after != before && fail.is_none() {
            fail = Some(format!("after the restart that follows the rounds the answers are [{after}], before the rounds [{before}]"));
        }
        drop(s);
        let _ = std::fs::remove_dir_all(&root);
        let desc = format!("compactopt cap={cap} k={} segs={nseg} with_note={} rounds={}", cfg.segments_per_merge, with_note.len(), outcomes.join(","));
        st.tally(if outcomes.iter().any(|o| *o == "died") { "some_round_panicked" } else if outcomes.iter().any(|o| *o == "err") { "some_round_failed" } else { "all_rounds_ok" });
        st.tally(if with_note.is_empty() { "field_never_present" } else if with_note.len() as u64 == k { "field_always_present" } else { "field_sometimes_present" });
        st.case(&desc, "-", true);
        match fail {
            None => st.oracle_ok(),
            Some(d) => st.oracle_fail(i, "-", &format!("{d}; {desc}")),
        }
    }
    st.finish();
}

/// C05 / C11, oracle-only: compaction rounds issued WHILE background flushes are running (nothing
/// parked, nothing drained first): bursts of stores that queue several rotations, a round started
/// at once, repeated. Judged after everything has settled and after a kill + restart (so that the
/// known stale per-label caches of a lifetime do not matter): every live label has its
/// directory, and the selection returns every acknowledged event exactly once.
pub fn flushcompact_stream(a: &snel_harness::out::Args) {
    use serde_json::json;
    use snel_harness::sys::Session;
    let mut st = Stream::create(&a.out, "flushcompact");
    for i in 0..a.cases {
        if a.only.is_some_and(|o| o != i) {
            continue;
        }
        let mut r = Rng::for_case(a.seed, "flushcompact", i);
        let cfg = SysCfg {
            event_per_zone: 1 + r.below(2) as usize,
            fill_factor: 1 + r.below(2) as usize,
            segments_per_merge: 2 + r.below(2) as usize,
            ..Default::default()
        };
        let cap = cfg.capacity() as u64;
        let root = a.out.join(format!("flushcompact-{i}"));
        let _ = std::fs::remove_dir_all(&root);
        let mut s = Session::start(&root, &cfg);
        assert!(s.cmd("DEFINE ev0 FIELDS { k: \"int\" }").map(|x| x.ok()).unwrap_or(false));
        let mut k = 0u64;
        let mut rounds_ran = 0u64;
        let mut rounds_failed = 0u64;
        let bursts = 3 + r.below(5);
        let mut fail: Option<String> = None;
        for _ in 0..bursts {
            let n = cap * (2 + r.below(6)) + r.below(cap);
            for _ in 0..n {
                k += 1;
                assert!(s.cmd(&format!("STORE ev0 FOR c{} PAYLOAD {{\"k\":{k}}}", r.below(3))).map(|x| x.ok()).unwrap_or(false));
            }
            // a round while flushes of this burst are still queued or running
            std::thread::sleep(std::time::Duration::from_millis(r.below(90)));
            for _ in 0..(1 + r.below(2)) {
                let v = s.compact(0);
                match v.as_ref().and_then(|v| v["ok"].as_bool()) {
                    Some(true) => { if v.as_ref().and_then(|v| v["ran"].as_bool()).unwrap_or(false) { rounds_ran += 1; } }
                    // a round may fail (C05: then the previous answers still hold); what is judged
                    // is the state afterwards
                    Some(false) => { rounds_failed += 1; }
                    None => { fail.get_or_insert("the engine did not answer a compaction request".to_string()); }
                }
            }
        }
        s.ctl(json!({"ctl": "await_flush"}));
        let _ = s.compact(0);
        // let the asynchronous reclaim finish
        let t0 = std::time::Instant::now();
        while s.shard_data_dir(0).join(".reclaim").read_dir().map(|d| d.count()).unwrap_or(0) > 0 && t0.elapsed().as_millis() < 4000 {
            std::thread::sleep(std::time::Duration::from_millis(10));
        }
        std::thread::sleep(std::time::Duration::from_millis(200));
        let live: Vec<String> = s.ctl(json!({"ctl": "live", "shard": 0}))
            .and_then(|v| v["live"].as_array().map(|a| a.iter().filter_map(|x| x.as_str().map(|s| s.to_string())).collect()))
            .unwrap_or_default();
        let dirs = list_dirs(&s.shard_data_dir(0));
        for l in &live {
            if dirs.get(l).map(|fp| fp.is_empty()).unwrap_or(true) {
                fail.get_or_insert(format!("the live list names {l}, which has no files (live {live:?}, directories {:?})", dirs.keys().collect::<Vec<_>>()));
            }
        }
        let mut dup = live.clone();
        dup.sort();
        dup.dedup();
        if dup.len() != live.len() {
            fail.get_or_insert(format!("the live list names a segment twice: {live:?}"));
        }
        s.kill();
        let mut s = Session::start(&root, &cfg);
        let q = s.cmd("QUERY ev0 RETURN [k]").expect("query");
        let mut got: Vec<u64> = q.col("k").iter().filter_map(|v| v.as_u64()).collect();
        got.sort();
        let want: Vec<u64> = (1..=k).collect();
        if got != want {
            let missing: Vec<u64> = want.iter().copied().filter(|x| !got.contains(x)).collect();
            // how stable is the wrong answer? ask again, twice
            let mut again = vec![];
            for _ in 0..2 {
                let q2 = s.cmd("QUERY ev0 RETURN [k]").expect("query");
                again.push(q2.col("k").len());
            }
            fail.get_or_insert(format!("after the restart {} of {k} acknowledged events are missing (first: {:?}; the same query again returns {again:?} rows; raw reply {} bytes, row_count {:?}); live before the kill {live:?}", missing.len(), &missing[..missing.len().min(8)], q.raw.len(), q.row_count));
        }
        let live2: Vec<String> = s.ctl(json!({"ctl": "live", "shard": 0}))
            .and_then(|v| v["live"].as_array().map(|a| a.iter().filter_map(|x| x.as_str().map(|s| s.to_string())).collect()))
            .unwrap_or_default();
        let mut l1 = live.clone();
        l1.sort();
        let mut l2 = live2.clone();
        l2.sort();
        if l1 != l2 {
            fail.get_or_insert(format!("the live list before the kill {l1:?} differs from what the restart serves {l2:?} (index and live list disagreed)"));
        }
        drop(s);
        if std::env::var("KEEP").is_err() {
            let _ = std::fs::remove_dir_all(&root);
        }
        let desc = format!("flushcompact cap={cap} k={} bursts={bursts} stores={k} rounds_ran={rounds_ran}", cfg.segments_per_merge);
        st.tally_n("rounds_ran", rounds_ran);
        st.tally_n("rounds_failed", rounds_failed);
        st.tally_n("stores", k);
        st.case(&desc, "-", rounds_ran > 0);
        match fail {
            None => st.oracle_ok(),
            Some(d) => st.oracle_fail(i, "-", &format!("{d}; {desc}")),
        }
    }
    st.finish();
}

/// C11, oracle-only: the level-0 id counter of one process lifetime against the level span.
/// Every rotation consumes a level-0 id, also the rotation of an empty memtable by FLUSH, so a
/// case can drive the counter to any value cheaply. Case 0 is the witness of
/// `C11_l0_range_overflow_fails` (counter = 10000 while directory 10000 exists), case 1 lets the
/// counter pass the span without meeting a directory, the others stay below it.
pub fn l0span_stream(a: &snel_harness::out::Args) {
    use serde_json::json;
    use snel_harness::sys::Session;
    const SPAN: u64 = 10_000;
    let mut st = Stream::create(&a.out, "l0span");
    for i in 0..a.cases {
        if a.only.is_some_and(|o| o != i) {
            continue;
        }
        let mut r = Rng::for_case(a.seed, "l0span", i);
        let cfg = SysCfg { event_per_zone: 2, fill_factor: 1, segments_per_merge: 2, ..Default::default() };
        let root = a.out.join(format!("l0span-{i}"));
        let _ = std::fs::remove_dir_all(&root);
        let mut s = Session::start(&root, &cfg);
        assert!(s.cmd("DEFINE ev0 FIELDS { k: \"int\" }").map(|x| x.ok()).unwrap_or(false));
        let mut k = 0u64;
        let mut counter = 0u64; // level-0 ids handed out in this lifetime
        let store2 = |s: &mut Session, k: &mut u64, counter: &mut u64| {
            for _ in 0..2 {
                *k += 1;
                assert!(s.cmd(&format!("STORE ev0 FOR c0 PAYLOAD {{\"k\":{k}}}")).map(|x| x.ok()).unwrap_or(false));
            }
            s.ctl(json!({"ctl": "await_flush"}));
            *counter += 1;
        };
        // two (or more) flushed segments, one compaction round: directory 10000 exists
        let nseg = 2 + 2 * r.below(2);
        for _ in 0..nseg {
            store2(&mut s, &mut k, &mut counter);
        }
        let _ = s.compact(0);
        let t0 = std::time::Instant::now();
        while s.shard_data_dir(0).join(".reclaim").read_dir().map(|d| d.count()).unwrap_or(0) > 0
            && t0.elapsed().as_millis() < 3000
        {
            std::thread::sleep(std::time::Duration::from_millis(5));
        }
        std::thread::sleep(std::time::Duration::from_millis(100));
        let l1_dirs: Vec<u64> = list_dirs(&s.shard_data_dir(0)).keys().filter_map(|n| n.parse::<u64>().ok()).filter(|n| *n >= SPAN).collect();
        // where the counter shall stand at the final flush
        let target = match i {
            0 => SPAN,                       // meets directory 10000
            1 => SPAN + nseg / 2 + r.below(3), // past every level-1 directory: no collision
            _ => counter + r.below(400),     // below the span
        };
        let idle = target.saturating_sub(counter);
        for _ in 0..idle {
            assert!(s.cmd("FLUSH").map(|x| x.ok()).unwrap_or(false));
            counter += 1;
        }
        let read = |s: &mut Session| -> Vec<i64> {
            let q = s.cmd("QUERY ev0 RETURN [k]").expect("query");
            let mut keys: Vec<i64> = q.col("k").iter().filter_map(|v| v.as_i64()).collect();
            keys.sort();
            keys
        };
        let before = read(&mut s);
        let dirs_before = list_dirs(&s.shard_data_dir(0));
        let at = counter;
        store2(&mut s, &mut k, &mut counter);
        let expect: Vec<i64> = (1..=k as i64).collect();
        let desc = format!("l0span segs={nseg} l1dirs={l1_dirs:?} idle_flushes={idle} final_flush_id={at}");
        let mut fail: Option<String> = None;
        let dirs_after = list_dirs(&s.shard_data_dir(0));
        for (name, fp) in &dirs_before {
            match dirs_after.get(name) {
                Some(fp2) if fp2 == fp => {}
                Some(_) => { fail.get_or_insert(format!("directory {name} existed before the flush and was rewritten by it")); }
                None => { fail.get_or_insert(format!("directory {name} disappeared")); }
            }
        }
        let now = read(&mut s);
        if now != expect && fail.is_none() {
            fail = Some(format!("after the flush the selection is {now:?}, acknowledged {expect:?} (before the flush {before:?})"));
        }
        s.kill();
        let mut s = Session::start(&root, &cfg);
        let after = read(&mut s);
        if after != expect && fail.is_none() {
            fail = Some(format!("after restart the selection is {after:?}, acknowledged {expect:?}"));
        }
        drop(s);
        let _ = std::fs::remove_dir_all(&root);
        st.tally(if at >= SPAN { "counter_past_span" } else { "counter_below_span" });
        st.tally_n("idle_flushes", idle);
        st.case(&desc, "-", true);
        match fail {
            None => st.oracle_ok(),
            Some(d) => {
                // the finding: the final flush was handed an id outside the level-0 range
                let class = if at >= SPAN { "l0-counter-runs-into-l1-range" } else { "-" };
                st.oracle_fail(i, class, &format!("{d}; {desc}"))
            }
        }
    }
    st.finish();
}

/// Decode `segments.idx` strictly: 20-byte header, then bincode `Vec<SegmentEntry { id: u32,
/// uids: Vec<String> }>` (fixed-width little-endian lengths), ending exactly at the end of the
/// file. No recovery fallback: what a kill leaves behind must itself be a complete index.
fn decode_index_strict(path: &std::path::Path) -> Result<Vec<u32>, String> {
    let b = std::fs::read(path).map_err(|e| format!("cannot read segments.idx: {e}"))?;
    let mut pos = 20usize;
    if b.len() < pos + 8 {
        return Err(format!("segments.idx has {} bytes: shorter than header + entry count", b.len()));
    }
    let u64_at = |pos: &mut usize| -> Result<u64, String> {
        if *pos + 8 > b.len() { return Err("truncated length field".into()); }
        let v = u64::from_le_bytes(b[*pos..*pos + 8].try_into().unwrap());
        *pos += 8;
        Ok(v)
    };
    let n = u64_at(&mut pos)?;
    let mut ids = vec![];
    for _ in 0..n {
        if pos + 4 > b.len() { return Err("truncated entry id".into()); }
        ids.push(u32::from_le_bytes(b[pos..pos + 4].try_into().unwrap()));
        pos += 4;
        let m = u64_at(&mut pos)?;
        for _ in 0..m {
            let l = u64_at(&mut pos)? as usize;
            if pos + l > b.len() { return Err("truncated uid string".into()); }
            pos += l;
        }
    }
    if pos != b.len() {
        return Err(format!("{} trailing bytes after the last entry", b.len() - pos));
    }
    Ok(ids)
}

/// A segment directory is complete when every event type that has a `<uid>.zones` file there also
/// has its zone index and the column + offset files of the fixed fields and of the payload field
/// `k` (the schema of these streams). Returns what is missing.
fn incomplete_dir(dir: &std::path::Path) -> Option<String> {
    let names: Vec<String> = std::fs::read_dir(dir).ok()?.flatten().map(|e| e.file_name().to_string_lossy().to_string()).collect();
    let uids: Vec<String> = names.iter().filter_map(|n| n.strip_suffix(".zones").map(|u| u.to_string())).collect();
    if uids.is_empty() {
        return Some("no <uid>.zones file".into());
    }
    let mut missing = vec![];
    for u in uids {
        let mut need = vec![format!("{u}.idx")];
        for f in ["context_id", "event_type", "timestamp", "event_id", "k"] {
            need.push(format!("{u}_{f}.col"));
            need.push(format!("{u}_{f}.zfc"));
        }
        for n in need {
            let p = dir.join(&n);
            if !p.is_file() || std::fs::metadata(&p).map(|m| m.len() == 0).unwrap_or(true) {
                missing.push(n);
            }
        }
    }
    if missing.is_empty() { None } else { Some(missing.join(", ")) }
}

fn list_dirs(shard: &std::path::Path) -> BTreeMap<String, BTreeMap<String, (u64, u64)>> {
    let mut m = BTreeMap::new();
    if let Ok(rd) = std::fs::read_dir(shard) {
        for e in rd.flatten() {
            let name = e.file_name().to_string_lossy().to_string();
            if !name.is_empty() && name.chars().all(|c| c.is_ascii_digit()) && e.path().is_dir() {
                m.insert(name, dir_fingerprint(&e.path()));
            }
        }
    }
    m
}
