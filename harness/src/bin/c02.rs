//! C02: a query returns exactly the matching events, wherever they are stored.
//!
//! streams
//!   lit   component: `ConditionEvaluatorBuilder::add_where_clause` + `evaluate_event` on one
//!         memtable event (expression text goes through the real PEG grammar) against the
//!         model's literal typing + memtable evaluator (exact: true / false / panic)
//!   e2e   the real engine in a child process: generated data, storage layout (memory /
//!         flushed / mixed / restarted / compacted), >= 20 WHERE queries per state. The zone
//!         layout is read back from the segment files, the leaf pruners' answers are taken
//!         from the real pruners on those files; compared line: returned key set vs the
//!         faithful pipeline model. Oracle: returned keys == keys of the stored events
//!         satisfying the independent reference evaluator; every departure is reduced to a
//!         minimal failing sub-expression (extra queries) and classified by a predicate on it.
use serde_json::{json, Value as Json};
use snel_db::command::types::{Command, CompareOp, Expr as DbExpr};
use snel_db::engine::core::read::catalog::{IndexKind, IndexRegistry};
use snel_db::engine::core::zone::selector::pruner::enum_pruner::EnumPruner;
use snel_db::engine::core::zone::selector::pruner::range_pruner::RangePruner;
use snel_db::engine::core::zone::selector::pruner::temporal_pruner::TemporalPruner;
use snel_db::engine::core::zone::selector::pruner::xor_pruner::XorPruner;
use snel_db::engine::core::zone::selector::pruner::{PruneArgs, ZonePruner};
use snel_db::engine::core::zone::zone_artifacts::ZoneArtifacts;
use snel_db::engine::core::zone::zone_meta::ZoneMeta;
use snel_db::engine::core::{ColumnReader, ConditionEvaluatorBuilder, EventBuilder};
use snel_db::engine::types::ScalarValue;
use snel_harness::enc::hexs;
use snel_harness::out::{parse_args, Args, Stream};
use snel_harness::rng::Rng;
use snel_harness::sys::{self, Session, SysCfg};
use std::collections::{BTreeMap, BTreeSet};
use std::path::{Path, PathBuf};

// ------------------------------------------------------------------------------ data model

#[derive(Clone, Debug, PartialEq)]
enum Kind { Int, U64, Float, Str, Bool, Time, Enum(Vec<String>) }

#[derive(Clone, Debug)]
struct Field { name: &'static str, kind: Kind, optional: bool }

#[derive(Clone, Debug, PartialEq)]
enum Val { Null, Int(i64), Flt(f64), Str(String), Bool(bool) }

#[derive(Clone, Debug)]
struct Row { ctx: String, vals: Vec<Val> }
impl Row { fn key(&self) -> i64 { match self.vals[0] { Val::Int(i) => i, _ => 0 } } }

#[derive(Clone, Copy, Debug, PartialEq, Eq, PartialOrd, Ord)]
enum Op { Eq, Neq, Gt, Gte, Lt, Lte }
impl Op {
    fn tok(self) -> &'static str { match self { Op::Eq => "eq", Op::Neq => "ne", Op::Gt => "gt", Op::Gte => "ge", Op::Lt => "lt", Op::Lte => "le" } }
    fn text(self) -> &'static str { match self { Op::Eq => "=", Op::Neq => "!=", Op::Gt => ">", Op::Gte => ">=", Op::Lt => "<", Op::Lte => "<=" } }
    fn is_range(self) -> bool { matches!(self, Op::Gt | Op::Gte | Op::Lt | Op::Lte) }
    fn db(self) -> CompareOp { match self { Op::Eq => CompareOp::Eq, Op::Neq => CompareOp::Neq, Op::Gt => CompareOp::Gt, Op::Gte => CompareOp::Gte, Op::Lt => CompareOp::Lt, Op::Lte => CompareOp::Lte } }
    fn holds(self, ord: std::cmp::Ordering) -> bool {
        use std::cmp::Ordering::*;
        match self { Op::Eq => ord == Equal, Op::Neq => ord != Equal, Op::Gt => ord == Greater, Op::Gte => ord != Less, Op::Lt => ord == Less, Op::Lte => ord != Greater }
    }
}

/// `Str(text, bare)`: `bare` = written as an identifier (`true`), else quoted.
#[derive(Clone, Debug, PartialEq)]
enum Lit { Int(i64), Flt(f64), Str(String, bool) }

#[derive(Clone, Debug, PartialEq)]
enum Expr { Cmp(usize, Op, Lit), In(usize, Vec<Lit>), And(Box<Expr>, Box<Expr>), Or(Box<Expr>, Box<Expr>), Not(Box<Expr>) }

fn schema() -> Vec<Field> {
    vec![
        Field { name: "k", kind: Kind::Int, optional: false },
        Field { name: "x", kind: Kind::Int, optional: false },
        Field { name: "u", kind: Kind::U64, optional: false },
        Field { name: "f", kind: Kind::Float, optional: false },
        Field { name: "s", kind: Kind::Str, optional: false },
        Field { name: "b", kind: Kind::Bool, optional: false },
        Field { name: "e", kind: Kind::Enum(vec!["a".into(), "b".into(), "c".into()]), optional: false },
        Field { name: "t", kind: Kind::Time, optional: false },
        Field { name: "o", kind: Kind::Int, optional: true },
    ]
}

fn define_cmd(sch: &[Field]) -> String {
    let fs: Vec<String> = sch.iter().map(|f| {
        let t = match &f.kind {
            Kind::Int => "\"int\"".to_string(), Kind::U64 => "\"u64\"".into(), Kind::Float => "\"float\"".into(),
            Kind::Str => "\"string\"".into(), Kind::Bool => "\"bool\"".into(), Kind::Time => "\"datetime\"".into(),
            Kind::Enum(vs) => format!("[{}]", vs.iter().map(|v| format!("\"{v}\"")).collect::<Vec<_>>().join(",")),
        };
        let t = if f.optional { format!("\"{} | null\"", t.trim_matches('"')) } else { t };
        format!("{}: {}", f.name, t)
    }).collect();
    format!("DEFINE ev FIELDS {{ {} }}", fs.join(", "))
}

fn val_json(v: &Val) -> Json {
    match v { Val::Null => Json::Null, Val::Int(i) => json!(i), Val::Flt(f) => json!(f), Val::Str(s) => json!(s), Val::Bool(b) => json!(b) }
}

fn store_cmd(sch: &[Field], r: &Row) -> String {
    let mut m = serde_json::Map::new();
    for (f, v) in sch.iter().zip(&r.vals) { m.insert(f.name.to_string(), val_json(v)); }
    format!("STORE ev FOR {} PAYLOAD {}", r.ctx, Json::Object(m))
}

// ---------------------------------------------------------------------------------- tokens

/// finite f64 -> (m, e) with value = m * 2^-e
fn dyadic(f: f64) -> (i128, u32) {
    let bits = f.to_bits();
    let neg = bits >> 63 == 1;
    let exp = ((bits >> 52) & 0x7ff) as i64;
    let man = (bits & ((1u64 << 52) - 1)) as i128;
    let (mut m, mut e2) = if exp == 0 { (man, -1074i64) } else { (man | (1i128 << 52), exp - 1075) };
    if m == 0 { return (0, 0); }
    let tz = m.trailing_zeros() as i64;
    m >>= tz; e2 += tz;
    let m = if neg { -m } else { m };
    if e2 >= 0 { (m << e2.min(60), 0) } else { (m, (-e2) as u32) }
}
fn flt_tok(f: f64, disp: &str) -> String { let (m, e) = dyadic(f); format!("d{m}:{e}:{}", hexs(disp)) }
fn val_tok(v: &Val) -> String {
    match v {
        Val::Null => "n".into(), Val::Int(i) => format!("i{i}"), Val::Flt(f) => flt_tok(*f, &f.to_string()),
        Val::Str(s) => format!("s{}", hexs(s)), Val::Bool(b) => if *b { "b1".into() } else { "b0".into() },
    }
}
fn lit_json(l: &Lit) -> Json {
    match l { Lit::Int(i) => json!(i), Lit::Flt(f) => Json::Number(serde_json::Number::from_f64(*f).unwrap()), Lit::Str(s, _) => json!(s) }
}
fn lit_tok(l: &Lit) -> String {
    match l { Lit::Int(i) => format!("i{i}"), Lit::Flt(f) => flt_tok(*f, &lit_json(l).to_string()), Lit::Str(s, _) => format!("s{}", hexs(s)) }
}
fn lit_text(l: &Lit) -> String {
    match l {
        Lit::Int(i) => i.to_string(),
        Lit::Flt(f) => { let s = format!("{f:?}"); if s.contains('.') { s } else { format!("{s}.0") } }
        Lit::Str(s, bare) => if *bare { s.clone() } else { format!("\"{s}\"") },
    }
}
fn kind_tok(k: &Kind) -> String {
    match k { Kind::Int => "i".into(), Kind::U64 => "u".into(), Kind::Float => "f".into(), Kind::Str => "s".into(), Kind::Bool => "b".into(), Kind::Time => "t".into(), Kind::Enum(vs) => format!("e{}", vs.join(",")) }
}
fn row_tok(r: &Row) -> String { format!("{} {}", hexs(&r.ctx), r.vals.iter().map(val_tok).collect::<Vec<_>>().join(" ")) }
fn expr_tok(e: &Expr) -> String {
    match e {
        Expr::Cmp(f, op, l) => format!("c {f} {} {}", op.tok(), lit_tok(l)),
        Expr::In(f, ls) => format!("I {f} {} {}", ls.len(), ls.iter().map(lit_tok).collect::<Vec<_>>().join(" ")),
        Expr::And(a, b) => format!("A {} {}", expr_tok(a), expr_tok(b)),
        Expr::Or(a, b) => format!("O {} {}", expr_tok(a), expr_tok(b)),
        Expr::Not(a) => format!("N {}", expr_tok(a)),
    }
}
fn expr_text(sch: &[Field], e: &Expr) -> String {
    match e {
        Expr::Cmp(f, op, l) => format!("{} {} {}", sch[*f].name, op.text(), lit_text(l)),
        Expr::In(f, ls) => format!("{} IN ({})", sch[*f].name, ls.iter().map(lit_text).collect::<Vec<_>>().join(", ")),
        Expr::And(a, b) => format!("({}) AND ({})", expr_text(sch, a), expr_text(sch, b)),
        Expr::Or(a, b) => format!("({}) OR ({})", expr_text(sch, a), expr_text(sch, b)),
        Expr::Not(a) => format!("NOT ({})", expr_text(sch, a)),
    }
}

// ------------------------------------------------------------- independent reference evaluator

fn days_from_civil(y: i64, m: i64, d: i64) -> i64 {
    let y = if m <= 2 { y - 1 } else { y };
    let era = if y >= 0 { y } else { y - 399 } / 400;
    let yoe = y - era * 400;
    let doy = (153 * (m + if m > 2 { -3 } else { 9 }) + 2) / 5 + d - 1;
    let doe = yoe * 365 + yoe / 4 - yoe / 100 + doy;
    era * 146097 + doe - 719468
}
/// The two spellings the generator writes: `YYYY-MM-DD` and `YYYY-MM-DDTHH:MM:SSZ`.
fn own_time_parse(s: &str) -> Option<i64> {
    let b = s.as_bytes();
    let num = |a: usize, z: usize| -> Option<i64> { s.get(a..z)?.parse::<i64>().ok().filter(|_| b[a..z].iter().all(|c| c.is_ascii_digit())) };
    if b.len() != 10 && b.len() != 20 { return None; }
    if b[4] != b'-' || b[7] != b'-' { return None; }
    let (y, m, d) = (num(0, 4)?, num(5, 7)?, num(8, 10)?);
    if !(1..=12).contains(&m) || !(1..=31).contains(&d) { return None; }
    let days = days_from_civil(y, m, d);
    if b.len() == 10 { return Some(days * 86400); }
    if b[10] != b'T' || b[13] != b':' || b[16] != b':' || b[19] != b'Z' { return None; }
    let (h, mi, se) = (num(11, 13)?, num(14, 16)?, num(17, 19)?);
    Some(days * 86400 + h * 3600 + mi * 60 + se)
}
fn own_i64_parse(s: &str) -> Option<i64> {
    let t = s.strip_prefix('-').or_else(|| s.strip_prefix('+')).unwrap_or(s);
    if t.is_empty() || !t.bytes().all(|c| c.is_ascii_digit()) { return None; }
    s.parse::<i64>().ok()
}
/// A string literal the code turns into a number (`parse_str_to_epoch_seconds` incl. its numeric
/// fallback, or `as_i64`).
fn numeric_looking(s: &str) -> bool {
    let t = s.trim();
    own_time_parse(t).is_some() || own_i64_parse(s).is_some() || (own_i64_parse(t).is_some()) || t.parse::<i128>().is_ok()
}
fn val_num(v: &Val) -> Option<f64> { match v { Val::Int(i) => Some(*i as f64), Val::Flt(f) => Some(*f), _ => None } }
fn lit_num(l: &Lit) -> Option<f64> { match l { Lit::Int(i) => Some(*i as f64), Lit::Flt(f) => Some(*f), _ => None } }

/// Outer None = ill-typed; inner None = unknown (null cell).
fn spec_leaf(k: &Kind, v: &Val, op: Op, l: &Lit) -> Option<Option<bool>> {
    let null = matches!(v, Val::Null);
    match k {
        Kind::Int | Kind::U64 | Kind::Float => {
            let ln = lit_num(l)?;
            if null { return Some(None); }
            Some(Some(op.holds(val_num(v)?.partial_cmp(&ln)?)))
        }
        Kind::Time => {
            let ln = match l { Lit::Str(s, _) => own_time_parse(s)? as f64, _ => lit_num(l)? };
            if null { return Some(None); }
            Some(Some(op.holds(val_num(v)?.partial_cmp(&ln)?)))
        }
        Kind::Str => {
            let Lit::Str(s, _) = l else { return None };
            if null { return Some(None); }
            let Val::Str(x) = v else { return None };
            Some(Some(op.holds(x.as_bytes().cmp(s.as_bytes()))))
        }
        Kind::Bool => {
            let Lit::Str(s, _) = l else { return None };
            let b = match s.as_str() { "true" => true, "false" => false, _ => return None };
            if !matches!(op, Op::Eq | Op::Neq) { return None; }
            if null { return Some(None); }
            let Val::Bool(x) = v else { return None };
            Some(Some(if op == Op::Eq { *x == b } else { *x != b }))
        }
        Kind::Enum(_) => {
            let Lit::Str(s, _) = l else { return None };
            if !matches!(op, Op::Eq | Op::Neq) { return None; }
            if null { return Some(None); }
            let Val::Str(x) = v else { return None };
            Some(Some(if op == Op::Eq { x == s } else { x != s }))
        }
    }
}
/// Kleene evaluation. Err = ill-typed somewhere.
fn spec3(sch: &[Field], e: &Expr, r: &Row) -> Result<Option<bool>, ()> {
    Ok(match e {
        Expr::Cmp(f, op, l) => spec_leaf(&sch[*f].kind, &r.vals[*f], *op, l).ok_or(())?,
        Expr::In(f, ls) => {
            if ls.is_empty() { return Err(()); }
            let mut acc = Some(false);
            for l in ls {
                match spec_leaf(&sch[*f].kind, &r.vals[*f], Op::Eq, l).ok_or(())? {
                    Some(true) => acc = Some(true),
                    None => if acc == Some(false) { acc = None },
                    Some(false) => {}
                }
            }
            acc
        }
        Expr::And(a, b) => match (spec3(sch, a, r)?, spec3(sch, b, r)?) {
            (Some(false), _) | (_, Some(false)) => Some(false),
            (Some(true), Some(true)) => Some(true),
            _ => None,
        },
        Expr::Or(a, b) => match (spec3(sch, a, r)?, spec3(sch, b, r)?) {
            (Some(true), _) | (_, Some(true)) => Some(true),
            (Some(false), Some(false)) => Some(false),
            _ => None,
        },
        Expr::Not(a) => spec3(sch, a, r)?.map(|b| !b),
    })
}

// ------------------------------------------------------------------------ literal / expr gens

const T0: i64 = 1_700_000_000;
fn iso(ts: i64) -> String {
    // civil from days (Howard Hinnant)
    let days = ts.div_euclid(86400); let sod = ts.rem_euclid(86400);
    let z = days + 719468; let era = z.div_euclid(146097); let doe = z - era * 146097;
    let yoe = (doe - doe / 1460 + doe / 36524 - doe / 146096) / 365;
    let y = yoe + era * 400; let doy = doe - (365 * yoe + yoe / 4 - yoe / 100);
    let mp = (5 * doy + 2) / 153; let d = doy - (153 * mp + 2) / 5 + 1;
    let m = if mp < 10 { mp + 3 } else { mp - 9 }; let y = if m <= 2 { y + 1 } else { y };
    format!("{y:04}-{m:02}-{d:02}T{:02}:{:02}:{:02}Z", sod / 3600, sod % 3600 / 60, sod % 60)
}

struct Pools { x: Vec<i64>, u: Vec<i64>, f: Vec<Val>, s: Vec<String>, t: Vec<i64>, o: Vec<i64> }
fn gen_pools(r: &mut Rng) -> Pools {
    let pick_n = |r: &mut Rng, all: &[i64], n: usize| -> Vec<i64> { (0..n).map(|_| *r.pick(all)).collect() };
    let fl = [Val::Flt(0.5), Val::Flt(1.5), Val::Flt(2.0), Val::Int(2), Val::Flt(-1.25), Val::Int(3), Val::Flt(2.75), Val::Flt(4.0), Val::Int(-1)];
    let ss = ["aa", "ab", "b", "", "zz", "m", "Aa", "10", "007", "2024-01-01"];
    let nx = 2 + r.below(3) as usize; let nu = 2 + r.below(3) as usize; let nf = 2 + r.below(4) as usize;
    let ns = 2 + r.below(4) as usize; let nt = 2 + r.below(4) as usize;
    Pools {
        x: pick_n(r, &[-3, -1, 0, 1, 2, 3, 5, 6], nx),
        u: pick_n(r, &[0, 1, 2, 5, 6, 7, 9], nu),
        f: { let only_flt = r.chance(1, 3); (0..nf).map(|_| loop { let v = r.pick(&fl).clone(); if !only_flt || matches!(v, Val::Flt(_)) { break v; } }).collect() },
        s: (0..ns).map(|_| { let i = if r.chance(4, 5) { r.below(7) } else { r.below(ss.len() as u64) }; ss[i as usize].to_string() }).collect(),
        t: { let mut t = pick_n(r, &[T0, T0 + 100, T0 + 3600, T0 + 86_400, T0 + 90_000, T0 + 200_000, T0 + 13], nt); if r.chance(1, 6) { t.push(-5); } t },
        o: pick_n(r, &[-2, 0, 3, 4], 2),
    }
}
fn gen_row(r: &mut Rng, p: &Pools, k: i64, nctx: u64) -> Row {
    Row {
        ctx: format!("c{}", 1 + r.below(nctx)),
        vals: vec![
            Val::Int(k), Val::Int(*r.pick(&p.x)), Val::Int(*r.pick(&p.u)), r.pick(&p.f).clone(), Val::Str(r.pick(&p.s).clone()),
            Val::Bool(r.chance(1, 2)), Val::Str(r.pick(&["a", "b", "c"]).to_string()), Val::Int(*r.pick(&p.t)),
            if r.chance(3, 10) { Val::Null } else { Val::Int(*r.pick(&p.o)) },
        ],
    }
}

fn present(rows: &[Row], f: usize, r: &mut Rng) -> Option<Val> {
    if rows.is_empty() { None } else { Some(r.pick(rows).vals[f].clone()) }
}
fn gen_lit(r: &mut Rng, sch: &[Field], rows: &[Row], f: usize, st: &mut Stream) -> Lit {
    let pv = present(rows, f, r);
    let x = r.below(100);
    match &sch[f].kind {
        Kind::Int | Kind::U64 => {
            let base = match pv { Some(Val::Int(i)) => i, _ => 1 };
            if x < 45 { st.tally("lit:present"); Lit::Int(base) }
            else if x < 60 { st.tally("lit:neighbour"); Lit::Int(base + if r.chance(1, 2) { 1 } else { -1 }) }
            else if x < 68 { st.tally("lit:absent"); Lit::Int(100) }
            else if x < 78 { st.tally("lit:negative"); Lit::Int(-1 - r.below(3) as i64) }
            else if x < 86 { st.tally("lit:float"); if r.chance(1, 2) { Lit::Flt(base as f64) } else { Lit::Flt(base as f64 + 0.5) } }
            else if x < 94 { st.tally("lit:present"); Lit::Int(base) }
            else { st.tally("lit:other-kind(string)"); Lit::Str(base.to_string(), false) }
        }
        Kind::Float => {
            let base = match pv { Some(Val::Int(i)) => i as f64, Some(Val::Flt(f)) => f, _ => 1.0 };
            if x < 30 { st.tally("lit:float"); Lit::Flt(base) }
            else if x < 45 { st.tally("lit:float"); Lit::Flt(base + 0.25) }
            else if x < 75 { st.tally("lit:other-kind(int for float)"); Lit::Int(base.floor() as i64) }
            else if x < 85 { st.tally("lit:other-kind(int for float)"); Lit::Int(base.ceil() as i64 + 1) }
            else if x < 93 { st.tally("lit:negative"); Lit::Int(-2) }
            else { st.tally("lit:negative"); Lit::Flt(-1.25) }
        }
        Kind::Str => {
            let base = match pv { Some(Val::Str(s)) => s, _ => "aa".into() };
            if x < 50 { st.tally("lit:present"); Lit::Str(base, false) }
            else if x < 65 { st.tally("lit:neighbour"); Lit::Str(format!("{base}a"), false) }
            else if x < 80 { st.tally("lit:absent"); Lit::Str("q".into(), false) }
            else if x < 88 { st.tally("lit:date-looking-string"); Lit::Str("2024-01-01".into(), false) }
            else if x < 95 { st.tally("lit:number-looking-string"); Lit::Str(r.pick(&["10", "7"]).to_string(), false) }
            else { st.tally("lit:other-kind(int for string)"); Lit::Int(10) }
        }
        Kind::Bool => {
            if x < 90 { st.tally("lit:present"); Lit::Str(if r.chance(1, 2) { "true" } else { "false" }.into(), r.chance(2, 3)) }
            else { st.tally("lit:other-kind(int for bool)"); Lit::Int(1) }
        }
        Kind::Enum(vs) => {
            if x < 70 { st.tally("lit:present"); Lit::Str(r.pick(vs).clone(), r.chance(1, 3)) }
            else if x < 95 { st.tally("lit:unknown-enum-variant"); Lit::Str("zz".into(), false) }
            else { st.tally("lit:other-kind(int for enum)"); Lit::Int(1) }
        }
        Kind::Time => {
            let base = match pv { Some(Val::Int(i)) => i, _ => T0 };
            if x < 35 { st.tally("lit:present"); Lit::Int(base) }
            else if x < 50 { st.tally("lit:neighbour"); Lit::Int(base + if r.chance(1, 2) { 1 } else { -1 }) }
            else if x < 58 { st.tally("lit:absent"); Lit::Int(T0 + 1_000_000) }
            else if x < 75 { st.tally("lit:time-iso-string"); Lit::Str(iso(base), false) }
            else if x < 85 { st.tally("lit:time-date-string"); Lit::Str(iso(base)[..10].to_string(), false) }
            else if x < 93 { st.tally("lit:float"); Lit::Flt(base as f64 + 0.5) }
            else { st.tally("lit:negative"); Lit::Int(-5) }
        }
    }
}
fn gen_op(r: &mut Rng, k: &Kind) -> Op {
    let all = [Op::Eq, Op::Neq, Op::Gt, Op::Gte, Op::Lt, Op::Lte];
    match k {
        Kind::Bool | Kind::Enum(_) => if r.chance(19, 20) { *r.pick(&[Op::Eq, Op::Neq]) } else { *r.pick(&all) },
        Kind::Str => if r.chance(3, 4) { *r.pick(&[Op::Eq, Op::Eq, Op::Neq]) } else { *r.pick(&all) },
        _ => *r.pick(&all),
    }
}
fn gen_leaf(r: &mut Rng, sch: &[Field], rows: &[Row], st: &mut Stream) -> Expr {
    let f = 1 + r.below(sch.len() as u64 - 1) as usize;
    if r.chance(1, 6) {
        let n = 1 + r.below(3) as usize;
        let first = gen_lit(r, sch, rows, f, st);
        let mut ls = vec![first.clone()];
        for _ in 1..n {
            // mostly the same literal kind as the first
            let mut l = gen_lit(r, sch, rows, f, st);
            for _ in 0..6 { if std::mem::discriminant(&l) == std::mem::discriminant(&first) || r.chance(1, 8) { break; } l = gen_lit(r, sch, rows, f, st); }
            ls.push(l);
        }
        Expr::In(f, ls)
    } else {
        let op = gen_op(r, &sch[f].kind);
        Expr::Cmp(f, op, gen_lit(r, sch, rows, f, st))
    }
}
fn gen_expr(r: &mut Rng, sch: &[Field], rows: &[Row], depth: u32, st: &mut Stream) -> Expr {
    let x = r.below(100);
    if depth == 0 || x < 40 { return gen_leaf(r, sch, rows, st); }
    if x < 60 { Expr::And(Box::new(gen_expr(r, sch, rows, depth - 1, st)), Box::new(gen_expr(r, sch, rows, depth - 1, st))) }
    else if x < 80 { Expr::Or(Box::new(gen_expr(r, sch, rows, depth - 1, st)), Box::new(gen_expr(r, sch, rows, depth - 1, st))) }
    else { Expr::Not(Box::new(gen_expr(r, sch, rows, depth - 1, st))) }
}
fn leaves_of(e: &Expr, out: &mut Vec<(usize, Op, Lit)>) {
    match e {
        Expr::Cmp(f, op, l) => if !out.iter().any(|x| x.0 == *f && x.1 == *op && lit_tok(&x.2) == lit_tok(l)) { out.push((*f, *op, l.clone())) },
        Expr::In(f, ls) => for l in ls { if !out.iter().any(|x| x.0 == *f && x.1 == Op::Eq && lit_tok(&x.2) == lit_tok(l)) { out.push((*f, Op::Eq, l.clone())) } },
        Expr::And(a, b) | Expr::Or(a, b) => { leaves_of(a, out); leaves_of(b, out); }
        Expr::Not(a) => leaves_of(a, out),
    }
}
fn has_not(e: &Expr) -> bool { match e { Expr::Not(_) => true, Expr::And(a, b) | Expr::Or(a, b) => has_not(a) || has_not(b), _ => false } }

// ------------------------------------------------------------------------- lit stream (memtable)

fn db_where(text: &str) -> Option<DbExpr> {
    match snel_db::command::parser::parse_command(text) {
        Ok(Command::Query { where_clause, .. }) => where_clause,
        _ => None,
    }
}
fn scalar_of(v: &Val) -> ScalarValue { ScalarValue::from(val_json(v)) }

fn run_lit(a: &Args) {
    let mut st = Stream::create(&a.out, "lit");
    let sch = schema();
    std::panic::set_hook(Box::new(|_| {}));
    for i in 0..a.cases {
        if a.only.is_some_and(|o| o != i) { continue; }
        let mut r = Rng::for_case(a.seed, "lit", i);
        let pools = gen_pools(&mut r);
        let row = gen_row(&mut r, &pools, i as i64, 1);
        let rows = vec![row.clone(), gen_row(&mut r, &pools, 0, 1)];
        let e = gen_expr(&mut r, &sch, &rows, 2, &mut st);
        let text = format!("QUERY ev WHERE {} RETURN [k]", expr_text(&sch, &e));
        let Some(dbe) = db_where(&text) else {
            st.tally("parse-failed");
            st.oracle_fail(i, "-", &format!("generated query did not parse: {text}"));
            continue;
        };
        let mut b = EventBuilder::new();
        b.event_type = "ev".into(); b.context_id = row.ctx.clone(); b.timestamp = 1;
        for (f, v) in sch.iter().zip(&row.vals) { b.payload.insert(f.name.to_string(), scalar_of(v)); }
        let ev = b.build();
        let got = std::panic::catch_unwind(std::panic::AssertUnwindSafe(|| {
            let mut bld = ConditionEvaluatorBuilder::new();
            bld.add_where_clause(&dbe);
            bld.into_evaluator().evaluate_event(&ev)
        }));
        let imp = match got { Ok(true) => "true", Ok(false) => "false", Err(_) => "panic" };
        st.tally(&format!("answer:{imp}"));
        let op = format!("m {} {} R {} E {}", sch.len(), sch.iter().map(|f| kind_tok(&f.kind)).collect::<Vec<_>>().join(" "), row_tok(&row), expr_tok(&e));
        st.case(&op, imp, true);
        // oracle: the memtable evaluator decides like the reference evaluator on judged rows
        match spec3(&sch, &e, &row) {
            Err(()) => st.tally("oracle:ill-typed(not judged)"),
            Ok(None) => st.tally("oracle:null-ambiguous(not judged)"),
            Ok(Some(want)) => {
                if imp == (if want { "true" } else { "false" }) { st.oracle_ok(); } else {
                    let class = classify_row(&sch, &e, &row, Loc::Mem, &|_, _| true);
                    st.oracle_fail(i, &class, &format!("{text} on {} -> {imp}, reference {want}", store_cmd(&sch, &row)));
                }
            }
        }
    }
    let _ = std::panic::take_hook();
    st.finish();
}

// ----------------------------------------------------------------------------- classification

#[derive(Clone, Copy, PartialEq, Debug)]
enum Loc { Mem, Zone }

/// Does the code's own leaf semantics depart from the reference for this row? Returns the class
/// of the *first* departing leaf reached (children first), "-" if none explains it.
/// `zone_kept(f, op, lit)`: for a flushed row, whether the row's zone is among the leaf's zones.
fn leaf_class(sch: &[Field], f: usize, op: Op, l: &Lit, in_list: bool, list_all_numeric: bool, top: bool, row: &Row, loc: Loc,
              zone_kept: &dyn Fn(&(usize, Op, Lit), bool) -> bool) -> Option<&'static str> {
    let k = &sch[f].kind;
    let v = &row.vals[f];
    let want = spec_leaf(k, v, op, l).flatten();
    if let Lit::Flt(_) = l { return Some(if in_list { "in-list-float-literal" } else { "float-literal-dropped" }); }
    if let Lit::Str(s, _) = l {
        if matches!(k, Kind::Str | Kind::Enum(_) | Kind::Bool) && numeric_looking(s) && (!in_list || list_all_numeric) { return Some("string-literal-retyped"); }
        if *k == Kind::Str && op.is_range() { return Some("string-order-unsupported"); }
    }
    if *k == Kind::Bool && loc == Loc::Zone { return Some("bool-column-no-string-view"); }
    if *k == Kind::U64 && loc == Loc::Zone { if let Lit::Int(i) = l { if *i < 0 { return Some("u64-negative-literal"); } } }
    if *k == Kind::Float && matches!(l, Lit::Int(_)) {
        if loc == Loc::Mem && matches!(v, Val::Flt(_)) { return Some("float-value-in-memtable"); }
        if loc == Loc::Zone && top && !in_list { return Some("float-column-simd-i64-path"); }
    }
    // a zone dropped by a leaf matters only if this row satisfies the leaf
    if loc == Loc::Zone && want == Some(true) && !zone_kept(&(f, op, l.clone()), false) { return Some("leaf-zone-pruned"); }
    let _ = want;
    None
}

fn classify_row(sch: &[Field], e: &Expr, row: &Row, loc: Loc, zone_kept: &dyn Fn(&(usize, Op, Lit), bool) -> bool) -> String {
    fn walk(sch: &[Field], e: &Expr, top: bool, row: &Row, loc: Loc, zk: &dyn Fn(&(usize, Op, Lit), bool) -> bool) -> Option<&'static str> {
        match e {
            Expr::Cmp(f, op, l) => leaf_class(sch, *f, *op, l, false, false, top, row, loc, zk),
            Expr::In(f, ls) => {
                let all_num = ls.iter().all(|l| match l { Lit::Int(_) => true, Lit::Str(s, _) => numeric_looking(s), Lit::Flt(_) => false });
                if ls.iter().any(|l| matches!(l, Lit::Flt(_))) { return Some("in-list-float-literal"); }
                ls.iter().find_map(|l| leaf_class(sch, *f, Op::Eq, l, true, all_num, false, row, loc, zk))
            }
            Expr::And(a, b) | Expr::Or(a, b) => walk(sch, a, false, row, loc, zk).or_else(|| walk(sch, b, false, row, loc, zk)),
            Expr::Not(a) => walk(sch, a, false, row, loc, zk),
        }
    }
    walk(sch, e, true, row, loc, zone_kept).unwrap_or("-").to_string()
}

// ------------------------------------------------------------------------------- e2e stream

#[derive(Clone, Copy, Debug, PartialEq)]
enum Layout { Mem, Flushed, Mixed, Restart, Compacted }

struct SegInfo { id: String, uid: String, zones: Vec<(u32, Vec<i64>)> }

struct State {
    sch: Vec<Field>,
    rows: Vec<Row>,                 // applied, in store order
    by_key: BTreeMap<i64, usize>,
    mem: Vec<i64>,
    segs: Vec<SegInfo>,
    has_cat: bool,
    masks: Vec<u32>,
    base: PathBuf,
    raw_cache: std::cell::RefCell<BTreeMap<(usize, usize, Op, String), Vec<Option<Vec<u32>>>>>,
}
impl State {
    fn raw(&self, j: usize, f: usize, op: Op, l: &Lit) -> Vec<Option<Vec<u32>>> {
        let key = (j, f, op, lit_tok(l));
        if let Some(v) = self.raw_cache.borrow().get(&key) { return v.clone(); }
        let v = raw_outcomes(&self.base, &self.segs[j], self.sch[f].name, op, l);
        self.raw_cache.borrow_mut().insert(key, v.clone());
        v
    }
}

fn read_segments(s: &mut Session) -> Result<Vec<SegInfo>, String> {
    let live = s.ctl(json!({"ctl": "live", "shard": 0})).ok_or("child died")?;
    let ids: Vec<String> = live["live"].as_array().map(|a| a.iter().filter_map(|x| x.as_str().map(|s| s.to_string())).collect()).unwrap_or_default();
    let base = s.shard_data_dir(0);
    let mut out = vec![];
    for id in ids {
        let dir = base.join(&id);
        let uid = std::fs::read_dir(&dir).map_err(|e| format!("{e}"))?.flatten()
            .filter_map(|e| e.file_name().to_string_lossy().strip_suffix(".zones").map(|s| s.to_string())).next();
        let Some(uid) = uid else { out.push(SegInfo { id, uid: String::new(), zones: vec![] }); continue };
        let metas = ZoneMeta::load(&dir.join(format!("{uid}.zones"))).map_err(|e| format!("{e:?}"))?;
        let mut zones = vec![];
        for m in metas {
            let ks = ColumnReader::load_for_zone(&dir, &id, &uid, "k", m.zone_id).map_err(|e| format!("{e:?}"))?;
            zones.push((m.zone_id, ks.iter().map(|s| s.parse::<i64>().unwrap_or(i64::MIN)).collect()));
        }
        out.push(SegInfo { id, uid, zones });
    }
    Ok(out)
}

fn wal_keys(s: &Session) -> Vec<i64> {
    let mut names: Vec<PathBuf> = std::fs::read_dir(s.shard_wal_dir(0)).map(|rd| rd.flatten().map(|e| e.path()).filter(|p| p.extension().is_some_and(|x| x == "log")).collect()).unwrap_or_default();
    names.sort();
    let mut out = vec![];
    for p in names {
        for line in String::from_utf8_lossy(&std::fs::read(&p).unwrap_or_default()).lines() {
            if let Ok(v) = serde_json::from_str::<Json>(line) {
                fn find_k(v: &Json) -> Option<i64> {
                    match v {
                        Json::Object(o) => { if let Some(p) = o.get("payload") { if let Some(k) = p.get("k").and_then(|k| k.as_i64()) { return Some(k); } } o.values().find_map(find_k) }
                        _ => None,
                    }
                }
                if let Some(k) = find_k(&v) { if !out.contains(&k) { out.push(k); } }
            }
        }
    }
    out
}

/// Barrier: a QUERY is FIFO behind the STOREs on the shard; then wait for running flushes.
fn settle(s: &mut Session) -> bool {
    if s.cmd("QUERY ev RETURN [k]").is_none() { return false; }
    s.ctl(json!({"ctl": "await_flush"})).is_some()
}

fn scalar_lit(l: &Lit) -> ScalarValue { ScalarValue::from(lit_json(l)) }

/// The five pruners' answers for one leaf on one segment.
fn raw_outcomes(base: &PathBuf, seg: &SegInfo, field: &str, op: Op, l: &Lit) -> Vec<Option<Vec<u32>>> {
    let value = scalar_lit(l);
    let cop = op.db();
    let args = PruneArgs { segment_id: &seg.id, uid: &seg.uid, column: field, value: Some(&value), op: Some(&cop) };
    let ids = |z: Option<Vec<snel_db::engine::core::CandidateZone>>| z.map(|v| { let mut x: Vec<u32> = v.iter().map(|c| c.zone_id).collect(); x.sort(); x.dedup(); x });
    vec![
        ids(TemporalPruner { artifacts: ZoneArtifacts::new(base, None) }.apply_temporal_only(&args)),
        ids(EnumPruner { artifacts: ZoneArtifacts::new(base, None) }.apply(&args)),
        ids(RangePruner { artifacts: ZoneArtifacts::new(base, None) }.apply_surf_only(&args)),
        ids(XorPruner { artifacts: ZoneArtifacts::new(base, None) }.apply_zone_index_only(&args)),
        ids(XorPruner { artifacts: ZoneArtifacts::new(base, None) }.apply_presence_only(&args)),
    ]
}
fn outcome_tok(o: &Option<Vec<u32>>) -> String {
    match o { None => "-".into(), Some(v) => format!("z{}", v.iter().map(|z| z.to_string()).collect::<Vec<_>>().join(",")) }
}

#[derive(Clone, Copy, PartialEq, Debug)]
enum Strat { TemporalEq, TemporalRange, EnumBitmap, Surf, Zxf, Xf, Full }
/// Twin of `IndexPlanner::choose` for the oracle's diagnosis (the compared model is the Lean one).
fn choose(st: &State, f: usize, op: Op) -> Strat {
    if !st.has_cat { return Strat::Full; }
    let m = st.masks[f];
    let (ebm, xf, zxf, surf) = (m & 1 != 0, m & 2 != 0, m & 4 != 0, m & 8 != 0);
    match &st.sch[f].kind {
        Kind::Time => return if op == Op::Eq { Strat::TemporalEq } else { Strat::TemporalRange },
        Kind::Enum(_) if ebm => return Strat::EnumBitmap,
        _ => {}
    }
    if op.is_range() && surf { return Strat::Surf; }
    if zxf { return Strat::Zxf; }
    if xf { return Strat::Xf; }
    Strat::Full
}
fn leaf_sel(st: &State, j: usize, f: usize, op: Op, l: &Lit) -> (Strat, Vec<u32>, bool) {
    let seg = &st.segs[j];
    let all: Vec<u32> = seg.zones.iter().map(|z| z.0).collect();
    let raw = st.raw(j, f, op, l);
    let s = choose(st, f, op);
    let known = match (&st.sch[f].kind, l) { (Kind::Enum(vs), Lit::Str(x, _)) => vs.contains(x), _ => false };
    let (z, uid) = match s {
        Strat::TemporalEq | Strat::TemporalRange => (if op == Op::Neq { vec![] } else { raw[0].clone().unwrap_or_default() }, false),
        Strat::EnumBitmap => (if matches!(op, Op::Eq | Op::Neq) && known { raw[1].clone().unwrap_or_default() } else { vec![] }, false),
        Strat::Surf => if op.is_range() { match raw[2].clone() { Some(z) => (z, false), None => (all, true) } } else { (all, true) },
        Strat::Zxf => (if op == Op::Eq { raw[3].clone().unwrap_or_default() } else { vec![] }, false),
        Strat::Xf => (if op == Op::Eq { raw[4].clone().unwrap_or_default() } else { vec![] }, true),
        Strat::Full => (all, true),
    };
    (s, z, uid)
}
/// Twin of `ZoneGroupCollector` + the uid bookkeeping of `ZoneCombiner` (diagnosis only).
fn cand_u(st: &State, j: usize, z: u32, neg: bool, e: &Expr) -> Option<bool> {
    match e {
        Expr::Cmp(f, op, l) => { let (_, sel, u) = leaf_sel(st, j, *f, *op, l); if sel.contains(&z) { if neg { None } else { Some(u) } } else if neg { Some(true) } else { None } }
        Expr::In(f, ls) => {
            if neg { if ls.iter().all(|l| !leaf_sel(st, j, *f, Op::Eq, l).1.contains(&z)) { Some(true) } else { None } }
            else { let mut acc = None; for l in ls { let (_, sel, u) = leaf_sel(st, j, *f, Op::Eq, l); if sel.contains(&z) { acc = Some(u); } } acc }
        }
        Expr::And(a, b) => if neg { cand_u(st, j, z, true, b).or_else(|| cand_u(st, j, z, true, a)) } else { match (cand_u(st, j, z, false, a), cand_u(st, j, z, false, b)) { (Some(u), Some(_)) => Some(u), _ => None } },
        Expr::Or(a, b) => if neg { match (cand_u(st, j, z, true, a), cand_u(st, j, z, true, b)) { (Some(u), Some(_)) => Some(u), _ => None } } else { cand_u(st, j, z, false, b).or_else(|| cand_u(st, j, z, false, a)) },
        Expr::Not(a) => cand_u(st, j, z, !neg, a),
    }
}
fn in_cand(st: &State, j: usize, z: u32, neg: bool, e: &Expr) -> bool { cand_u(st, j, z, neg, e).is_some() }
// (former class `mixed-uid-zones-not-hydrated`: fixed in /repo by 4f45061 — a candidate zone
// whose rows are missing is no longer excused by its uid flag; a recurrence is classified "-".)

struct Answer { keys: BTreeSet<i64>, panicked: bool, ok: bool }

fn ask(s: &mut Session, st: &State, e: &Expr, for_ctx: Option<&str>) -> Option<Answer> {
    let errlog = s.root.join("child.stderr");
    let before = std::fs::metadata(&errlog).map(|m| m.len()).unwrap_or(0);
    let text = format!("QUERY ev{} WHERE {} RETURN [k]", for_ctx.map(|c| format!(" FOR {c}")).unwrap_or_default(), expr_text(&st.sch, e));
    let rep = s.cmd(&text)?;
    let after = std::fs::metadata(&errlog).map(|m| m.len()).unwrap_or(0);
    let panicked = after > before && std::fs::read(&errlog).map(|b| String::from_utf8_lossy(&b[before as usize..]).contains("panicked")).unwrap_or(false);
    let keys = rep.col("k").iter().filter_map(|v| v.as_i64()).collect();
    Some(Answer { keys, panicked: panicked || rep.dispatch_panic, ok: rep.ok() })
}

/// Judged expectation: (must be returned, must not be returned); None = ill-typed query.
fn expectation(st: &State, e: &Expr, for_ctx: Option<&str>) -> Option<(BTreeSet<i64>, BTreeSet<i64>, usize)> {
    let (mut inn, mut out, mut amb) = (BTreeSet::new(), BTreeSet::new(), 0);
    let stored: BTreeSet<i64> = st.mem.iter().copied().chain(st.segs.iter().flat_map(|s| s.zones.iter().flat_map(|z| z.1.iter().copied()))).collect();
    for k in stored {
        let row = &st.rows[*st.by_key.get(&k)?];
        if for_ctx.is_some_and(|c| c != row.ctx) { out.insert(k); continue; }
        match spec3(&st.sch, e, row) {
            Err(()) => return None,
            Ok(Some(true)) => { inn.insert(k); }
            Ok(Some(false)) => { out.insert(k); }
            Ok(None) => amb += 1,
        }
    }
    Some((inn, out, amb))
}
fn departs(got: &Answer, exp: &(BTreeSet<i64>, BTreeSet<i64>, usize)) -> (Vec<i64>, Vec<i64>) {
    let missing = exp.0.iter().filter(|k| !got.keys.contains(k)).copied().collect();
    let extra = got.keys.iter().filter(|k| exp.1.contains(k) || (!exp.0.contains(k) && !exp.1.contains(k) && false)).copied().collect();
    (missing, extra)
}

fn loc_of(st: &State, k: i64) -> Vec<(Loc, usize, u32)> {
    let mut v = vec![];
    if st.mem.contains(&k) { v.push((Loc::Mem, 0, 0)); }
    for (j, s) in st.segs.iter().enumerate() { for z in &s.zones { if z.1.contains(&k) { v.push((Loc::Zone, j, z.0)); } } }
    v
}

/// Reduce a failing query to a minimal failing sub-expression (children first), then classify.
fn minimise(s: &mut Session, st: &State, e: &Expr, for_ctx: Option<&str>) -> Option<Expr> {
    let kids: Vec<&Expr> = match e { Expr::And(a, b) | Expr::Or(a, b) => vec![a, b], Expr::Not(a) => vec![a], _ => vec![] };
    for kid in kids {
        let exp = expectation(st, kid, for_ctx)?;
        let got = ask(s, st, kid, for_ctx)?;
        let (m, x) = departs(&got, &exp);
        if got.panicked || !m.is_empty() || !x.is_empty() { return minimise(s, st, kid, for_ctx); }
    }
    Some(e.clone())
}

fn classify(st: &State, m: &Expr, got: &Answer, missing: &[i64], extra: &[i64]) -> String {
    // a read task died in `LogicalCondition::Not` over an operand that added no condition
    if got.panicked {
        fn not_over_dropped(e: &Expr) -> bool {
            match e {
                Expr::Not(a) => matches!(**a, Expr::Cmp(_, _, Lit::Flt(_))) || not_over_dropped(a),
                Expr::And(a, b) | Expr::Or(a, b) => not_over_dropped(a) || not_over_dropped(b),
                _ => false,
            }
        }
        return if not_over_dropped(m) { "not-over-dropped-literal-panics".into() } else { "-".into() };
    }
    let mut classes = BTreeSet::new();
    for (&k, is_missing) in missing.iter().map(|k| (k, true)).chain(extra.iter().map(|k| (k, false))) {
        let row = &st.rows[st.by_key[&k]];
        let locs = loc_of(st, k);
        let mut c = "-".to_string();
        for (loc, j, z) in locs {
            // composite minimal case: NOT whose operand is right on its own
            if let Expr::Not(_) = m {
                if is_missing && loc == Loc::Zone && !in_cand(st, j, z, false, m) { c = "not-over-mixed-zone".into(); break; }
            }
            // a pruned zone can only explain a *missing* key
            let zk = |leaf: &(usize, Op, Lit), _: bool| -> bool { !is_missing || loc != Loc::Zone || leaf_sel(st, j, leaf.0, leaf.1, &leaf.2).1.contains(&z) };
            let lc = classify_row(&st.sch, m, row, loc, &zk);
            if lc == "leaf-zone-pruned" {
                if !is_missing { continue; }
                // which leaf, which strategy
                let mut ls = vec![]; leaves_of(m, &mut ls);
                for (f, op, l) in ls {
                    let (strat, sel, _) = leaf_sel(st, j, f, op, &l);
                    if sel.contains(&z) { continue; }
                    let zone_vals: Vec<&Val> = st.segs[j].zones.iter().filter(|zz| zz.0 == z).flat_map(|zz| zz.1.iter().map(|k| &st.rows[st.by_key[k]].vals[f])).collect();
                    let zone_has_negative = zone_vals.iter().any(|v| matches!(v, Val::Int(i) if *i < 0));
                    let row_fractional = matches!(&row.vals[f], Val::Flt(x) if x.fract() != 0.0);
                    c = match (strat, op) {
                        (Strat::Zxf | Strat::Xf, Op::Neq) => "neq-under-xor-strategy",
                        (Strat::Zxf | Strat::Xf, o) if o.is_range() => "range-under-xor-strategy",
                        (Strat::TemporalRange, Op::Neq) => "neq-under-temporal-strategy",
                        (Strat::EnumBitmap, _) if !matches!((&st.sch[f].kind, &l), (Kind::Enum(vs), Lit::Str(x, _)) if vs.contains(x)) => "enum-unknown-variant-no-zones",
                        // C16-pruner-negative-literal / C16-pruner-negative-zone: same root causes, seen end to end
                        (Strat::TemporalEq | Strat::TemporalRange, _) if matches!(l, Lit::Int(i) if i < 0) => "pruner-negative-literal",
                        (Strat::TemporalEq | Strat::TemporalRange, _) if zone_has_negative => "pruner-negative-zone",
                        // C08-surf-lane-mix: fractional float (f64 lane) against an integer literal (i64 lane)
                        (Strat::Surf, _) if row_fractional && matches!(l, Lit::Int(_)) => "surf-lane-mix",
                        _ => "-",
                    }.to_string();
                    break;
                }
                if c != "-" { break; }
            } else if lc != "-" { c = lc; break; }
        }
        classes.insert(c);
    }
    if classes.contains("-") || classes.is_empty() { "-".into() } else { classes.into_iter().next().unwrap() }
}

fn witnesses() -> Vec<(SysCfg, Layout, Vec<Row>, Vec<Expr>)> {
    // DESIGN 7.1: rows (x=1),(x=2) in one zone, (x=1) in the next; float column 1.5, 2.0, 2
    let mk = |k: i64, x: i64, f: Val| Row { ctx: "c1".into(), vals: vec![Val::Int(k), Val::Int(x), Val::Int(5), f, Val::Str("aa".into()), Val::Bool(true), Val::Str("a".into()), Val::Int(T0), Val::Int(3)] };
    let rows = vec![mk(1, 1, Val::Flt(1.5)), mk(2, 2, Val::Flt(2.0)), mk(3, 1, Val::Int(2))];
    let qs = vec![
        Expr::Not(Box::new(Expr::Cmp(1, Op::Eq, Lit::Int(1)))),
        Expr::Cmp(1, Op::Neq, Lit::Int(1)),
        Expr::Cmp(3, Op::Gt, Lit::Flt(1.7)),
        Expr::Cmp(3, Op::Gte, Lit::Int(2)),
        Expr::Cmp(1, Op::Eq, Lit::Int(1)),
        Expr::Not(Box::new(Expr::Cmp(3, Op::Gt, Lit::Flt(1.7)))),
        Expr::Cmp(5, Op::Eq, Lit::Str("true".into(), true)),
        Expr::Cmp(2, Op::Gt, Lit::Int(-1)),
        Expr::Cmp(4, Op::Lte, Lit::Str("aa".into(), false)),
        Expr::Cmp(6, Op::Neq, Lit::Str("zz".into(), false)),
        Expr::Cmp(7, Op::Neq, Lit::Int(T0 + 5)),
        Expr::Cmp(4, Op::Eq, Lit::Str("2024-01-01".into(), false)),
    ];
    let cfg = SysCfg { event_per_zone: 2, fill_factor: 2, ..Default::default() };
    // regression of the fixed finding C02-mixed-uid-zones-not-hydrated: the null in the second
    // segment suppresses its .zsrf for `o`, so the SuRF leaf mixes pruner zones (no uid) of the
    // first segment with metadata zones (uid) of the second
    let mo = |k: i64, o: Val| Row { ctx: "c1".into(), vals: vec![Val::Int(k), Val::Int(0), Val::Int(5), Val::Int(2), Val::Str("aa".into()), Val::Bool(true), Val::Str("a".into()), Val::Int(T0), o] };
    let rows_uid = vec![mo(1, Val::Int(0)), mo(2, Val::Int(0)), mo(3, Val::Int(3)), mo(4, Val::Null)];
    let qs_uid = vec![
        Expr::Cmp(8, Op::Lte, Lit::Int(3)),
        Expr::Cmp(8, Op::Gte, Lit::Int(0)),
        Expr::Or(Box::new(Expr::Cmp(8, Op::Lte, Lit::Int(3))), Box::new(Expr::Cmp(1, Op::Eq, Lit::Int(100)))),
        Expr::Or(Box::new(Expr::Not(Box::new(Expr::Cmp(1, Op::Eq, Lit::Int(100))))), Box::new(Expr::Cmp(8, Op::Eq, Lit::Int(0)))),
    ];
    let cfg1 = SysCfg { event_per_zone: 1, fill_factor: 2, ..Default::default() };
    vec![(cfg.clone(), Layout::Flushed, rows.clone(), qs.clone()), (cfg, Layout::Mem, rows, qs), (cfg1, Layout::Flushed, rows_uid, qs_uid)]
}

fn run_e2e(a: &Args) {
    let mut st = Stream::create(&a.out, "e2e");
    let wits = witnesses();
    let nw = wits.len() as u64;
    let nq_per_state = 22u64;
    let mut infra = 0u64;
    for i in 0..(a.cases + nw) {
        if a.only.is_some_and(|o| o != i) { continue; }
        let mut r = Rng::for_case(a.seed, "e2e", i);
        let sch = schema();
        let (cfg, layout, rows, fixed_qs) = if i < nw { let w = wits[i as usize].clone(); st.tally("witness-states"); (w.0, w.1, w.2, Some(w.3)) } else {
            let layout = *r.pick(&[Layout::Mem, Layout::Flushed, Layout::Flushed, Layout::Mixed, Layout::Mixed, Layout::Restart, Layout::Compacted]);
            let mut cfg = SysCfg { event_per_zone: 1 + r.below(5) as usize, fill_factor: 1 + r.below(3) as usize, segments_per_merge: 2 + r.below(2) as usize, ..Default::default() };
            if cfg.capacity() < 2 && matches!(layout, Layout::Mem | Layout::Mixed) { cfg.fill_factor = 2; }
            let pools = gen_pools(&mut r);
            let nctx = 1 + r.below(3);
            let n = match layout { Layout::Mem => 1 + r.below(cfg.capacity() as u64 - 1), _ => 3 + r.below(22) };
            let rows: Vec<Row> = (0..n).map(|k| gen_row(&mut r, &pools, k as i64 + 1, nctx)).collect();
            (cfg, layout, rows, None)
        };
        let root = a.out.join(format!("e2e-{i}"));
        let _ = std::fs::remove_dir_all(&root);
        let mut s = Session::start(&root, &cfg);
        let fail_infra = |st: &mut Stream, why: &str| { st.tally(&format!("infra:{why}")); };
        if s.cmd(&define_cmd(&sch)).is_none_or(|r| !r.ok()) { fail_infra(&mut st, "define"); infra += 1; continue; }
        // ---- history leading to the layout
        let store_all = |s: &mut Session, rows: &[Row]| -> bool { rows.iter().all(|row| s.cmd(&store_cmd(&sch, row)).is_some_and(|r| r.ok())) };
        let mut ok = true;
        let mut after_restart = false;
        match layout {
            Layout::Mem => { ok &= store_all(&mut s, &rows) && settle(&mut s); }
            Layout::Flushed => { ok &= store_all(&mut s, &rows) && settle(&mut s) && s.cmd("FLUSH").is_some() && settle(&mut s); }
            Layout::Mixed => {
                let tail = (1 + r.below(cfg.capacity() as u64 - 1)).min(rows.len() as u64 - 1) as usize;
                let cut = rows.len() - tail;
                ok &= store_all(&mut s, &rows[..cut]) && settle(&mut s) && s.cmd("FLUSH").is_some() && settle(&mut s);
                ok &= store_all(&mut s, &rows[cut..]) && settle(&mut s);
            }
            Layout::Restart => {
                ok &= store_all(&mut s, &rows) && settle(&mut s);
                // let the WAL task drain (appends are queued)
                let t0 = std::time::Instant::now();
                while t0.elapsed().as_millis() < 300 { std::thread::sleep(std::time::Duration::from_millis(20)); }
                s.kill();
                s = Session::start(&root, &cfg);
                after_restart = true;
                ok &= !s.dead && settle(&mut s);
            }
            Layout::Compacted => {
                let chunks = 2 + r.below(3) as usize;
                let per = (rows.len() + chunks - 1) / chunks;
                for c in rows.chunks(per.max(1)) { ok &= store_all(&mut s, c) && settle(&mut s) && s.cmd("FLUSH").is_some() && settle(&mut s); }
                let ran = s.compact(0);
                st.tally(&format!("compaction-ran:{}", ran.as_ref().and_then(|v| v.get("ran")).and_then(|b| b.as_bool()).unwrap_or(false)));
                ok &= ran.is_some() && settle(&mut s);
            }
        }
        if !ok { fail_infra(&mut st, "history"); infra += 1; continue; }
        // ---- read the layout back
        let segs = match read_segments(&mut s) { Ok(x) => x, Err(e) => { fail_infra(&mut st, &format!("read-segments:{e}")); infra += 1; continue; } };
        let flushed: BTreeSet<i64> = segs.iter().flat_map(|s| s.zones.iter().flat_map(|z| z.1.iter().copied())).collect();
        let nflushed: usize = segs.iter().map(|s| s.zones.iter().map(|z| z.1.len()).sum::<usize>()).sum();
        let mem: Vec<i64> = if after_restart { wal_keys(&s) } else { rows.iter().map(|r| r.key()).filter(|k| !flushed.contains(k)).collect() };
        let by_key: BTreeMap<i64, usize> = rows.iter().enumerate().map(|(i, r)| (r.key(), i)).collect();
        let stored: BTreeSet<i64> = mem.iter().copied().chain(flushed.iter().copied()).collect();
        let applied: BTreeSet<i64> = rows.iter().map(|r| r.key()).collect();
        if nflushed != flushed.len() { st.tally("layout:row-in-two-zones"); }
        if stored != applied {
            // not C02's subject (C01/C03/C05): queries are judged against what is stored
            st.tally("layout:stored!=applied");
        }
        if !stored.is_subset(&applied) { fail_infra(&mut st, "unknown-key-in-layout"); infra += 1; continue; }
        // catalog of the representative segment
        let base = s.shard_data_dir(0);
        let seg_ids: Vec<String> = segs.iter().map(|s| s.id.clone()).collect();
        let mut reg = IndexRegistry::new();
        let uid = segs.iter().map(|s| s.uid.clone()).find(|u| !u.is_empty()).unwrap_or_default();
        if !uid.is_empty() { reg.load_for_segments(&base, &seg_ids, &uid); }
        let rep = seg_ids.iter().find(|s| reg.available_global(s).bits() != 0).or(seg_ids.first()).cloned();
        let has_cat = rep.as_ref().is_some_and(|r| reg.has_catalog(r));
        let masks: Vec<u32> = sch.iter().map(|f| match &rep {
            Some(rp) => { let k = reg.available_for(rp, f.name); (k.contains(IndexKind::ENUM_BITMAP) as u32) | (k.contains(IndexKind::XOR_FIELD_FILTER) as u32) << 1 | (k.contains(IndexKind::ZONE_XOR_INDEX) as u32) << 2 | (k.contains(IndexKind::ZONE_SURF) as u32) << 3 }
            None => 0,
        }).collect();
        let state = State { sch: sch.clone(), rows: rows.clone(), by_key, mem, segs, has_cat, masks, base, raw_cache: Default::default() };
        st.tally(&format!("layout:{layout:?}"));
        st.tally(&format!("zone-size:{}", cfg.event_per_zone));
        st.tally_n("rows", rows.len() as u64);
        st.tally_n("rows-in-memory", state.mem.len() as u64);
        st.tally_n("segments", state.segs.len() as u64);
        st.tally_n("zones", state.segs.iter().map(|s| s.zones.len() as u64).sum());
        for sg in &state.segs { if sg.id.len() == 5 && !sg.id.starts_with('0') { st.tally("segment-level>0"); } }
        let head = {
            let rowt = |k: &i64| row_tok(&state.rows[state.by_key[k]]);
            format!("q {} {}", sch.len(), sch.iter().map(|f| kind_tok(&f.kind)).collect::<Vec<_>>().join(" "))
                + " FOR"
                + &format!(" M {} {}", state.mem.len(), state.mem.iter().map(rowt).collect::<Vec<_>>().join(" "))
                + &format!(" S {} {}", state.segs.len(), state.segs.iter().map(|sg| format!("G {} {}", sg.zones.len(), sg.zones.iter().map(|z| format!("Z {} {} {}", z.0, z.1.len(), z.1.iter().map(rowt).collect::<Vec<_>>().join(" "))).collect::<Vec<_>>().join(" "))).collect::<Vec<_>>().join(" "))
                + &format!(" C {} {}", state.has_cat as u8, state.masks.iter().map(|m| m.to_string()).collect::<Vec<_>>().join(" "))
        };
        // ---- queries
        let present_rows: Vec<Row> = rows.clone();
        let nq = fixed_qs.as_ref().map(|q| q.len() as u64).unwrap_or(nq_per_state);
        for qi in 0..nq {
            let (e, for_ctx) = match &fixed_qs {
                Some(q) => (q[qi as usize].clone(), None),
                None => {
                    let d = *r.pick(&[0u32, 1, 1, 2, 2, 3]);
                    let e = gen_expr(&mut r, &sch, &present_rows, d, &mut st);
                    let fc = if r.chance(1, 4) { Some(format!("c{}", 1 + r.below(3))) } else { None };
                    (e, fc)
                }
            };
            let fc = for_ctx.as_deref();
            let Some(got) = ask(&mut s, &state, &e, fc) else { fail_infra(&mut st, "child-died-in-query"); infra += 1; break };
            if !got.ok && !got.panicked { st.tally("query-status-not-ok"); }
            // model input
            let mut leaves = vec![]; leaves_of(&e, &mut leaves);
            let leaf_toks: Vec<String> = leaves.iter().map(|(f, op, l)| {
                let per: Vec<String> = (0..state.segs.len()).map(|j| state.raw(j, *f, *op, l).iter().map(outcome_tok).collect::<Vec<_>>().join(" ")).collect();
                for (j, _) in state.segs.iter().enumerate().take(1) { let (sx, _, _) = leaf_sel(&state, j, *f, *op, l); st.tally(&format!("strategy:{sx:?}")); }
                format!("{f} {} {} {}", op.tok(), lit_tok(l), per.join(" "))
            }).collect();
            let op_line = head.replacen(" FOR", &format!(" {}", fc.map(hexs).unwrap_or("-".into())), 1)
                + &format!(" E {} L {} {}", expr_tok(&e), leaves.len(), leaf_toks.join(" "));
            let op_line = op_line.split_whitespace().collect::<Vec<_>>().join(" ");
            let imp = if got.panicked { "panic".to_string() } else if got.keys.is_empty() { "keys=-".into() } else { format!("keys={}", got.keys.iter().map(|k| k.to_string()).collect::<Vec<_>>().join(",")) };
            st.case(&op_line, &imp, !state.segs.is_empty() || !state.mem.is_empty());
            if has_not(&e) { st.tally("query:has-NOT"); }
            if fc.is_some() { st.tally("query:FOR"); }
            // ---- oracle
            match expectation(&state, &e, fc) {
                None => st.tally("oracle:ill-typed(not judged)"),
                Some(exp) => {
                    if exp.2 > 0 { st.tally_n("oracle:null-ambiguous-rows(not judged)", exp.2 as u64); }
                    if exp.0.is_empty() { st.tally("predicate:true-for-no-row"); } else if exp.1.is_empty() && exp.2 == 0 { st.tally("predicate:true-for-all-rows"); }
                    let (missing, extra) = departs(&got, &exp);
                    if !got.panicked && missing.is_empty() && extra.is_empty() { st.oracle_ok(); continue; }
                    let text = format!("QUERY ev{} WHERE {} RETURN [k]", fc.map(|c| format!(" FOR {c}")).unwrap_or_default(), expr_text(&sch, &e));
                    let Some(m) = minimise(&mut s, &state, &e, fc) else { fail_infra(&mut st, "minimise"); infra += 1; break };
                    let (mgot, mexp) = match (ask(&mut s, &state, &m, fc), expectation(&state, &m, fc)) { (Some(g), Some(x)) => (g, x), _ => { fail_infra(&mut st, "minimise"); infra += 1; break } };
                    let (mm, mx) = departs(&mgot, &mexp);
                    let class = if !mgot.panicked && mm.is_empty() && mx.is_empty() { "-".to_string() } else { classify(&state, &m, &mgot, &mm, &mx) };
                    st.tally(&format!("departure:{class}"));
                    st.oracle_fail(i, &class, &format!("layout={layout:?} epz={} ff={} {text} -> {imp}; missing={missing:?} extra={extra:?}; minimal failing sub-expression: {} -> missing={mm:?} extra={mx:?} panicked={}", cfg.event_per_zone, cfg.fill_factor, expr_text(&sch, &m), mgot.panicked));
                }
            }
        }
        drop(s);
        if std::env::var("C02_KEEP").is_err() { let _ = std::fs::remove_dir_all(&root); }
    }
    if infra > a.cases / 10 + 2 {
        eprintln!("too many infrastructure failures: {infra}");
        st.finish();
        std::process::exit(2);
    }
    st.finish();
}

fn main() {
    sys::maybe_child();
    let a = parse_args();
    // the pruners / readers called in this process may touch the global CONFIG
    let cfgroot = a.out.join("parent-cfg");
    let p = SysCfg::default().write(&cfgroot);
    unsafe { std::env::set_var("SNELDB_CONFIG", Path::new(&p).canonicalize().unwrap_or(p)); }
    match a.stream.as_str() {
        "lit" => run_lit(&a),
        "e2e" => run_e2e(&a),
        other => { eprintln!("unknown stream {other}"); std::process::exit(2); }
    }
}
