//! Generators: command values (type-directed from the repo's `Command`), loose text, mutations, soup.
use serde_json::{Number, Value};
use snel_db::command::types::*;
use snel_harness::rng::Rng;

pub const IDENTS: &[&str] = &[
    "a", "b", "c", "x", "y", "status", "user_id", "amount", "ts", "e1", "plan-type", "_p", "A1", "Order", "NOTE",
    "android", "order_id", "inn", "ORacle", "nothing", "format", "index", "and", "or", "in", "limit", "where", "count",
    "timer", "asc", "ev", "payment_succeeded", "z9-", "k",
];
/// identifiers that begin with a keyword followed by a non-letter: the grammar's `ci()` matches the
/// keyword inside them (finding class keyword-prefix-ident)
pub const HAZARD_IDENTS: &[&str] = &["not_x", "NOT-y", "Not_1", "not", "for_x", "FOR-1", "by_region", "per_user", "limit_max", "using_k", "where_1", "order_by", "time", "time_ms", "Time-1"];
pub const STRINGS: &[&str] = &[
    "", "c1", "ctx 1", "2024-01-01T00:00:00Z", "a b", "AND", "x OR y", "(", ")", "naïve", "日本", "1", "-5", "1.5", "it's", "a,b", "[x]", "{}", ";", "tab\there",
    "\u{a0}nbsp", "emoji🚀", "@home", "50%", "semi;colon", "q?", "#1",
];

/// characters whose Unicode upper- or lower-case mapping has a different UTF-8 length than the character
/// (U+0390 2->6, U+0149 2->3, U+017F/U+0131 2->1, U+0130 2->3 lower, ligatures U+FB00..06 3->2, ß 2->2 "SS",
/// U+1E9E 3->2 lower, U+2C65 3->2): any code that takes an offset in a case-mapped copy and uses it on the
/// original text goes wrong on them
pub const CASE_LEN: &[char] = &['\u{390}', '\u{149}', '\u{17f}', '\u{131}', '\u{130}', '\u{fb00}', '\u{fb01}', '\u{fb02}', '\u{fb03}',
    '\u{fb04}', '\u{fb05}', '\u{fb06}', 'ß', '\u{1e9e}', '\u{2c65}', '\u{1f0}', '\u{3b0}'];
pub const CASE_LEN_STRINGS: &[&str] = &["\u{390}\u{390}\u{390}", "\u{fb01}\u{fb01}é", "\u{149}", "\u{17f}", "I\u{130}\u{131}i", "stra\u{df}e", "\u{1e9e}x",
    "a\u{fb03}x \u{390}", "\u{17f}\u{17f}\u{17f}\u{17f}", "\u{2c65}\u{149}\u{149}"];

/// backslashes in literals: the grammars have no escapes (a literal ends at the next quote), the tokenizer
/// pre-pass reads `\"` as an escaped quote — literals ending in a backslash, runs of backslashes
pub const BACKSLASH_STRINGS: &[&str] = &["C:\\tmp\\", "\\\\srv\\share\\", "host\\", "\\", "\\\\", "a\\\\\\", "x\\y", "\\n", "dir\\ ", "tab\\t\\", "é\\"];
pub fn backslash_string(r: &mut Rng) -> String {
    if r.chance(2, 3) { return r.pick(BACKSLASH_STRINGS).to_string(); }
    let n = r.below(5);
    let mut t: String = (0..n).map(|_| *r.pick(&['a', '\\', ' ', 'Z', '/', ':', 'é'])).collect();
    for _ in 0..r.below(4) { t.push('\\'); }
    t
}

/// a string literal with 1–4 such characters among ordinary ones
pub fn caselen_string(r: &mut Rng) -> String {
    if r.chance(1, 2) { return r.pick(CASE_LEN_STRINGS).to_string(); }
    let n = 1 + r.below(6);
    let k = r.below(n);
    (0..n).map(|i| if i == k || r.chance(1, 3) { *r.pick(CASE_LEN) } else { *r.pick(&['a', ' ', 'é', 'Z', '1', '日', '-']) }).collect()
}

pub fn ident(r: &mut Rng, hazard_pct: u64) -> String {
    if r.chance(hazard_pct, 100) {
        r.pick(HAZARD_IDENTS).to_string()
    } else if r.chance(1, 8) {
        // random identifier
        let n = 1 + r.below(6);
        let mut s = String::new();
        s.push(*r.pick(&['a', 'q', 'Z', '_', 'n', 'N', 'o', 'i']));
        for _ in 0..n {
            s.push(*r.pick(&['a', 'o', 't', 'r', 'd', 'n', 'N', 'O', 'T', '0', '7', '_', '-', 'e']));
        }
        s
    } else {
        r.pick(IDENTS).to_string()
    }
}
pub fn field(r: &mut Rng, hazard_pct: u64) -> String {
    if r.chance(1, 6) { format!("{}.{}", ident(r, hazard_pct), ident(r, 0)) } else { ident(r, hazard_pct) }
}
pub fn string(r: &mut Rng) -> String {
    if r.chance(1, 7) {
        caselen_string(r)
    } else if r.chance(1, 7) {
        backslash_string(r)
    } else if r.chance(1, 6) {
        let n = r.below(6);
        (0..n).map(|_| *r.pick(&['a', ' ', 'é', '1', '(', ')', '=', '\'', 'Z', '\t', '-', '.'])).collect()
    } else {
        r.pick(STRINGS).to_string()
    }
}
pub fn finite_f64(r: &mut Rng) -> f64 {
    loop {
        let f = match r.below(8) {
            0 => f64::from_bits(r.next()),
            1 => (r.range(-1000, 1000) as f64) / 8.0,
            2 => (r.range(-100000, 100000) as f64) / 100.0,
            3 => *r.pick(&[0.0, -0.0, 1.0, 0.1, f64::MAX, f64::MIN_POSITIVE, 5e-324, 1e21, 1e-7, 9007199254740993.0, 0.30000000000000004]),
            4 => f64::from_bits(r.below(1 << 53)),                 // subnormals and tiny
            5 => f64::from_bits(0x7fe0_0000_0000_0000 + r.below(1 << 52)), // huge
            _ => r.range(-50, 50) as f64 + (r.below(1000) as f64) / 1000.0,
        };
        if f.is_finite() {
            return f;
        }
    }
}
pub fn value(r: &mut Rng) -> Value {
    match r.below(10) {
        0..=3 => Value::String(string(r)),
        4..=6 => Value::Number(Number::from(match r.below(6) {
            0 => i64::MAX,
            1 => i64::MIN,
            2 => r.next() as i64,
            _ => r.range(-1000, 1000),
        })),
        _ => Value::Number(Number::from_f64(finite_f64(r)).unwrap()),
    }
}
pub fn expr(r: &mut Rng, depth: u32, hazard_pct: u64) -> Expr {
    let leaf = depth == 0 || r.chance(2, 5);
    if leaf {
        match r.below(10) {
            0..=1 => Expr::Compare { field: field(r, hazard_pct), op: CompareOp::Eq, value: Value::Bool(true) },
            2..=3 => Expr::In { field: field(r, hazard_pct), values: (0..r.below(4)).map(|_| value(r)).collect() },
            _ => Expr::Compare {
                field: field(r, hazard_pct),
                op: r.pick(&[CompareOp::Eq, CompareOp::Neq, CompareOp::Gt, CompareOp::Gte, CompareOp::Lt, CompareOp::Lte]).clone(),
                value: value(r),
            },
        }
    } else {
        match r.below(5) {
            0..=1 => Expr::And(Box::new(expr(r, depth - 1, hazard_pct)), Box::new(expr(r, depth - 1, hazard_pct))),
            2..=3 => Expr::Or(Box::new(expr(r, depth - 1, hazard_pct)), Box::new(expr(r, depth - 1, hazard_pct))),
            _ => Expr::Not(Box::new(expr(r, depth - 1, hazard_pct))),
        }
    }
}
fn opt<T>(r: &mut Rng, num: u64, den: u64, f: impl FnOnce(&mut Rng) -> T) -> Option<T> {
    if r.chance(num, den) { Some(f(r)) } else { None }
}
pub const CLAUSE_START: &[&str] = &["PER", "BY", "USING", "SINCE", "LIMIT", "OFFSET", "ORDER", "RETURN", "LINKED", "WHERE", "FOR", "FOLLOWED", "PRECEDED"];

pub fn letter_run(s: &str) -> &str {
    let n = s.chars().take_while(|c| c.is_ascii_alphabetic()).count();
    &s[..n]
}
fn agg_field(r: &mut Rng, hazard_pct: u64) -> String {
    loop {
        let f = field(r, hazard_pct);
        // exact clause-start keywords are excluded by the grammar's look-ahead on purpose
        if !CLAUSE_START.iter().any(|k| f.eq_ignore_ascii_case(k)) {
            return f;
        }
    }
}
pub fn query(r: &mut Rng, hazard_pct: u64) -> Command {
    let event_type = ident(r, 0);
    let links: Vec<(SequenceLink, EventTarget)> = if r.chance(1, 8) {
        (0..1 + r.below(2)).map(|_| (if r.chance(1, 2) { SequenceLink::FollowedBy } else { SequenceLink::PrecededBy }, EventTarget { event: ident(r, 0), field: None })).collect()
    } else {
        vec![]
    };
    let event_sequence = if links.is_empty() { None } else { Some(EventSequence { head: EventTarget { event: event_type.clone(), field: None }, links }) };
    let depth = r.below(5) as u32;
    let aggs = opt(r, 1, 5, |r| {
        (0..1 + r.below(3)).map(|_| match r.below(7) {
            0 => AggSpec::Count { unique_field: None },
            1 => AggSpec::Count { unique_field: Some(agg_field(r, hazard_pct)) },
            2 => AggSpec::CountField { field: agg_field(r, hazard_pct) },
            3 => AggSpec::Total { field: agg_field(r, hazard_pct) },
            4 => AggSpec::Avg { field: agg_field(r, hazard_pct) },
            5 => AggSpec::Min { field: agg_field(r, hazard_pct) },
            _ => AggSpec::Max { field: agg_field(r, hazard_pct) },
        }).collect::<Vec<_>>()
    });
    Command::Query {
        event_type,
        context_id: opt(r, 1, 3, string),
        since: opt(r, 1, 4, string),
        time_field: opt(r, 1, 6, |r| field(r, hazard_pct)),
        sequence_time_field: opt(r, 1, 10, |r| field(r, 0)),
        where_clause: opt(r, 4, 5, |r| expr(r, depth, hazard_pct)),
        limit: opt(r, 1, 3, |r| match r.below(4) { 0 => u32::MAX, 1 => 0, _ => r.below(1000) as u32 }),
        offset: opt(r, 1, 5, |r| match r.below(4) { 0 => u32::MAX, _ => r.below(1000) as u32 }),
        order_by: opt(r, 1, 4, |r| OrderSpec { field: field(r, 0), desc: r.chance(1, 2) }),
        picked_zones: None,
        return_fields: opt(r, 1, 3, |r| (0..r.below(4)).map(|_| if r.chance(1, 4) { string(r) } else { field(r, 0) }).collect()),
        link_field: opt(r, 1, 8, |r| ident(r, 0)),
        aggs,
        time_bucket: opt(r, 1, 8, |r| r.pick(&[TimeGranularity::Hour, TimeGranularity::Day, TimeGranularity::Week, TimeGranularity::Month, TimeGranularity::Year]).clone()),
        group_by: opt(r, 1, 8, |r| (0..1 + r.below(3)).map(|_| field(r, 0)).collect()),
        event_sequence,
    }
}
/// a QUERY whose text contains at least one string literal with length-changing characters
pub fn query_caselen(r: &mut Rng) -> Command {
    let mut q = query(r, 0);
    if let Command::Query { context_id, since, where_clause, return_fields, .. } = &mut q {
        match r.below(4) {
            0 => *context_id = Some(caselen_string(r)),
            1 => *since = Some(caselen_string(r)),
            2 => *where_clause = Some(Expr::Compare { field: field(r, 0), op: CompareOp::Eq, value: Value::String(caselen_string(r)) }),
            _ => *return_fields = Some(vec![field(r, 0), caselen_string(r)]),
        }
    }
    q
}

pub fn name_string(r: &mut Rng) -> String {
    match r.below(4) {
        0 => string(r),
        1 => "admin".into(),
        _ => ident(r, 0),
    }
}
pub fn simple_command(r: &mut Rng, hazard_pct: u64) -> Command {
    match r.below(20) {
        0..=9 => query(r, hazard_pct),
        10..=11 => Command::Replay {
            event_type: opt(r, 1, 2, |r| ident(r, hazard_pct)),
            context_id: string(r),
            since: opt(r, 1, 3, string),
            time_field: opt(r, 1, 4, |r| ident(r, 0)),
            return_fields: opt(r, 1, 2, |r| (0..r.below(4)).map(|_| if r.chance(1, 4) { string(r) } else { ident(r, 0) }).collect()),
        },
        12 => Command::Ping,
        13 => Command::Flush,
        14 => Command::ListUsers,
        15 => Command::ShowMaterialized { name: r.pick(&["m1", "daily-orders", "A_b", "9lives", "x"]).to_string() },
        16 => if r.chance(1, 2) { Command::RevokeKey { user_id: name_string(r) } } else { Command::ShowPermissions { user_id: name_string(r) } },
        17 => Command::CreateUser { user_id: name_string(r), secret_key: opt(r, 1, 2, name_string), roles: opt(r, 1, 2, |r| (0..r.below(3)).map(|_| name_string(r)).collect()) },
        _ => {
            let perms: Vec<String> = (0..1 + r.below(2)).map(|_| r.pick(&["read", "write"]).to_string()).collect();
            let evs: Vec<String> = (0..1 + r.below(3)).map(|_| name_string(r)).collect();
            if r.chance(1, 2) { Command::GrantPermission { permissions: perms, event_types: evs, user_id: name_string(r) } } else { Command::RevokePermission { permissions: perms, event_types: evs, user_id: name_string(r) } }
        }
    }
}

/// Does the command value contain an identifier the grammar's `ci()` splits (class keyword-prefix-ident)?
pub fn keyword_ident_collision(c: &Command) -> bool {
    fn run_is(s: &str, k: &str) -> bool {
        letter_run(s).eq_ignore_ascii_case(k)
    }
    fn in_expr(e: &Expr) -> bool {
        match e {
            Expr::Compare { field, .. } | Expr::In { field, .. } => run_is(field, "NOT"),
            Expr::And(a, b) | Expr::Or(a, b) => in_expr(a) || in_expr(b),
            Expr::Not(a) => in_expr(a),
        }
    }
    match c {
        Command::Query { where_clause, aggs, time_field, .. } => {
            where_clause.as_ref().is_some_and(in_expr)
                || time_field.as_ref().is_some_and(|f| run_is(f, "TIME"))
                || aggs.as_ref().is_some_and(|l| l.iter().any(|a| {
                    let f = match a {
                        AggSpec::Count { unique_field } => unique_field.as_deref(),
                        AggSpec::CountField { field } | AggSpec::Total { field } | AggSpec::Avg { field } | AggSpec::Min { field } | AggSpec::Max { field } => Some(field.as_str()),
                    };
                    f.is_some_and(|f| CLAUSE_START.iter().any(|k| run_is(f, k)))
                }))
        }
        Command::Replay { event_type: Some(et), .. } => run_is(et, "FOR"),
        Command::Batch(cs) => cs.iter().any(keyword_ident_collision),
        Command::RememberQuery { spec } => keyword_ident_collision(&spec.query),
        _ => false,
    }
}

// ------------------------------------------------------------------ text-level generators

const SOUP: &[&str] = &[
    "QUERY", "FIND", "query", "STORE", "REPLAY", "DEFINE", "BATCH", "PING", "FLUSH", "PLOT", "REMEMBER", "SHOW", "CREATE", "USER", "GRANT", "REVOKE", "LIST", "USERS",
    "KEY", "WITH", "ROLES", "READ", "WRITE", "ON", "TO", "FROM", "PERMISSIONS", "AS", "FIELDS", "PAYLOAD",
    "WHERE", "FOR", "SINCE", "USING", "TIME", "RETURN", "LIMIT", "OFFSET", "ORDER", "BY", "ASC", "DESC", "LINKED", "FOLLOWED", "PRECEDED", "PER", "DAY", "HOUR",
    "COUNT", "UNIQUE", "TOTAL", "AVG", "MIN", "MAX", "AND", "OR", "NOT", "IN", "and", "or", "not", "in",
    "ev", "a", "b", "x", "c1", "status", "not_x", "a.b", "user_id", "m1",
    "(", ")", "[", "]", "{", "}", ",", ";", ":", ".", "=", "!=", ">=", "<=", ">", "<", "!", "-", "\"", "\\", "\"ok\"", "\"a b\"", "\"x\\\"y\"",
    "1", "0", "-1", "42", "1.5", "-0.0", "4294967295", "4294967296", "99999999999", "9223372036854775807", "9223372036854775808", "-9223372036854775808",
    "-9223372036854775809", "99999999999999999999", "1.", ".5", "1.5.2", "1-2", "007", "1e5", "٣", "½",
    "é", "日本", "🚀", "@", "#", "\u{390}", "\u{fb01}x", "\"\u{149}\"", "\u{17f}", "\"\u{390}\u{fb03}\"", "\u{130}", "AS", "as", "\u{a0}", "\u{2003}", "\u{b}", "\u{c}", "\u{85}", "'", "*", "/", "+",
    "{\"k\":1}", "{\"a\":{\"b\":[1,2]}}", "{\"s\":\"}\"}", "{k: \"int\"}", "[ PING ; FLUSH ]",
    "SERIES", "line", "VS",
];
pub fn soup(r: &mut Rng) -> String {
    let n = 1 + r.below(14);
    let mut out = String::new();
    for i in 0..n {
        if i > 0 && !r.chance(1, 6) {
            out.push_str(match r.below(10) { 0 => "  ", 1 => "\t", 2 => "\n", _ => " " });
        }
        out.push_str(*r.pick(SOUP));
    }
    out
}
pub fn huge_float(r: &mut Rng) -> String {
    let digits = match r.below(4) { 0 => 309, 1 => 308, 2 => 310 + r.below(40) as usize, _ => 300 + r.below(12) as usize };
    let lead = *r.pick(&["1", "2", "17976931348623157", "17976931348623158", "17976931348623159", "9"]);
    let mut s = String::from(lead);
    while s.len() < digits {
        s.push(*r.pick(&['0', '0', '0', '9', '5']));
    }
    format!("{}{}.{}", if r.chance(1, 3) { "-" } else { "" }, s, r.pick(&["0", "5", "00", "999"]))
}
/// hand-shaped inputs that aim at the unwrap sites and at lenient spellings the printer never emits
pub fn loose(r: &mut Rng) -> String {
    let big = *r.pick(&["4294967295", "4294967296", "99999999999", "18446744073709551616", "-1", "-0", "0", "00012", "9223372036854775807", "9223372036854775808", "-9223372036854775808", "-9223372036854775809", "99999999999999999999"]);
    match r.below(16) {
        0 => format!("QUERY ev LIMIT {big}"),
        1 => format!("query ev offset {big} limit 3"),
        2 => format!("QUERY ev WHERE x = {big}"),
        3 => format!("QUERY ev WHERE x IN (1, {big}) LIMIT 2"),
        4 => format!("QUERY ev WHERE x > {}", huge_float(r)),
        5 => format!("QUERY ev WHERE (a = 1 OR x = {big}) AND b"),
        6 => format!("FIND ev FOR ctx1 WHERE name = alice AND plan=pro"),
        7 => format!("QUERY ev WHERE a=1 AND(b=2 OR c=3)AND NOT(d)"),
        8 => format!("QUERY ev RETURN [] LIMIT 1"),
        9 => format!("REMEMBER QUERY ev WHERE x = {big} AS m1"),
        10 => format!("BATCH [ PING; QUERY ev LIMIT {big} ]"),
        11 => format!("STORE ev FOR c1 PAYLOAD {{\"k\": {big}, \"s\": \"{{\" }}"),
        12 => format!("QUERY ev WHERE x = 1 LIMIT {big} garbage"),
        13 => format!("QUERY ev LIMIT{big}"),
        14 => format!("REPLAY FOR c:1 USING ts RETURN [a, \"b c\"] SINCE \"{big}\""),
        _ => format!("QUERY ev WHERE NOT NOT x = -{big}.5 OR y != \"q\""),
    }
}
pub fn store_text(r: &mut Rng) -> String {
    let json = match r.below(8) {
        0 => "{}".to_string(),
        1 => "{\"k\":1,\"s\":\"x\"}".into(),
        2 => "{\"a\":{\"b\":{\"c\":[1,2,{\"d\":null}]}}}".into(),
        3 => "{\"s\":\"}\"}".into(),       // brace inside a string: the grammar counts it
        4 => "{\"s\":\"{\"}".into(),
        5 => "{ \"k\" : 1e999 }".into(),
        6 => "{\"k\":1} trailing".into(),
        _ => "{\"k\":[1,2,3],\"f\":1.5,\"t\":true,\"u\":\"é\"}".into(),
    };
    let ctx = if r.chance(1, 2) { "c1".to_string() } else { format!("\"{}\"", r.pick(&["ctx 1", "", "a-b", "日本"])) };
    format!("{} {} {} {} {} {}{}", r.pick(&["STORE", "store", "Store"]), ident(r, 0), r.pick(&["FOR", "for"]), ctx, r.pick(&["PAYLOAD", "payload"]), json, r.pick(&["", " ", "\n"]))
}
pub fn mutate(r: &mut Rng, s: &str) -> String {
    let mut cs: Vec<char> = s.chars().collect();
    let n = 1 + r.below(3);
    for _ in 0..n {
        if cs.is_empty() {
            break;
        }
        let i = r.below(cs.len() as u64) as usize;
        match r.below(9) {
            0 => { cs.remove(i); }
            1 => { cs.insert(i, *r.pick(&['(', ')', '"', ' ', ',', '[', ']', '{', '}', ';', '=', '!', '.', '-', '9', 'x', '_', '\\', 'é', '@', '\u{a0}', '\n', '\u{390}', '\u{fb01}', '\u{149}', '\u{17f}', '\u{131}'])); }
            2 => { cs[i] = *r.pick(&['(', ')', '"', ' ', ',', '=', '9', 'X', '\'', '🚀', '\t']); }
            3 => { let j = r.below(cs.len() as u64) as usize; cs.swap(i, j); }
            4 => { cs.truncate(i); }
            5 => { let d: Vec<char> = "99999999999".chars().collect(); for (k, c) in d.iter().enumerate() { cs.insert((i + k).min(cs.len()), *c); } }
            6 => { let c = cs[i]; cs[i] = if c.is_ascii_lowercase() { c.to_ascii_uppercase() } else { c.to_ascii_lowercase() }; }
            7 => { let j = (i + 1 + r.below(6) as usize).min(cs.len()); let seg: Vec<char> = cs[i..j].to_vec(); for (k, c) in seg.iter().enumerate() { cs.insert(j + k, *c); } }
            _ => { cs.insert(i, '-'); }
        }
    }
    cs.into_iter().collect()
}
pub fn random_bytes(r: &mut Rng) -> String {
    let n = r.below(40) as usize;
    let bytes: Vec<u8> = (0..n).map(|_| match r.below(4) { 0 => r.below(256) as u8, _ => 32 + r.below(95) as u8 }).collect();
    String::from_utf8_lossy(&bytes).into_owned()
}
/// keep the exponential backtracking of nested "(" / "{" within reach: nesting deeper than the
/// limit is flattened (the bracket and its partner become spaces)
pub fn tame(s: String) -> String {
    let mut out: Vec<char> = s.chars().collect();
    for (open, close, limit) in [('(', ')', 7usize), ('{', '}', 10usize)] {
        let mut stack: Vec<bool> = vec![]; // kept?
        let mut depth = 0usize;
        let mut total = 0usize;
        for c in out.iter_mut() {
            if *c == open {
                total += 1;
                let keep = depth < limit && total <= 4 * limit;
                stack.push(keep);
                if keep { depth += 1; } else { *c = ' '; }
            } else if *c == close {
                match stack.pop() {
                    Some(true) => depth -= 1,
                    Some(false) => *c = ' ',
                    None => {}
                }
            }
        }
    }
    out.into_iter().collect()
}
