//! C17 — parsing and dispatch are total; the parser preserves structure.
//! Streams: parse (eq + oracle), tokens (eq), f64 (eq), prec (oracle-only), dispatch (eq + oracle),
//! nesting (oracle-only, sacrificial child processes).
mod gens;
mod print;
mod render;

use print::Style;
use snel_db::command::parser::error::ParseError;
use snel_db::command::parser::parse_command;
use snel_db::command::parser::tokenizer::{tokenize, Token};
use snel_db::command::types::*;
use snel_harness::enc::hexs;
use snel_harness::out::{parse_args, Stream};
use snel_harness::rng::Rng;
use std::sync::Mutex;

static LAST_PANIC: Mutex<String> = Mutex::new(String::new());

fn install_hook() {
    std::panic::set_hook(Box::new(|info| {
        let loc = info.location().map(|l| format!("{}:{}", l.file(), l.line())).unwrap_or_default();
        let msg = if let Some(s) = info.payload().downcast_ref::<&str>() {
            s.to_string()
        } else if let Some(s) = info.payload().downcast_ref::<String>() {
            s.clone()
        } else {
            "?".into()
        };
        *LAST_PANIC.lock().unwrap() = format!("{loc} {msg}");
    }));
}

pub enum Out {
    Ok(Command),
    Err(ParseError),
    Panic(String),
}
pub fn run_parse(input: &str) -> Out {
    let r = std::panic::catch_unwind(|| parse_command(input));
    match r {
        Ok(Ok(c)) => Out::Ok(c),
        Ok(Err(e)) => Out::Err(e),
        Err(_) => Out::Panic(LAST_PANIC.lock().unwrap().clone()),
    }
}

/// one digit per non-ASCII char: bit0 alphanumeric, bit1 numeric, bit2 whitespace (Rust std)
fn classes(s: &str) -> String {
    let t: String = s.chars().filter(|c| !c.is_ascii()).map(|c| {
        let m = (c.is_alphanumeric() as u8) | ((c.is_numeric() as u8) << 1) | ((c.is_whitespace() as u8) << 2);
        (b'0' + m) as char
    }).collect();
    if t.is_empty() { "-".into() } else { t }
}

fn word_is(t: &Token, k: &str) -> bool {
    matches!(t, Token::Word(w) if w.eq_ignore_ascii_case(k))
}
/// inputs outside the modelled fragment (same rule as the Lean model)
fn unmodelled(input: &str) -> bool {
    let toks = tokenize(input.trim());
    if toks.iter().any(|t| matches!(t, Token::Word(w) if w == "<INVALID>")) {
        return false;
    }
    match toks.first() {
        Some(t) if word_is(t, "DEFINE") || word_is(t, "PLOT") => true,
        Some(t) if word_is(t, "BATCH") => toks.iter().any(|t| matches!(t, Token::Number(_)) || word_is(t, "DEFINE") || word_is(t, "PLOT")),
        _ => false,
    }
}

/// independent scan of the STORE prefix: (event_type, context_id, json slice) — used only when the
/// real parser has accepted the PEG part (Ok or InvalidJson), to recover the raw JSON slice.
fn store_scan(input: &str) -> Option<(String, String, String)> {
    let cs: Vec<char> = input.trim().chars().collect();
    let mut i = 0;
    let ws = |i: &mut usize| while *i < cs.len() && matches!(cs[*i], ' ' | '\t' | '\n' | '\r') { *i += 1; };
    let letters = |i: &mut usize| { let s = *i; while *i < cs.len() && cs[*i].is_ascii_alphabetic() { *i += 1; } cs[s..*i].iter().collect::<String>() };
    let ident = |i: &mut usize| -> Option<String> {
        let s = *i;
        if *i < cs.len() && (cs[*i].is_ascii_alphabetic() || cs[*i] == '_') {
            *i += 1;
            while *i < cs.len() && (cs[*i].is_ascii_alphanumeric() || cs[*i] == '_' || cs[*i] == '-') { *i += 1; }
            Some(cs[s..*i].iter().collect())
        } else { None }
    };
    ws(&mut i);
    if !letters(&mut i).eq_ignore_ascii_case("STORE") { return None; }
    ws(&mut i);
    let et = ident(&mut i)?;
    ws(&mut i);
    if !letters(&mut i).eq_ignore_ascii_case("FOR") { return None; }
    ws(&mut i);
    let ctx = if i < cs.len() && cs[i] == '"' {
        let s = i + 1;
        let mut j = s;
        while j < cs.len() && cs[j] != '"' { j += 1; }
        if j >= cs.len() { return None; }
        i = j + 1;
        cs[s..j].iter().collect::<String>()
    } else { ident(&mut i)? };
    ws(&mut i);
    if !letters(&mut i).eq_ignore_ascii_case("PAYLOAD") { return None; }
    ws(&mut i);
    let mut e = cs.len();
    while e > i && matches!(cs[e - 1], ' ' | '\t' | '\n' | '\r') { e -= 1; }
    Some((et, ctx, cs[i..e].iter().collect()))
}

fn impl_line(input: &str, out: &Out) -> String {
    if unmodelled(input) {
        return "unmodelled".into();
    }
    match out {
        Out::Panic(_) => "panic".into(),
        Out::Ok(Command::Store { event_type, context_id, .. }) => match store_scan(input) {
            Some((et, ctx, js)) if et == *event_type && ctx == *context_id => format!("ok S et={} ctx={} json={}", hexs(&et), hexs(&ctx), hexs(&js)),
            other => format!("ok S scan-mismatch {:?}", other),
        },
        Out::Ok(c) => format!("ok {}", render::r_command(c)),
        Out::Err(ParseError::InvalidJson(js)) if !js.starts_with("Enum") && !js.starts_with("Field") && !js.starts_with("FIELDS") => {
            // STORE whose JSON slice sonic_rs rejected: the model stops at the slice
            match store_scan(input) {
                Some((et, ctx, js2)) if js2 == *js => format!("ok S et={} ctx={} json={}", hexs(&et), hexs(&ctx), hexs(js)),
                other => format!("error invalid-json scan-mismatch {:?}", other),
            }
        }
        Out::Err(_) => "error".into(),
    }
}

// ---------------------------------------------------------------- panic classes
/// BATCH rebuilds every member from its tokens (`(`, `)`, `[` dropped, `]` ends the batch, numbers
/// re-printed through f64, escapes resolved, a space before every word, `;` inside strings splits).
/// This is the text it hands to the member parser (independent re-statement of the collector).
fn batch_rebuild(input: &str) -> Vec<String> {
    let toks = tokenize(input.trim());
    let mut buf = String::new();
    for t in toks.iter().skip(2) {
        match t {
            Token::LeftBrace => buf.push('{'),
            Token::RightBrace => buf.push('}'),
            Token::RightSquareBracket => break,
            Token::Word(w) => { if !buf.is_empty() { buf.push(' '); } buf.push_str(w); }
            Token::StringLiteral(x) => { if !buf.is_empty() { buf.push(' '); } buf.push('"'); buf.push_str(x); buf.push('"'); }
            Token::Number(n) => { if !buf.is_empty() { buf.push(' '); } buf.push_str(&n.to_string()); }
            Token::Symbol(c) => buf.push(*c),
            Token::Semicolon => buf.push(';'),
            _ => {}
        }
    }
    buf.split(';').map(str::trim).filter(|p| !p.is_empty()).map(String::from).collect()
}
/// class predicate of finding batch-retokenize: the member texts BATCH parses are not the texts written
fn batch_lossy(input: &str, c: &Command) -> bool {
    match c {
        Command::Batch(cs) => {
            let written: Vec<String> = cs.iter().map(|m| print::print_command(m, &mut Style::plain()).unwrap_or_default()).collect();
            tokenize(input.trim()).first().is_some_and(|t| word_is(t, "BATCH")) && batch_rebuild(input) != written
        }
        _ => false,
    }
}
/// The unwrap sites of the grammar actions (findings C17-limit-offset-unwrap, C17-int-literal-unwrap,
/// C17-float-literal-unwrap) were repaired in /repo (3a22cf3, 871e1a6): no panic of `parse_command`
/// belongs to a known class any more.
fn panic_class(_input: &str, _msg: &str) -> &'static str {
    "-"
}
fn scan_text(input: &str) -> String {
    input.to_string()
}

// ---------------------------------------------------------------- tokenizer pre-pass vs grammar literals
/// per character: is it handled by the tokenizer's main loop (outside its string literals; `\"` inside a
/// literal is an escaped quote)? second value: does the text end inside a tokenizer literal?
fn tokenizer_outside(text: &str) -> (Vec<bool>, bool) {
    let mut st = 0u8; // 0 out, 1 in literal, 2 after backslash
    let mut v = vec![];
    for c in text.chars() {
        match st {
            0 => { v.push(c != '"'); if c == '"' { st = 1; } }
            1 => { v.push(false); if c == '"' { st = 0; } else if c == '\\' { st = 2; } }
            _ => { v.push(false); st = 1; }
        }
    }
    (v, st != 0)
}
fn tokenizer_invalid_char(c: char) -> bool {
    !(matches!(c, ' ' | '\t' | '\n' | '\r' | '{' | '}' | ';' | '"' | ':' | ',' | '=' | '>' | '<' | '!' | '.' | '[' | ']' | '(' | ')' | '-' | '_') || c.is_alphanumeric())
}
/// class predicate of finding tokenizer-escape-desync: a character that is inside a GRAMMAR literal (quotes
/// pair up plainly, no escapes) is outside the TOKENIZER's literals (because an earlier literal ended in a
/// backslash) and is not a token character, so the pre-pass rejects a text the grammar accepts.
/// Deliberately not satisfied by a text whose only peculiarity is that the tokenizer ends inside a literal.
fn escape_desync(text: &str) -> bool {
    let (outside, _) = tokenizer_outside(text);
    let mut in_grammar_literal = false;
    for (i, c) in text.chars().enumerate() {
        if c == '"' { in_grammar_literal = !in_grammar_literal; continue; }
        if in_grammar_literal && outside[i] && tokenizer_invalid_char(c) { return true; }
    }
    false
}
fn pre_rejected(o: &Out) -> bool {
    matches!(o, Out::Err(ParseError::UnexpectedToken(m)) if m.starts_with("Found invalid character during tokenization"))
}
/// Texts of class tokenizer-escape-desync are generated only once the finding is listed (known_findings.json,
/// or findings/ under VERIF_DEV_KNOWN=1): until then they would be unclassified oracle failures.
fn desync_known() -> bool {
    static K: std::sync::OnceLock<bool> = std::sync::OnceLock::new();
    *K.get_or_init(|| {
        let has = |p: &str| std::fs::read_to_string(p).ok().and_then(|t| serde_json::from_str::<serde_json::Value>(&t).ok());
        let listed = has("known_findings.json").and_then(|v| v.get("findings").and_then(|f| f.as_array().cloned()))
            .is_some_and(|fs| fs.iter().any(|f| f.get("class").and_then(|c| c.as_str()) == Some("tokenizer-escape-desync") && f.get("status").and_then(|c| c.as_str()).unwrap_or("open") == "open"));
        let dev = std::env::var("VERIF_DEV_KNOWN").ok().as_deref() == Some("1")
            && has("findings/C17-tokenizer-escape-desync.json").is_some_and(|f| f.get("status").and_then(|c| c.as_str()).unwrap_or("open") == "open");
        listed || dev
    })
}
/// string literals of the PEG-parsed commands (the grammar's `"`…`"`, no escapes)
fn peg_literals(c: &Command) -> Vec<String> {
    fn vals(e: &Expr, out: &mut Vec<String>) {
        match e {
            Expr::Compare { value: serde_json::Value::String(s), .. } => out.push(s.clone()),
            Expr::In { values, .. } => for v in values { if let serde_json::Value::String(s) = v { out.push(s.clone()); } },
            Expr::And(a, b) | Expr::Or(a, b) => { vals(a, out); vals(b, out); }
            Expr::Not(a) => vals(a, out),
            _ => {}
        }
    }
    let mut out = vec![];
    match c {
        Command::Query { context_id, since, where_clause, return_fields, .. } => {
            out.extend(context_id.iter().cloned());
            out.extend(since.iter().cloned());
            if let Some(e) = where_clause { vals(e, &mut out); }
            if let Some(r) = return_fields { out.extend(r.iter().filter(|f| !print::is_field(f)).cloned()); }
        }
        Command::Replay { context_id, since, return_fields, .. } => {
            out.push(context_id.clone());
            out.extend(since.iter().cloned());
            if let Some(r) = return_fields { out.extend(r.iter().filter(|f| !print::is_ident(f)).cloned()); }
        }
        Command::RememberQuery { spec } => out.extend(peg_literals(&spec.query)),
        Command::Batch(cs) => for m in cs { out.extend(peg_literals(m)); },
        _ => {}
    }
    out
}

fn out_kind(o: &Out) -> String {
    match o {
        Out::Ok(c) => format!("ok:{}", render::variant(c)),
        Out::Err(e) => format!("err:{}", format!("{:?}", e).split('(').next().unwrap_or("?")),
        Out::Panic(_) => "panic".into(),
    }
}
fn same(a: &Out, b: &Out) -> bool {
    match (a, b) {
        (Out::Ok(x), Out::Ok(y)) => x == y,
        (Out::Err(_), Out::Err(_)) => true,
        (Out::Panic(_), Out::Panic(_)) => true,
        _ => false,
    }
}

fn stream_parse(a: &snel_harness::out::Args) {
    let mut s = Stream::create(&a.out, "parse");
    for i in 0..a.cases {
        if a.only.is_some_and(|o| o != i) { continue; }
        let mut r = Rng::for_case(a.seed, "parse", i);
        let kind = r.below(100);
        let mut expected: Option<Command> = None;
        let mut alt_text: Option<String> = None;
        let text: String = if kind < 45 {
            // grammar-derived from a generated command value
            let c = if r.chance(1, 12) {
                Command::Batch((0..1 + r.below(3)).map(|_| loop { let c = gens::simple_command(&mut r, 1); if !matches!(c, Command::ShowMaterialized { .. }) { break c; } }).collect())
            } else if r.chance(1, 7) {
                // REMEMBER: half of them with characters whose case mapping changes the UTF-8 length before the AS
                let q = if r.chance(1, 2) { s.tally("grammar:remember-caselen"); gens::query_caselen(&mut r) } else { gens::query(&mut r, 1) };
                Command::RememberQuery { spec: MaterializedQuerySpec { name: r.pick(&["m1", "daily_orders", "X-9", "foo", "hot"]).to_string(), query: Box::new(q) } }
            } else {
                gens::simple_command(&mut r, 2)
            };
            s.tally("kind:grammar");
            let mut st = Style::random(r.next());
            let remember_text = |spec: &MaterializedQuerySpec, st: &mut Style| -> Option<String> {
                // query::parse handles any whitespace; the ` AS ` search needs plain spaces around AS
                let mut qs = Style { bits: Rng::new(st.bits.next()), vary: st.vary };
                let q = print::print_command(&spec.query, &mut qs)?;
                if !q.to_ascii_uppercase().starts_with("QUERY") || q.to_ascii_uppercase().contains(" AS ") { return None; }
                Some(format!("{}{}{} {} {}", st.kw("REMEMBER"), st.sp(), q, st.kw("AS"), spec.name))
            };
            let printed = match &c {
                Command::RememberQuery { spec } => remember_text(spec, &mut st),
                _ => print::print_command(&c, &mut st),
            };
            let printed = match printed {
                Some(t) if escape_desync(&t) && !desync_known() => {
                    // would be an unclassified failure until finding tokenizer-escape-desync is listed: the case
                    // falls back to a soup input (counted)
                    s.tally("grammar:desync-avoided(finding not listed)");
                    None
                }
                p => p,
            };
            match printed {
                Some(t) => {
                    let lits = peg_literals(&c);
                    if lits.iter().any(|l| l.contains('\\')) { s.tally("grammar:literal-with-backslash"); }
                    if lits.iter().any(|l| l.ends_with('\\')) { s.tally("grammar:literal-ends-in-backslash"); }
                    if !matches!(c, Command::Batch(_)) && lits.iter().any(|l| l.contains('\\')) && tokenizer_outside(&t).1 { s.tally("grammar:tokenizer-ends-inside-literal(odd visible quotes)"); }
                    if escape_desync(&t) { s.tally("grammar:tokenizer-escape-desync"); }
                    alt_text = match &c { Command::RememberQuery { spec } => remember_text(spec, &mut Style::plain()), _ => print::print_command(&c, &mut Style::plain()) };
                    expected = Some(c);
                    t
                }
                None => { s.tally("grammar:unprintable"); gens::soup(&mut r) }
            }
        } else if kind < 60 {
            s.tally("kind:mutated");
            let c = gens::simple_command(&mut r, 2);
            let t = print::print_command(&c, &mut Style::random(r.next())).unwrap_or_else(|| gens::soup(&mut r));
            gens::mutate(&mut r, &t)
        } else if kind < 70 {
            s.tally("kind:loose");
            let t = gens::loose(&mut r);
            if r.chance(1, 4) { gens::mutate(&mut r, &t) } else { t }
        } else if kind < 76 {
            s.tally("kind:store");
            let t = gens::store_text(&mut r);
            if r.chance(1, 3) { gens::mutate(&mut r, &t) } else { t }
        } else if kind < 94 {
            s.tally("kind:soup");
            gens::soup(&mut r)
        } else {
            s.tally("kind:random-bytes");
            gens::random_bytes(&mut r)
        };
        let text = gens::tame(text).replace('\0', " ");
        let text = if text.contains('\n') && false { text } else { text };
        let out = run_parse(&text);
        let op = format!("p {} {}", hexs(&text), classes(&text));
        let imp = impl_line(&text, &out);
        s.tally(&out_kind(&out));
        if imp == "unmodelled" { s.tally("unmodelled"); }
        if !text.is_ascii() { s.tally("non-ascii"); }
        s.case(&op, &imp, matches!(out, Out::Ok(_)));

        // ---- oracle 1: never panics
        match &out {
            Out::Panic(msg) => s.oracle_fail(i, panic_class(&scan_text(&text), msg), &format!("parse_command panicked: input={:?} panic={}", text, msg)),
            _ => s.oracle_ok(),
        }
        // ---- oracle 2: printing a well-formed command and parsing it yields the same command
        if let Some(c) = &expected {
            let hazard = gens::keyword_ident_collision(c);
            if hazard { s.tally("grammar:keyword-ident-collision"); }
            match &out {
                Out::Ok(got) if got == c => s.oracle_ok(),
                Out::Panic(_) => {} // reported above
                _ => s.oracle_fail(i, if hazard { "keyword-ident-collision" } else if batch_lossy(&text, c) { "batch-retokenize" } else if pre_rejected(&out) && escape_desync(&text) { "tokenizer-escape-desync" } else { "-" },
                        &format!("round trip: printed={:?} expected={} got={}", text, render::r_command(c), match &out { Out::Ok(g) => render::r_command(g), Out::Err(e) => format!("Err({e})"), Out::Panic(_) => "panic".into() })),
            }
            // ---- oracle 3: keyword case / spacing do not change the result
            if let Some(alt) = &alt_text {
                let out2 = run_parse(alt);
                if same(&out, &out2) { s.oracle_ok(); } else if matches!(out, Out::Panic(_)) || matches!(out2, Out::Panic(_)) { /* reported */ } else {
                    s.oracle_fail(i, if hazard { "keyword-ident-collision" } else if batch_lossy(&text, c) { "batch-retokenize" } else { "-" }, &format!("case/spacing changed the result: {:?} vs {:?}", text, alt));
                }
            }
            // upper/lower of everything outside string literals (keywords and identifiers alike must keep structure)
        }
        // ---- oracle 4: parse ∘ print ∘ parse is the identity on whatever was parsed (printable fragment)
        if let Out::Ok(c) = &out {
            let reprint = print::print_command(c, &mut Style::plain());
            if reprint.as_ref().is_some_and(|t2| escape_desync(t2) && !desync_known()) {
                s.tally("parsed:reprint-desync-skipped(finding not listed)");
            } else if let Some(t2) = reprint {
                match run_parse(&t2) {
                    Out::Ok(c2) if c2 == *c => s.oracle_ok(),
                    Out::Panic(_) => s.oracle_fail(i, "-", &format!("reprint panicked: {:?} -> {:?}", text, t2)),
                    o => s.oracle_fail(i, if gens::keyword_ident_collision(c) { "keyword-ident-collision" } else if batch_lossy(&t2, c) { "batch-retokenize" } else if pre_rejected(&o) && escape_desync(&t2) { "tokenizer-escape-desync" } else { "-" }, &format!("print∘parse: {:?} -> {:?} -> {}", text, t2, out_kind(&o))),
                }
            } else {
                s.tally("parsed:unprintable");
            }
        }
    }
    s.finish();
}

// ---------------------------------------------------------------- tokens
fn stream_tokens(a: &snel_harness::out::Args) {
    let mut s = Stream::create(&a.out, "tokens");
    for i in 0..a.cases {
        if a.only.is_some_and(|o| o != i) { continue; }
        let mut r = Rng::for_case(a.seed, "tokens", i);
        let text = match r.below(4) {
            0 => gens::random_bytes(&mut r),
            1 => { let c = gens::simple_command(&mut r, 2); let t = print::print_command(&c, &mut Style::random(r.next())).unwrap_or_default(); gens::mutate(&mut r, &t) }
            _ => gens::soup(&mut r),
        };
        let toks = tokenize(&text);
        let line: Vec<String> = toks.iter().map(|t| match t {
            Token::Word(w) if w == "<INVALID>" => "INVALID".into(),
            Token::Word(w) => format!("W{}", hexs(w)),
            Token::Number(n) => format!("N{:016x}", n.to_bits()),
            Token::StringLiteral(x) => format!("S{}", hexs(x)),
            Token::Symbol(c) => format!("Y{}", hexs(&c.to_string())),
            Token::LeftBrace => "{".into(), Token::RightBrace => "}".into(), Token::Semicolon => ";".into(),
            Token::LeftSquareBracket => "[".into(), Token::RightSquareBracket => "]".into(),
            Token::LeftParen => "(".into(), Token::RightParen => ")".into(),
        }).collect();
        s.tally_n("tokens", toks.len() as u64);
        if toks.iter().any(|t| matches!(t, Token::Number(_))) { s.tally("has-number"); }
        if toks.iter().any(|t| matches!(t, Token::Word(w) if w == "<INVALID>")) { s.tally("has-invalid"); }
        if !text.is_ascii() { s.tally("non-ascii"); }
        s.case(&format!("t {} {}", hexs(&text), classes(&text)), &line.join(" "), !toks.is_empty());
        s.oracle_ok();
    }
    s.finish();
}

// ---------------------------------------------------------------- f64 literal conversion
fn stream_f64(a: &snel_harness::out::Args) {
    let mut s = Stream::create(&a.out, "f64");
    for i in 0..a.cases {
        if a.only.is_some_and(|o| o != i) { continue; }
        let mut r = Rng::for_case(a.seed, "f64", i);
        let (ip, fp): (String, String) = match r.below(8) {
            0 => { let t = gens::huge_float(&mut r); let t = t.trim_start_matches('-').to_string(); let (a, b) = t.split_once('.').unwrap(); (a.into(), b.into()) }
            1 => {
                // exact decimal expansion neighbourhood of a random double: shortest repr + extra digits
                let f = gens::finite_f64(&mut r).abs();
                let t = format!("{:.*}", (r.below(30) + 1) as usize, f);
                let (a, b) = t.split_once('.').unwrap();
                (a.into(), b.into())
            }
            2 => { // halfway cases between adjacent doubles: exact expansion of (2m+1)·2^(e-1)
                let m = (1u64 << 52) + r.below(1 << 52);
                let sh = r.below(40) as u32 + 1;
                // value = (2m+1) / 2^sh  → exact decimal with sh fractional digits
                let num = (2 * m as u128 + 1) * 5u128.pow(sh.min(27));
                let digits = num.to_string();
                let k = sh.min(27) as usize;
                if digits.len() > k { (digits[..digits.len() - k].to_string(), digits[digits.len() - k..].to_string()) } else { ("0".into(), format!("{:0>width$}", digits, width = k)) }
            }
            3 => ("0".into(), format!("{}{}", "0".repeat(300 + r.below(30) as usize), 1 + r.below(99999))),
            4 => (r.below(1000).to_string(), r.below(1000000).to_string()),
            5 => (format!("{}{}", 1 + r.below(9), "0".repeat(r.below(25) as usize)), "0".into()),
            _ => ((r.next() >> r.below(64)).to_string(), format!("{:0>3}", r.below(1000))),
        };
        let neg = r.chance(1, 3);
        let text = format!("{}{}.{}", if neg { "-" } else { "" }, ip, fp);
        let f: f64 = text.parse().unwrap();
        let imp = match serde_json::Number::from_f64(f) { Some(_) => format!("d{:016x}", f.to_bits()), None => "nonfinite".into() };
        if !f.is_finite() { s.tally("nonfinite"); } else if f != 0.0 && f.abs() < f64::MIN_POSITIVE { s.tally("subnormal"); } else if f == 0.0 { s.tally("zero"); } else { s.tally("normal"); }
        s.case(&format!("f {} {} {}", neg as u8, ip, fp), &imp, f.is_finite());
        // oracle: through the real parser the literal arrives as this f64 (or panics iff non-finite)
        let q = format!("QUERY ev WHERE x = {}", text);
        match run_parse(&q) {
            Out::Ok(Command::Query { where_clause: Some(Expr::Compare { value: serde_json::Value::Number(n), .. }), .. }) if f.is_finite() && n.as_f64().map(|g| g.to_bits()) == Some(f.to_bits()) => s.oracle_ok(),
            Out::Err(_) if !f.is_finite() => s.oracle_ok(), // a non-finite literal is rejected (was: unwrap panic)
            Out::Panic(msg) => s.oracle_fail(i, panic_class(&q, &msg), &format!("parse_command panicked: input={:?} panic={}", q, msg)),
            o => s.oracle_fail(i, "-", &format!("float literal {:?} did not arrive as {:?}: {}", text, f, out_kind(&o))),
        }
    }
    s.finish();
}

// ---------------------------------------------------------------- precedence
#[derive(Clone, Debug)]
enum Tk { Atom(usize), And, Or, Not, L, R }

/// random well-formed infix token sequence over atoms 0..n
fn gen_infix(r: &mut Rng, depth: u32, out: &mut Vec<Tk>, natoms: usize) {
    // expr := term (op term)*
    let terms = 1 + r.below(3);
    for t in 0..terms {
        if t > 0 { out.push(if r.chance(1, 2) { Tk::And } else { Tk::Or }); }
        let nots = if r.chance(1, 3) { 1 + r.below(2) } else { 0 };
        for _ in 0..nots { out.push(Tk::Not); }
        if depth > 0 && r.chance(1, 3) {
            out.push(Tk::L);
            gen_infix(r, depth - 1, out, natoms);
            out.push(Tk::R);
        } else {
            out.push(Tk::Atom(r.below(natoms as u64) as usize));
        }
    }
}
/// independent evaluator: two-stack precedence evaluation, NOT(3) > AND(2) > OR(1), binary operators
/// associate either way (AND/OR are associative), parentheses override.
fn eval_infix(toks: &[Tk], env: u32) -> bool {
    fn prec(t: &Tk) -> u8 { match t { Tk::Not => 3, Tk::And => 2, Tk::Or => 1, _ => 0 } }
    fn apply(op: &Tk, vals: &mut Vec<bool>) {
        match op {
            Tk::Not => { let a = vals.pop().unwrap(); vals.push(!a); }
            Tk::And => { let b = vals.pop().unwrap(); let a = vals.pop().unwrap(); vals.push(a && b); }
            Tk::Or => { let b = vals.pop().unwrap(); let a = vals.pop().unwrap(); vals.push(a || b); }
            _ => unreachable!(),
        }
    }
    let mut vals: Vec<bool> = vec![];
    let mut ops: Vec<Tk> = vec![];
    for t in toks {
        match t {
            Tk::Atom(k) => vals.push(env >> k & 1 == 1),
            Tk::L => ops.push(Tk::L),
            Tk::R => {
                while let Some(op) = ops.pop() { if matches!(op, Tk::L) { break; } apply(&op, &mut vals); }
            }
            Tk::Not => ops.push(Tk::Not), // prefix, right-associative: never pops anything
            Tk::And | Tk::Or => {
                while let Some(top) = ops.last() {
                    if !matches!(top, Tk::L) && prec(top) >= prec(t) { let op = ops.pop().unwrap(); apply(&op, &mut vals); } else { break; }
                }
                ops.push(t.clone());
            }
        }
    }
    while let Some(op) = ops.pop() { apply(&op, &mut vals); }
    vals[0]
}
fn eval_expr(e: &Expr, names: &[&str], env: u32) -> Option<bool> {
    Some(match e {
        Expr::Compare { field, op: CompareOp::Eq, value: serde_json::Value::Bool(true) } => { let k = names.iter().position(|n| n == field)?; env >> k & 1 == 1 }
        Expr::And(a, b) => eval_expr(a, names, env)? && eval_expr(b, names, env)?,
        Expr::Or(a, b) => eval_expr(a, names, env)? || eval_expr(b, names, env)?,
        Expr::Not(a) => !eval_expr(a, names, env)?,
        _ => return None,
    })
}
fn stream_prec(a: &snel_harness::out::Args) {
    let mut s = Stream::create(&a.out, "prec");
    let names = ["a", "b", "c", "d", "e"];
    for i in 0..a.cases {
        if a.only.is_some_and(|o| o != i) { continue; }
        let mut r = Rng::for_case(a.seed, "prec", i);
        let mut toks = vec![];
        gen_infix(&mut r, 3, &mut toks, names.len());
        let mut st = Style::random(r.next());
        let mut text = format!("{} ev {} ", st.kw("QUERY"), st.kw("WHERE"));
        for (k, t) in toks.iter().enumerate() {
            if k > 0 { text.push(' '); }
            match t {
                Tk::Atom(j) => text.push_str(names[*j]),
                Tk::And => text.push_str(&st.kw("AND")),
                Tk::Or => text.push_str(&st.kw("OR")),
                Tk::Not => text.push_str(&st.kw("NOT")),
                Tk::L => text.push('('),
                Tk::R => text.push(')'),
            }
        }
        let text = gens::tame(text);
        s.tally_n("tokens", toks.len() as u64);
        if toks.iter().any(|t| matches!(t, Tk::L)) { s.tally("parens"); }
        if toks.iter().any(|t| matches!(t, Tk::Not)) { s.tally("not"); }
        let out = run_parse(&text);
        s.case(&format!("p {} -", hexs(&text)), &impl_line(&text, &out), true);
        match out {
            Out::Ok(Command::Query { where_clause: Some(e), .. }) => {
                let mut bad = None;
                for env in 0..32u32 {
                    if eval_expr(&e, &names, env) != Some(eval_infix(&toks, env)) { bad = Some(env); break; }
                }
                match bad {
                    None => s.oracle_ok(),
                    Some(env) => s.oracle_fail(i, "-", &format!("precedence: {:?} parsed as {} differs from the reference at assignment {:05b}", text, render::r_expr(&e), env)),
                }
            }
            o => s.oracle_fail(i, "-", &format!("well-formed WHERE did not parse: {:?}: {}", text, out_kind(&o))),
        }
    }
    s.finish();
}

// ---------------------------------------------------------------- dispatch
fn stream_dispatch(a: &snel_harness::out::Args) {
    use snel_db::command::dispatcher::dispatch_command;
    use snel_db::engine::schema::registry::SchemaRegistry;
    use snel_db::engine::shard::manager::ShardManager;
    use snel_db::shared::response::json::JsonRenderer;
    use std::sync::Arc;
    use tokio::sync::RwLock;

    let base = a.out.join("dispatch-engine");
    let _ = std::fs::remove_dir_all(&base);
    std::fs::create_dir_all(&base).unwrap();
    let cfg = std::fs::read_to_string("/repo/config/test.toml").unwrap()
        .replace("../data/wal/archived/", &format!("{}/wal-archived/", base.display()))
        .replace("../data/wal/", &format!("{}/wal/", base.display()))
        .replace("../data/cols", &format!("{}/cols", base.display()))
        .replace("../data/index/", &format!("{}/index/", base.display()))
        .replace("../data/schema/", &format!("{}/schema/", base.display()))
        .replace("../data/logs", &format!("{}/logs", base.display()))
        .replace("stdout_level = \"debug\"", "stdout_level = \"error\"");
    let cfg_path = base.join("cfg.toml");
    std::fs::write(&cfg_path, cfg).unwrap();
    for d in ["wal", "wal-archived", "cols", "index", "schema", "logs"] { std::fs::create_dir_all(base.join(d)).unwrap(); }
    unsafe { std::env::set_var("SNELDB_CONFIG", &cfg_path); }

    let rt = tokio::runtime::Builder::new_multi_thread().worker_threads(4).enable_all().build().unwrap();
    let mut s = Stream::create(&a.out, "dispatch");
    rt.block_on(async {
        let reg = Arc::new(RwLock::new(SchemaRegistry::new().unwrap()));
        let sm = Arc::new(ShardManager::new(2, base.join("cols"), base.join("wal")).await);
        let fixed = [
            "PING", "FLUSH", "BATCH [ PING ]", "BATCH [ PING; FLUSH ]", "DEFINE ev FIELDS { k: \"int\" }", "STORE ev FOR c1 PAYLOAD {\"k\":1}",
            "QUERY ev", "QUERY nosuch WHERE x = 1", "REPLAY FOR c1", "REMEMBER QUERY ev AS m1", "SHOW m1", "SHOW nosuch", "CREATE USER u1", "REVOKE KEY u1", "LIST USERS",
            "GRANT READ ON ev TO u1", "REVOKE READ ON ev FROM u1", "SHOW PERMISSIONS FOR u1", "QUERY ev COUNT", "QUERY ev FOLLOWED BY ev LINKED BY k",
        ];
        for i in 0..a.cases {
            if a.only.is_some_and(|o| o != i) { continue; }
            let mut r = Rng::for_case(a.seed, "dispatch", i);
            let text = if (i as usize) < fixed.len() { fixed[i as usize].to_string() } else {
                let c = if r.chance(1, 6) { Command::Batch(vec![gens::simple_command(&mut r, 0)]) } else { gens::simple_command(&mut r, 0) };
                print::print_command(&c, &mut Style::plain()).unwrap_or_else(|| "PING".into())
            };
            let cmd = match run_parse(&text) { Out::Ok(c) => c, _ => { s.tally("unparsed"); continue; } };
            let v = render::variant(&cmd);
            s.tally(&format!("variant:{v}"));
            let (sm2, reg2) = (sm.clone(), reg.clone());
            let h = tokio::spawn(async move {
                let mut out: Vec<u8> = vec![];
                let r = dispatch_command(&cmd, &mut out, &sm2, &reg2, None, Some("bypass"), &JsonRenderer).await;
                (r.is_ok(), out)
            });
            let res = tokio::time::timeout(std::time::Duration::from_secs(30), h).await;
            let (imp, ok, detail) = match res {
                Ok(Ok((_, out))) => {
                    let body = String::from_utf8_lossy(&out).into_owned();
                    // Batch has its own arm since fbe6de4: a 400 response, not a member-wise execution
                    let ok = !out.is_empty() && (v != "Batch" || (body.contains("400") && body.contains("BATCH is not supported")));
                    if v == "Batch" && ok { s.tally("batch:400-response"); }
                    ("handled", ok, format!("response bytes={} {}", out.len(), body.chars().take(120).collect::<String>()))
                }
                Ok(Err(e)) if e.is_panic() => {
                    let msg = LAST_PANIC.lock().unwrap().clone();
                    (if msg.contains("unreachable") || msg.contains("non-command") { "unreachable" } else { "panic" }, false, msg)
                }
                Ok(Err(e)) => ("join-error", false, e.to_string()),
                Err(_) => ("timeout", false, "no response within 30 s".into()),
            };
            s.case(&format!("d {v}"), imp, true);
            if ok { s.oracle_ok(); } else {
                s.oracle_fail(i, "-", &format!("dispatch of {:?} ({v}): {imp} {detail}", text));
            }
        }
    });
    s.finish();
    rt.shutdown_background();
}

// ---------------------------------------------------------------- deep nesting (sacrificial children)
fn nesting_input(shape: &str, depth: usize) -> String {
    match shape {
        "paren" => format!("QUERY ev WHERE {}x = 1{}", "(".repeat(depth), ")".repeat(depth)),
        "not" => format!("QUERY ev WHERE {}x = 1", "NOT ".repeat(depth)),
        "and" => format!("QUERY ev WHERE {}x = 1", "a = 1 AND ".repeat(depth)),
        "brace" => format!("STORE ev FOR c PAYLOAD {}{}", "{\"a\":".repeat(depth), format!("1{}", "}".repeat(depth))),
        "openbrace" => format!("STORE ev FOR c PAYLOAD {}}}", "{".repeat(depth)),
        _ => unreachable!(),
    }
}
fn stream_nesting(a: &snel_harness::out::Args) {
    let mut s = Stream::create(&a.out, "nesting");
    let exe = std::env::current_exe().unwrap();
    let limit_ms: u128 = 10_000;
    let plan: Vec<(&str, usize)> = vec![
        ("paren", 4), ("paren", 8), ("paren", 10), ("paren", 12), ("paren", 14), ("paren", 16), ("paren", 24), ("paren", 100), ("paren", 10000), ("paren", 100000),
        ("not", 10), ("not", 100), ("not", 1000), ("not", 10000), ("not", 100000),
        ("and", 10), ("and", 1000), ("and", 100000),
        ("brace", 10), ("brace", 1000), ("brace", 100000),
        ("openbrace", 10), ("openbrace", 16), ("openbrace", 22), ("openbrace", 28), ("openbrace", 40),
    ];
    let mut dead: std::collections::HashSet<&str> = Default::default();
    // the probe set is fixed: a larger --cases (escalation x10) does not repeat or extend it
    let ncases = a.cases.min(plan.len() as u64);
    for (idx, (shape, depth)) in plan.iter().enumerate() {
        if (idx as u64) >= ncases { break; }
        if dead.contains(shape) {
            // a shallower depth of the same shape already exceeded the limit; deeper ones only cost time
            s.tally(&format!("{shape}:skipped-after-failure"));
            continue;
        }
        let t0 = std::time::Instant::now();
        let mut child = std::process::Command::new(&exe).arg("nesting-child").arg(shape).arg(depth.to_string())
            .stdout(std::process::Stdio::piped()).stderr(std::process::Stdio::null()).spawn().unwrap();
        let status = loop {
            match child.try_wait().unwrap() {
                Some(st) => break Some(st),
                None if t0.elapsed().as_millis() > limit_ms => { let _ = child.kill(); let _ = child.wait(); break None; }
                None => std::thread::sleep(std::time::Duration::from_millis(5)),
            }
        };
        let ms = t0.elapsed().as_millis();
        let mut outp = String::new();
        if let Some(mut o) = child.stdout.take() { use std::io::Read; let _ = o.read_to_string(&mut outp); }
        let len = nesting_input(shape, *depth).len();
        let verdict = match status {
            None => "timeout".to_string(),
            Some(st) if st.success() => outp.trim().to_string(),
            Some(st) => { use std::os::unix::process::ExitStatusExt; format!("killed signal={:?} code={:?}", st.signal(), st.code()) }
        };
        s.tally(&format!("{shape}@{depth} bytes={len} -> {verdict} ({ms} ms)"));
        s.case(&format!("n {shape} {depth}"), &verdict, true);
        if status.is_some_and(|st| st.success()) && !verdict.starts_with("panic") { s.oracle_ok(); } else {
            dead.insert(shape);
            let class = match (*shape, status.is_none()) {
                ("paren", true) | ("openbrace", true) => "exponential-backtracking",
                (_, false) if verdict.contains("signal=Some(6)") || verdict.contains("signal=Some(11)") => "deep-nesting-stack-overflow",
                _ => "-",
            };
            s.oracle_fail(idx as u64, class, &format!("{shape} nesting depth {depth} ({len} bytes): {verdict} after {ms} ms (limit {limit_ms} ms)"));
        }
    }
    s.finish();
}
fn nesting_child(shape: &str, depth: usize) {
    let input = nesting_input(shape, depth);
    // same stack as a tokio worker / default spawned thread (2 MiB)
    let h = std::thread::Builder::new().stack_size(2 * 1024 * 1024).spawn(move || {
        let t0 = std::time::Instant::now();
        let o = run_parse(&input);
        println!("{} {}ms", out_kind(&o).split(':').next().unwrap(), t0.elapsed().as_millis() / 100 * 100);
    }).unwrap();
    let _ = h.join();
}

fn main() {
    let argv: Vec<String> = std::env::args().collect();
    install_hook();
    if argv.len() >= 4 && argv[1] == "nesting-child" {
        nesting_child(&argv[2], argv[3].parse().unwrap());
        return;
    }
    if argv.len() >= 3 && argv[1] == "probe" {
        for t in &argv[2..] {
            let o = run_parse(t);
            println!("{:?} -> {} | model-line: {}", t, match &o { Out::Ok(c) => format!("Ok {}", render::r_command(c)), Out::Err(e) => format!("Err({e})"), Out::Panic(m) => format!("PANIC {m}") }, impl_line(t, &o));
        }
        return;
    }
    let a = parse_args();
    match a.stream.as_str() {
        "parse" => stream_parse(&a),
        "tokens" => stream_tokens(&a),
        "f64" => stream_f64(&a),
        "prec" => stream_prec(&a),
        "dispatch" => stream_dispatch(&a),
        "nesting" => stream_nesting(&a),
        other => {
            eprintln!("unknown stream {other}");
            std::process::exit(2);
        }
    }
}
