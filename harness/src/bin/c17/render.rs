//! Canonical one-line rendering of the real `Command` (same format as lean/Drivers/C17.lean).
use snel_db::command::parser::tokenizer::Token;
use snel_db::command::types::*;
use snel_harness::enc::hexs;
use serde_json::Value;

pub fn ho(o: &Option<String>) -> String {
    match o {
        None => "-".into(),
        Some(s) => format!("s{}", hexs(s)),
    }
}
pub fn hl(l: &[String]) -> String {
    format!("[{}]", l.iter().map(|s| hexs(s)).collect::<Vec<_>>().join(","))
}
pub fn hlo(o: &Option<Vec<String>>) -> String {
    match o {
        None => "-".into(),
        Some(l) => hl(l),
    }
}
pub fn r_value(v: &Value) -> String {
    match v {
        Value::String(s) => format!("s{}", hexs(s)),
        Value::Bool(b) => if *b { "b1".into() } else { "b0".into() },
        Value::Number(n) => {
            if let Some(i) = n.as_i64() {
                format!("i{i}")
            } else if let Some(u) = n.as_u64() {
                format!("u{u}")
            } else {
                format!("d{:016x}", n.as_f64().unwrap().to_bits())
            }
        }
        other => format!("?{}", other),
    }
}
pub fn op_name(op: &CompareOp) -> &'static str {
    match op {
        CompareOp::Eq => "Eq",
        CompareOp::Neq => "Neq",
        CompareOp::Gt => "Gt",
        CompareOp::Gte => "Gte",
        CompareOp::Lt => "Lt",
        CompareOp::Lte => "Lte",
        CompareOp::In => "In",
    }
}
pub fn r_expr(e: &Expr) -> String {
    match e {
        Expr::Compare { field, op, value } => format!("(cmp {} {} {})", hexs(field), op_name(op), r_value(value)),
        Expr::In { field, values } => format!("(in {} [{}])", hexs(field), values.iter().map(r_value).collect::<Vec<_>>().join(",")),
        Expr::And(a, b) => format!("(and {} {})", r_expr(a), r_expr(b)),
        Expr::Or(a, b) => format!("(or {} {})", r_expr(a), r_expr(b)),
        Expr::Not(a) => format!("(not {})", r_expr(a)),
    }
}
fn r_agg(a: &AggSpec) -> String {
    match a {
        AggSpec::Count { unique_field } => format!("count:{}", ho(unique_field)),
        AggSpec::CountField { field } => format!("countField:{}", hexs(field)),
        AggSpec::Total { field } => format!("total:{}", hexs(field)),
        AggSpec::Avg { field } => format!("avg:{}", hexs(field)),
        AggSpec::Min { field } => format!("min:{}", hexs(field)),
        AggSpec::Max { field } => format!("max:{}", hexs(field)),
    }
}
fn r_u32(o: &Option<u32>) -> String {
    match o {
        None => "-".into(),
        Some(n) => n.to_string(),
    }
}
pub fn r_command(c: &Command) -> String {
    match c {
        Command::Query {
            event_type, context_id, since, time_field, sequence_time_field, where_clause, limit, offset, order_by,
            picked_zones, return_fields, link_field, aggs, time_bucket, group_by, event_sequence,
        } => {
            let w = where_clause.as_ref().map(r_expr).unwrap_or("-".into());
            let ord = order_by.as_ref().map(|o| format!("{}:{}", hexs(&o.field), if o.desc { 1 } else { 0 })).unwrap_or("-".into());
            let ag = aggs.as_ref().map(|l| format!("[{}]", l.iter().map(r_agg).collect::<Vec<_>>().join(","))).unwrap_or("-".into());
            let tb = time_bucket.as_ref().map(|g| format!("{:?}", g)).unwrap_or("-".into());
            let seq = event_sequence.as_ref().map(|s| {
                let field_note = if s.head.field.is_some() || s.links.iter().any(|(_, t)| t.field.is_some()) { "!field" } else { "" };
                format!("{}({}){}", hexs(&s.head.event), s.links.iter().map(|(l, t)| format!("{}:{}", match l { SequenceLink::FollowedBy => "F", SequenceLink::PrecededBy => "P" }, hexs(&t.event))).collect::<Vec<_>>().join(","), field_note)
            }).unwrap_or("-".into());
            let pz = if picked_zones.is_some() { " !picked" } else { "" };
            format!("Q et={} ctx={} since={} tf={} stf={} w={} lim={} off={} ord={} ret={} link={} aggs={} tb={} gb={} seq={}{}",
                hexs(event_type), ho(context_id), ho(since), ho(time_field), ho(sequence_time_field), w, r_u32(limit), r_u32(offset), ord,
                hlo(return_fields), ho(link_field), ag, tb, hlo(group_by), seq, pz)
        }
        Command::Replay { event_type, context_id, since, time_field, return_fields } =>
            format!("R et={} ctx={} since={} tf={} ret={}", ho(event_type), hexs(context_id), ho(since), ho(time_field), hlo(return_fields)),
        Command::Store { event_type, context_id, payload } =>
            format!("S et={} ctx={} payload={}", hexs(event_type), hexs(context_id), hexs(&payload.to_string())),
        Command::RememberQuery { spec } => format!("M name={} {}", hexs(&spec.name), r_command(&spec.query)),
        Command::ShowMaterialized { name } => format!("SHOWMAT {}", hexs(name)),
        Command::Ping => "PING".into(),
        Command::Flush => "FLUSH".into(),
        Command::CreateUser { user_id, secret_key, roles } => format!("CREATEUSER {} key={} roles={}", hexs(user_id), ho(secret_key), hlo(roles)),
        Command::RevokeKey { user_id } => format!("REVOKEKEY {}", hexs(user_id)),
        Command::ListUsers => "LISTUSERS".into(),
        Command::GrantPermission { permissions, event_types, user_id } => format!("GRANT {} {} {}", hl(permissions), hl(event_types), hexs(user_id)),
        Command::RevokePermission { permissions, event_types, user_id } => format!("REVOKEPERM {} {} {}", hl(permissions), hl(event_types), hexs(user_id)),
        Command::ShowPermissions { user_id } => format!("SHOWPERMS {}", hexs(user_id)),
        Command::Batch(cs) => format!("B[{}]", cs.iter().map(r_command).collect::<Vec<_>>().join(";")),
        Command::Define { .. } => "DEFINE".into(),
        Command::Compare { .. } => "COMPARE".into(),
    }
}
pub fn variant(c: &Command) -> &'static str {
    match c {
        Command::Define { .. } => "Define",
        Command::Store { .. } => "Store",
        Command::Query { .. } => "Query",
        Command::RememberQuery { .. } => "RememberQuery",
        Command::ShowMaterialized { .. } => "ShowMaterialized",
        Command::Replay { .. } => "Replay",
        Command::Ping => "Ping",
        Command::Flush => "Flush",
        Command::Batch(_) => "Batch",
        Command::Compare { .. } => "Compare",
        Command::CreateUser { .. } => "CreateUser",
        Command::RevokeKey { .. } => "RevokeKey",
        Command::ListUsers => "ListUsers",
        Command::GrantPermission { .. } => "GrantPermission",
        Command::RevokePermission { .. } => "RevokePermission",
        Command::ShowPermissions { .. } => "ShowPermissions",
    }
}
pub fn r_token(t: &Token, raw_numbers: &mut std::vec::IntoIter<String>) -> String {
    match t {
        Token::Word(w) if w == "<INVALID>" => "INVALID".into(),
        Token::Word(w) => format!("W{}", hexs(w)),
        Token::Number(_) => format!("N{}", hexs(&raw_numbers.next().unwrap_or_default())),
        Token::StringLiteral(s) => format!("S{}", hexs(s)),
        Token::Symbol(c) => format!("Y{}", hexs(&c.to_string())),
        Token::LeftBrace => "{".into(),
        Token::RightBrace => "}".into(),
        Token::Semicolon => ";".into(),
        Token::LeftSquareBracket => "[".into(),
        Token::RightSquareBracket => "]".into(),
        Token::LeftParen => "(".into(),
        Token::RightParen => ")".into(),
    }
}
