//! Rust-side printer of `Command` (the repo has none): the text a client would write for a
//! command value. `None` when the value is outside the printable (well-formed) fragment.
//! `Style` chooses keyword case and spacing; the parser's answer must not depend on it.
use serde_json::Value;
use snel_db::command::types::*;
use snel_harness::rng::Rng;

pub struct Style {
    pub bits: Rng,
    pub vary: bool,
}
impl Style {
    pub fn plain() -> Self {
        Style { bits: Rng::new(0), vary: false }
    }
    pub fn random(seed: u64) -> Self {
        Style { bits: Rng::new(seed), vary: true }
    }
    pub fn kw(&mut self, k: &str) -> String {
        if !self.vary {
            return k.to_string();
        }
        match self.bits.below(4) {
            0 => k.to_string(),
            1 => k.to_lowercase(),
            _ => k.chars().map(|c| if self.bits.chance(1, 2) { c.to_ascii_lowercase() } else { c.to_ascii_uppercase() }).collect(),
        }
    }
    /// mandatory separator
    pub fn sp(&mut self) -> String {
        if !self.vary {
            return " ".into();
        }
        match self.bits.below(8) {
            0 => "  ".into(),
            1 => "\t".into(),
            2 => " \n ".into(),
            3 => "\r\n".into(),
            _ => " ".into(),
        }
    }
    /// optional whitespace (around punctuation)
    pub fn osp(&mut self, default: &str) -> String {
        if !self.vary {
            return default.into();
        }
        match self.bits.below(4) {
            0 => "".into(),
            1 => "  ".into(),
            _ => " ".into(),
        }
    }
}

pub fn is_ident(s: &str) -> bool {
    let mut cs = s.chars();
    match cs.next() {
        Some(c) if c.is_ascii_alphabetic() || c == '_' => {}
        _ => return false,
    }
    cs.all(|c| c.is_ascii_alphanumeric() || c == '_' || c == '-')
}
pub fn is_field(s: &str) -> bool {
    match s.split_once('.') {
        Some((a, b)) => is_ident(a) && is_ident(b),
        None => is_ident(s),
    }
}
/// a grammar string literal is `"` non-quote characters `"`: no escape syntax exists, so every string
/// without a quote — backslashes included, also as the last character — is printable as it is
pub fn is_plain_string(s: &str) -> bool {
    !s.contains('"')
}
fn quoted(s: &str) -> Option<String> {
    if is_plain_string(s) { Some(format!("\"{s}\"")) } else { None }
}

pub fn print_value(v: &Value) -> Option<String> {
    match v {
        Value::String(s) => quoted(s),
        Value::Number(n) => {
            if let Some(i) = n.as_i64() {
                Some(i.to_string())
            } else if n.as_u64().is_some() {
                None
            } else {
                let f = n.as_f64()?;
                if !f.is_finite() {
                    return None;
                }
                let t = format!("{}", f);
                Some(if t.contains('.') { t } else { format!("{t}.0") })
            }
        }
        _ => None,
    }
}

fn cmp_text(op: &CompareOp) -> Option<&'static str> {
    Some(match op {
        CompareOp::Eq => "=",
        CompareOp::Neq => "!=",
        CompareOp::Gt => ">",
        CompareOp::Gte => ">=",
        CompareOp::Lt => "<",
        CompareOp::Lte => "<=",
        CompareOp::In => return None,
    })
}

/// level 0: or-context, 1: and-context, 2: factor-context
pub fn print_expr(e: &Expr, level: u8, st: &mut Style) -> Option<String> {
    Some(match e {
        Expr::Compare { field, op: CompareOp::Eq, value: Value::Bool(true) } => {
            if !is_field(field) { return None; }
            field.clone()
        }
        Expr::Compare { field, op, value } => {
            if !is_field(field) { return None; }
            format!("{}{}{}{}{}", field, st.osp(" "), cmp_text(op)?, st.osp(" "), print_value(value)?)
        }
        Expr::In { field, values } => {
            if !is_field(field) { return None; }
            let mut out = format!("{}{}{}{}(", field, st.sp(), st.kw("IN"), st.osp(" "));
            out.push_str(&st.osp(""));
            for (i, v) in values.iter().enumerate() {
                if i > 0 {
                    out.push_str(&st.osp(""));
                    out.push(',');
                    out.push_str(&st.osp(" "));
                }
                out.push_str(&print_value(v)?);
            }
            out.push_str(&st.osp(""));
            out.push(')');
            out
        }
        Expr::Not(x) => format!("{}{}{}", st.kw("NOT"), st.sp(), print_expr(x, 2, st)?),
        Expr::And(a, b) => {
            let inner = format!("{}{}{}{}{}", print_expr(a, 2, st)?, st.sp(), st.kw("AND"), st.sp(), print_expr(b, 1, st)?);
            if level > 1 { format!("({}{}{})", st.osp(""), inner, st.osp("")) } else { inner }
        }
        Expr::Or(a, b) => {
            let inner = format!("{}{}{}{}{}", print_expr(a, 1, st)?, st.sp(), st.kw("OR"), st.sp(), print_expr(b, 0, st)?);
            if level > 0 { format!("({}{}{})", st.osp(""), inner, st.osp("")) } else { inner }
        }
    })
}

fn print_list(items: &[String], st: &mut Style) -> String {
    let mut out = String::from("[");
    out.push_str(&st.osp(""));
    for (i, it) in items.iter().enumerate() {
        if i > 0 {
            out.push_str(&st.osp(""));
            out.push(',');
            out.push_str(&st.osp(" "));
        }
        out.push_str(it);
    }
    out.push_str(&st.osp(""));
    out.push(']');
    out
}

/// Clause order of the printer: FOR, SINCE, USING, USING TIME, LINKED BY, WHERE, aggregates, PER, BY,
/// RETURN, ORDER BY, LIMIT, OFFSET (the grammar accepts any order; the fields are independent).
pub fn print_command(c: &Command, st: &mut Style) -> Option<String> {
    match c {
        Command::Query {
            event_type, context_id, since, time_field, sequence_time_field, where_clause, limit, offset, order_by,
            picked_zones, return_fields, link_field, aggs, time_bucket, group_by, event_sequence,
        } => {
            if picked_zones.is_some() || !is_ident(event_type) { return None; }
            let find = st.vary && st.bits.chance(1, 5);
            let mut out = st.kw(if find { "FIND" } else { "QUERY" });
            out.push_str(&st.sp());
            match event_sequence {
                None => out.push_str(event_type),
                Some(seq) => {
                    if seq.head.event != *event_type || seq.head.field.is_some() || seq.links.is_empty() { return None; }
                    out.push_str(event_type);
                    for (l, t) in &seq.links {
                        if t.field.is_some() || !is_ident(&t.event) { return None; }
                        out.push_str(&st.sp());
                        out.push_str(&st.kw(match l { SequenceLink::FollowedBy => "FOLLOWED", SequenceLink::PrecededBy => "PRECEDED" }));
                        out.push_str(&st.sp());
                        out.push_str(&st.kw("BY"));
                        out.push_str(&st.sp());
                        out.push_str(&t.event);
                    }
                }
            }
            if let Some(ctx) = context_id {
                out.push_str(&format!("{}{}{}{}", st.sp(), st.kw("FOR"), st.sp(), quoted(ctx)?));
            }
            if let Some(s) = since {
                out.push_str(&format!("{}{}{}{}", st.sp(), st.kw("SINCE"), st.sp(), quoted(s)?));
            }
            if let Some(f) = time_field {
                if !is_field(f) { return None; }
                out.push_str(&format!("{}{}{}{}", st.sp(), st.kw("USING"), st.sp(), f));
            }
            if let Some(f) = sequence_time_field {
                if !is_field(f) { return None; }
                out.push_str(&format!("{}{}{}{}{}{}", st.sp(), st.kw("USING"), st.sp(), st.kw("TIME"), st.sp(), f));
            }
            if let Some(f) = link_field {
                if !is_ident(f) { return None; }
                out.push_str(&format!("{}{}{}{}{}{}", st.sp(), st.kw("LINKED"), st.sp(), st.kw("BY"), st.sp(), f));
            }
            if let Some(e) = where_clause {
                out.push_str(&format!("{}{}{}{}", st.sp(), st.kw("WHERE"), st.sp(), print_expr(e, 0, st)?));
            }
            if let Some(a) = aggs {
                if a.is_empty() { return None; }
                out.push_str(&st.sp());
                for (i, s) in a.iter().enumerate() {
                    if i > 0 {
                        out.push_str(&st.osp(""));
                        out.push(',');
                        out.push_str(&st.osp(" "));
                    }
                    let (k, f): (&str, Option<&String>) = match s {
                        AggSpec::Count { unique_field: None } => ("COUNT", None),
                        AggSpec::Count { unique_field: Some(f) } => ("COUNT UNIQUE", Some(f)),
                        AggSpec::CountField { field } => ("COUNT", Some(field)),
                        AggSpec::Total { field } => ("TOTAL", Some(field)),
                        AggSpec::Avg { field } => ("AVG", Some(field)),
                        AggSpec::Min { field } => ("MIN", Some(field)),
                        AggSpec::Max { field } => ("MAX", Some(field)),
                    };
                    let mut first = true;
                    for w in k.split(' ') {
                        if !first { out.push_str(&st.sp()); }
                        first = false;
                        out.push_str(&st.kw(w));
                    }
                    if let Some(f) = f {
                        if !is_field(f) { return None; }
                        out.push_str(&st.sp());
                        out.push_str(f);
                    }
                }
            }
            if let Some(g) = time_bucket {
                out.push_str(&format!("{}{}{}{}", st.sp(), st.kw("PER"), st.sp(), st.kw(&format!("{:?}", g).to_uppercase())));
            }
            if let Some(g) = group_by {
                if g.is_empty() || !g.iter().all(|f| is_field(f)) { return None; }
                out.push_str(&format!("{}{}{}", st.sp(), st.kw("BY"), st.sp()));
                for (i, f) in g.iter().enumerate() {
                    if i > 0 {
                        out.push_str(&st.osp(""));
                        out.push(',');
                        out.push_str(&st.osp(" "));
                    }
                    out.push_str(f);
                }
            }
            if let Some(r) = return_fields {
                let mut items = vec![];
                for f in r {
                    items.push(if is_field(f) { f.clone() } else { quoted(f)? });
                }
                out.push_str(&format!("{}{}{}{}", st.sp(), st.kw("RETURN"), st.osp(" "), print_list(&items, st)));
            }
            if let Some(o) = order_by {
                if !is_field(&o.field) { return None; }
                out.push_str(&format!("{}{}{}{}{}{}", st.sp(), st.kw("ORDER"), st.sp(), st.kw("BY"), st.sp(), o.field));
                if o.desc {
                    out.push_str(&format!("{}{}", st.sp(), st.kw("DESC")));
                } else if st.vary && st.bits.chance(1, 2) {
                    out.push_str(&format!("{}{}", st.sp(), st.kw("ASC")));
                }
            }
            if let Some(n) = limit {
                out.push_str(&format!("{}{}{}{}", st.sp(), st.kw("LIMIT"), st.sp(), n));
            }
            if let Some(n) = offset {
                out.push_str(&format!("{}{}{}{}", st.sp(), st.kw("OFFSET"), st.sp(), n));
            }
            Some(out)
        }
        Command::Replay { event_type, context_id, since, time_field, return_fields } => {
            let mut out = st.kw("REPLAY");
            if let Some(et) = event_type {
                if !is_ident(et) || et.eq_ignore_ascii_case("FOR") { return None; }
                out.push_str(&st.sp());
                out.push_str(et);
            }
            out.push_str(&format!("{}{}{}{}", st.sp(), st.kw("FOR"), st.sp(), quoted(context_id)?));
            if let Some(s) = since {
                out.push_str(&format!("{}{}{}{}", st.sp(), st.kw("SINCE"), st.sp(), quoted(s)?));
            }
            if let Some(f) = time_field {
                if !is_ident(f) { return None; }
                out.push_str(&format!("{}{}{}{}", st.sp(), st.kw("USING"), st.sp(), f));
            }
            if let Some(r) = return_fields {
                let mut items = vec![];
                for f in r {
                    items.push(if is_ident(f) { f.clone() } else { quoted(f)? });
                }
                out.push_str(&format!("{}{}{}{}", st.sp(), st.kw("RETURN"), st.osp(" "), print_list(&items, st)));
            }
            Some(out)
        }
        Command::RememberQuery { spec } => {
            if spec.name.is_empty() || !spec.name.chars().all(|c| c.is_ascii_alphanumeric() || c == '_' || c == '-') { return None; }
            let q = print_command(&spec.query, st)?;
            if !q.to_ascii_uppercase().starts_with("QUERY") || q.to_ascii_uppercase().contains(" AS ") { return None; }
            Some(format!("{}{}{} {} {}", st.kw("REMEMBER"), st.sp(), q, st.kw("AS"), spec.name))
        }
        Command::Ping => Some(st.kw("PING")),
        Command::Flush => Some(st.kw("FLUSH")),
        Command::ListUsers => Some(format!("{}{}{}", st.kw("LIST"), st.sp(), st.kw("USERS"))),
        Command::ShowMaterialized { name } => {
            if name.is_empty() || !name.chars().all(|c| c.is_ascii_alphanumeric() || c == '_' || c == '-') || name.eq_ignore_ascii_case("PERMISSIONS") { return None; }
            if name.starts_with(|c: char| c.is_ascii_digit() || c == '-') { return Some(format!("{}{}\"{}\"", st.kw("SHOW"), st.sp(), name)); }
            Some(format!("{}{}{}", st.kw("SHOW"), st.sp(), name))
        }
        Command::RevokeKey { user_id } => Some(format!("{}{}{}{}{}", st.kw("REVOKE"), st.sp(), st.kw("KEY"), st.sp(), tok_string(user_id)?)),
        Command::ShowPermissions { user_id } => Some(format!("{}{}{}{}{}{}{}", st.kw("SHOW"), st.sp(), st.kw("PERMISSIONS"), st.sp(), st.kw("FOR"), st.sp(), tok_string(user_id)?)),
        Command::CreateUser { user_id, secret_key, roles } => {
            let mut out = format!("{}{}{}{}{}", st.kw("CREATE"), st.sp(), st.kw("USER"), st.sp(), tok_string(user_id)?);
            if let Some(k) = secret_key {
                out.push_str(&format!("{}{}{}{}{}{}", st.sp(), st.kw("WITH"), st.sp(), st.kw("KEY"), st.sp(), tok_string(k)?));
            }
            if let Some(r) = roles {
                let items: Option<Vec<String>> = r.iter().map(|x| tok_string(x)).collect();
                out.push_str(&format!("{}{}{}{}{}{}", st.sp(), st.kw("WITH"), st.sp(), st.kw("ROLES"), st.osp(" "), print_list(&items?, st)));
            }
            Some(out)
        }
        Command::GrantPermission { permissions, event_types, user_id } => print_grant("GRANT", "TO", permissions, event_types, user_id, st),
        Command::RevokePermission { permissions, event_types, user_id } => print_grant("REVOKE", "FROM", permissions, event_types, user_id, st),
        Command::Batch(cs) => {
            let mut out = format!("{}{}[", st.kw("BATCH"), st.osp(" "));
            for (i, c) in cs.iter().enumerate() {
                if matches!(c, Command::Batch(_)) { return None; }
                if i > 0 { out.push(';'); }
                out.push_str(&st.osp(" "));
                // the collector re-spaces tokens, so only plainly spaced commands survive
                let mut inner = Style::plain();
                out.push_str(&print_command(c, &mut inner)?);
                out.push_str(&st.osp(" "));
            }
            out.push(']');
            Some(out)
        }
        _ => None,
    }
}

/// a tokenizer string literal (escapes `\\` and `"`)
fn tok_string(s: &str) -> Option<String> {
    Some(format!("\"{}\"", s.replace('\\', "\\\\").replace('"', "\\\"")))
}

fn print_grant(k: &str, last: &str, perms: &[String], evs: &[String], user: &str, st: &mut Style) -> Option<String> {
    let mut out = st.kw(k);
    if perms.is_empty() && k == "GRANT" { return None; }
    for (i, p) in perms.iter().enumerate() {
        if p != "read" && p != "write" { return None; }
        if i > 0 { out.push_str(&st.osp("")); out.push(','); out.push_str(&st.osp(" ")); } else { out.push_str(&st.sp()); }
        out.push_str(&st.kw(&p.to_uppercase()));
    }
    out.push_str(&format!("{}{}{}", st.sp(), st.kw("ON"), st.sp()));
    if evs.is_empty() { return None; }
    for (i, e) in evs.iter().enumerate() {
        if i > 0 { out.push_str(&st.osp("")); out.push(','); out.push_str(&st.osp(" ")); }
        out.push_str(&tok_string(e)?);
    }
    out.push_str(&format!("{}{}{}{}", st.sp(), st.kw(last), st.sp(), tok_string(user)?));
    Some(out)
}
