//! C14: REMEMBER / SHOW end to end on the real engine (1-3 shards).
//!
//! (Findings C14-mark-from-last-frame and C14-remember-in-flush-window are repaired in /repo —
//! commits 60e3c76, f1fe52c; their witnesses stay as regression cases that must pass, a recurrence is
//! reported with class `-`.)
//!
//! A case is a history of STORE (wall-clock second and id-clock millisecond scripted through the
//! `store_now` / `id_clock` hooks, contexts routed to chosen shards), FLUSH, compaction rounds,
//! clean restarts, backdating of segment files, `REMEMBER QUERY q AS m`, `SHOW m` followed by the
//! same `QUERY q`, SHOW repeated, REMEMBER under an existing name, SHOW of an unknown name.
//!
//! Compared with the Lean model for equality: status of every REMEMBER, the key multiset and the
//! catalog's high-water mark after every REMEMBER / SHOW, the key set of every QUERY. The frames
//! the engine stored (read back from the materialised store on disk) go into the model's input:
//! their split and order are scheduling; the model checks that they are a split of what its own
//! query / watermark filter yields.
//!
//! Oracle (independent of the model): keys(SHOW m) = keys(QUERY q) as multisets, SHOW repeated
//! gives the same rows, REMEMBER under an existing name fails and changes nothing, SHOW of an
//! unknown name fails. A departure is classified by a predicate on the harness's own bookkeeping
//! (marks and frames read from disk, `(ts, id)` of every applied event).
use serde_json::json;
use snel_harness::out::{parse_args, Stream};
use snel_harness::rng::Rng;
use snel_harness::sys::{self, Reply, Session, SysCfg};
use std::collections::{BTreeMap, BTreeSet};
use std::path::{Path, PathBuf};

const BASE_TS: u64 = 1_700_000_000;
const BASE_MS: u64 = 1_700_000_000_000;

#[derive(Clone, Copy, Debug, PartialEq)]
enum Cmp {
    Eq,
    Ge,
    Le,
    Gt,
    Lt,
}
impl Cmp {
    fn tok(self) -> &'static str {
        match self {
            Cmp::Eq => "eq",
            Cmp::Ge => "ge",
            Cmp::Le => "le",
            Cmp::Gt => "gt",
            Cmp::Lt => "lt",
        }
    }
    fn sql(self) -> &'static str {
        match self {
            Cmp::Eq => "=",
            Cmp::Ge => ">=",
            Cmp::Le => "<=",
            Cmp::Gt => ">",
            Cmp::Lt => "<",
        }
    }
    fn eval(self, a: u64, b: u64) -> bool {
        match self {
            Cmp::Eq => a == b,
            Cmp::Ge => a >= b,
            Cmp::Le => a <= b,
            Cmp::Gt => a > b,
            Cmp::Lt => a < b,
        }
    }
}

#[derive(Clone, Debug)]
struct Spec {
    ctx: Option<usize>,
    cmp: Option<(Cmp, u64)>,
    since: Option<u64>, // offset from BASE_TS
}
impl Spec {
    fn text(&self, ctxs: &[(String, usize)]) -> String {
        let mut s = String::from("QUERY ev");
        if let Some(c) = self.ctx {
            s.push_str(&format!(" FOR {}", ctxs[c].0));
        }
        if let Some(t) = self.since {
            s.push_str(&format!(" SINCE \"{}\"", BASE_TS + t));
        }
        if let Some((op, v)) = self.cmp {
            s.push_str(&format!(" WHERE x {} {}", op.sql(), v));
        }
        s.push_str(" RETURN [k]");
        s
    }
    fn toks(&self) -> String {
        format!(
            "{} {} {}",
            self.ctx.map(|c| c.to_string()).unwrap_or("*".into()),
            self.cmp.map(|(o, v)| format!("{}:{}", o.tok(), v)).unwrap_or("*".into()),
            self.since.map(|t| (BASE_TS + t).to_string()).unwrap_or("*".into())
        )
    }
    fn matches(&self, e: &EvRec) -> bool {
        self.ctx.map(|c| c == e.ctx).unwrap_or(true)
            && self.cmp.map(|(o, v)| o.eval(e.x, v)).unwrap_or(true)
            && self.since.map(|t| e.ts >= BASE_TS + t).unwrap_or(true)
    }
}

#[derive(Clone, Debug)]
struct EvRec {
    key: u64,
    ts: u64,
    ctx: usize,
    shard: usize,
    x: u64,
    id: Option<u64>,
}

#[derive(Clone, Debug)]
enum Step {
    Store { ctx: usize, x: u64, ts: u64, ms: u64, nosync: bool },
    Flush,
    Compact(usize),
    Restart,
    Backdate,
    Remember { name: usize, spec: Spec },
    /// STOREs on `ctx` until its shard's memtable rotates, then REMEMBER at once, without a harness
    /// barrier: the automatic flush is somewhere in its window and REMEMBER's own AwaitFlush barrier
    /// (commit f1fe52c) is what keeps the initial run from reading rows twice
    RememberInWindow { name: usize, spec: Spec, ctx: usize, x: u64, ts: u64, ms: u64 },
    /// SHOW (+ QUERY); `twice`: SHOW again; `barrier`: the harness waits for flushes itself first
    Show { name: usize, twice: bool, barrier: bool },
    Query { spec: Spec },
    /// SHOW whose client went away: every write of the response fails (the frames of the delta are
    /// stored, the catalog entry is not rewritten)
    ShowBrokenPipe { name: usize },
    /// FLUSH, then SHOW killed at the first byte of its response (frames and manifest durable,
    /// catalog entry not rewritten), then a restart on the same directories
    ShowCrash { name: usize },
}

/// what goes into the model's input line (ids are filled in at the end)
enum Tok {
    E(u64),
    Raw(String),
}

struct Mat {
    spec: Spec,
    frames: Vec<Vec<u64>>,
    mark: Option<(u64, u64)>,
    /// keys that were stored while lexicographically above the mark left by a REMEMBER / SHOW
    stored_above_mark: BTreeSet<u64>,
    /// key -> (mark when the event was applied, number of frames then); only events applied after REMEMBER
    late: BTreeMap<u64, (Option<(u64, u64)>, usize)>,
    /// an interrupted SHOW stored frames without rewriting the catalog entry
    catalog_may_lag: bool,
}

struct World {
    s: Session,
    root: PathBuf,
    cfg: SysCfg,
    ctxs: Vec<(String, usize)>, // (context name, shard)
    evs: BTreeMap<u64, EvRec>,
    next_key: u64,
    mem_keys: Vec<Vec<u64>>,
    mats: BTreeMap<usize, Mat>,
    toks: Vec<Tok>,
    obs: Vec<String>,
    fails: Vec<(String, String)>, // (class, detail)
    checks: u64,
    tallies: Vec<String>,
}

fn keys_of(r: &Reply) -> Vec<u64> {
    let mut v: Vec<u64> = r.col("k").iter().filter_map(|v| v.as_u64()).collect();
    v.sort();
    v
}
fn keys_str(v: &[u64]) -> String {
    let mut v = v.to_vec();
    v.sort();
    if v.is_empty() { "-".into() } else { v.iter().map(|k| k.to_string()).collect::<Vec<_>>().join(",") }
}
fn mark_str(m: Option<(u64, u64)>) -> String {
    match m {
        None => "none".into(),
        Some((a, b)) => format!("{a},{b}"),
    }
}
fn frames_str(fr: &[Vec<u64>]) -> String {
    if fr.is_empty() {
        "-".into()
    } else {
        fr.iter().map(|b| b.iter().map(|k| k.to_string()).collect::<Vec<_>>().join(",")).collect::<Vec<_>>().join(";")
    }
}

/// Frames (keys per frame, in manifest order) and catalog mark of materialisation `name`, read
/// from the files the engine wrote.
fn read_materialization(root: &Path, name: &str) -> Result<(Vec<Vec<u64>>, Option<(u64, u64)>), String> {
    use snel_db::engine::materialize::catalog::{entry_file_path, EntryFile};
    use snel_db::engine::materialize::MaterializedStore;
    let mroot = root.join("cols").join("materializations");
    let entry = EntryFile::new(entry_file_path(&mroot, name)).load().map_err(|e| format!("entry: {e:?}"))?;
    let store = MaterializedStore::open(mroot.join(name)).map_err(|e| format!("store: {e:?}"))?;
    let mut frames = vec![];
    for meta in store.frames().to_vec() {
        let b = store.read_frame(&meta).map_err(|e| format!("frame: {e:?}"))?;
        let idx = b.schema().columns().iter().position(|c| c.name == "k").ok_or("no k column")?;
        let col = b.column(idx).map_err(|e| format!("col: {e:?}"))?;
        frames.push(col.iter().filter_map(|v| v.as_u64()).collect::<Vec<u64>>());
    }
    Ok((frames, entry.high_water_mark.map(|m| (m.timestamp, m.event_id))))
}

fn lex_gt(a: (u64, u64), b: (u64, u64)) -> bool {
    a > b
}

impl World {
    fn start(root: &Path, cfg: &SysCfg, per_shard: usize) -> World {
        let _ = std::fs::remove_dir_all(root);
        let mut s = start_session(root, cfg);
        let r = s.cmd("DEFINE ev FIELDS { k: \"int\", x: \"int\" }");
        assert!(r.map(|r| r.ok()).unwrap_or(false), "DEFINE failed");
        // `per_shard` contexts per shard; within a shard the index order is the order of the names
        // (zones of a segment are laid out in context-id order)
        let mut per: Vec<Vec<String>> = vec![vec![]; cfg.shards];
        for i in 0..400 {
            let name = format!("c{i}");
            let sh = s.ctl(json!({"ctl":"route","ctx":name})).and_then(|v| v["shard"].as_u64()).expect("route") as usize;
            if per[sh].len() < per_shard {
                per[sh].push(name);
            }
            if per.iter().all(|p| p.len() == per_shard) {
                break;
            }
        }
        let mut ctxs = vec![];
        for p in per.iter_mut() {
            p.sort();
        }
        for (sh, names) in per.iter().enumerate() {
            for n in names {
                ctxs.push((n.clone(), sh));
            }
        }
        assert!(per.iter().all(|p| !p.is_empty()), "no context for some shard");
        let root = s.root.clone();
        World {
            s,
            root,
            cfg: cfg.clone(),
            ctxs,
            evs: BTreeMap::new(),
            next_key: 1,
            mem_keys: vec![vec![]; cfg.shards],
            mats: BTreeMap::new(),
            toks: vec![],
            obs: vec![],
            fails: vec![],
            checks: 0,
            tallies: vec![],
        }
    }
    fn tally(&mut self, k: &str) {
        self.tallies.push(k.to_string());
    }
    fn await_flush(&mut self) {
        let v = self.s.ctl(json!({"ctl":"await_flush"}));
        assert!(v.map(|v| v["ok"].as_bool().unwrap_or(false)).unwrap_or(false), "await_flush failed");
    }
    fn learn_ids(&mut self, r: &Reply) {
        let (ki, ii) = (r.columns.iter().position(|c| c == "k"), r.columns.iter().position(|c| c == "event_id"));
        if let (Some(ki), Some(ii)) = (ki, ii) {
            for row in &r.rows {
                if let (Some(k), Some(id)) = (row[ki].as_u64(), row[ii].as_u64()) {
                    if let Some(e) = self.evs.get_mut(&k) {
                        e.id = Some(id);
                    }
                }
            }
        }
    }
    fn pos(&self, k: u64) -> Option<(u64, u64)> {
        self.evs.get(&k).and_then(|e| e.id.map(|id| (e.ts, id)))
    }
    fn flush_tok(&mut self, shard: usize) {
        if !self.mem_keys[shard].is_empty() {
            self.toks.push(Tok::Raw(format!("F {shard}")));
            self.mem_keys[shard].clear();
        }
    }

    fn exec(&mut self, step: &Step) {
        self.tally(match step {
            Step::Store { .. } => "op:store",
            Step::Flush => "op:flush",
            Step::Compact(_) => "op:compact",
            Step::Restart => "op:restart",
            Step::Backdate => "op:backdate",
            Step::Remember { .. } => "op:remember",
            Step::RememberInWindow { .. } => "op:remember_in_window",
            Step::Show { .. } => "op:show",
            Step::Query { .. } => "op:query",
            Step::ShowBrokenPipe { .. } => "op:show_broken_pipe",
            Step::ShowCrash { .. } => "op:show_crash",
        });
        match step {
            Step::Store { ctx, x, ts, ms, nosync } => {
                let key = self.next_key;
                self.next_key += 1;
                let (cname, shard) = self.ctxs[*ctx].clone();
                self.s.ctl(json!({"ctl":"store_now","secs": BASE_TS + ts}));
                self.s.ctl(json!({"ctl":"id_clock","readings":[BASE_MS + ms]}));
                let r = self.s.cmd(&format!("STORE ev FOR {cname} PAYLOAD {{\"k\":{key},\"x\":{x}}}"));
                assert!(r.map(|r| r.ok()).unwrap_or(false), "STORE failed");
                // The id clock is global: the STORE must have been applied before the next reading is
                // scripted. A plain query as barrier would read while a rotated segment is half
                // written (reads in that state are a recorded C03 finding and, as seen while building
                // this check, leave per-segment caches without the event_id column: later reads get
                // synthetic ids); AwaitFlush goes through the same mailbox and reads nothing.
                if !*nosync {
                    self.await_flush();
                }
                self.evs.insert(key, EvRec { key, ts: BASE_TS + ts, ctx: *ctx, shard, x: *x, id: None });
                for m in self.mats.values_mut() {
                    m.late.insert(key, (m.mark, m.frames.len()));
                }
                self.toks.push(Tok::E(key));
                self.mem_keys[shard].push(key);
                if self.mem_keys[shard].len() >= self.cfg.capacity() {
                    self.flush_tok(shard);
                    self.tally("auto_flush");
                }
            }
            Step::Flush => {
                self.await_flush();
                let r = self.s.cmd("FLUSH");
                assert!(r.map(|r| r.ok()).unwrap_or(false), "FLUSH failed");
                for sh in 0..self.cfg.shards {
                    self.flush_tok(sh);
                }
            }
            Step::Compact(shard) => {
                self.await_flush();
                let v = self.s.compact(*shard);
                assert!(v.as_ref().map(|v| v["ok"].as_bool().unwrap_or(false)).unwrap_or(false), "compaction failed: {v:?}");
                let t0 = std::time::Instant::now();
                let rec = self.s.shard_data_dir(*shard).join(".reclaim");
                while rec.exists() && std::fs::read_dir(&rec).map(|d| d.count()).unwrap_or(0) > 0 && t0.elapsed().as_millis() < 3000 {
                    std::thread::sleep(std::time::Duration::from_millis(5));
                }
                if v.map(|v| v["ran"].as_bool().unwrap_or(false)).unwrap_or(false) {
                    self.tally("compaction_ran");
                }
                self.toks.push(Tok::Raw(format!("C {shard}")));
            }
            Step::Restart => {
                self.await_flush();
                let ok = self.s.shutdown();
                assert!(ok, "shutdown reported errors");
                self.s = start_session(&self.root, &self.cfg);
                for sh in 0..self.cfg.shards {
                    self.flush_tok(sh);
                }
            }
            Step::Backdate => {
                self.await_flush();
                let n = backdate(&self.root, self.cfg.shards);
                if n > 0 {
                    self.tally("backdated_files");
                }
                self.toks.push(Tok::Raw("B".into()));
            }
            Step::Remember { name, spec } => {
                self.await_flush();
                self.remember_nowait(*name, spec);
            }
            Step::RememberInWindow { name, spec, ctx, x, ts, ms } => {
                self.await_flush();
                let (cname, shard) = self.ctxs[*ctx].clone();
                let mut n = 0u64;
                loop {
                    let key = self.next_key;
                    self.next_key += 1;
                    self.s.ctl(json!({"ctl":"store_now","secs": BASE_TS + ts}));
                    self.s.ctl(json!({"ctl":"id_clock","readings":[BASE_MS + ms + n]}));
                    n += 1;
                    let r = self.s.cmd(&format!("STORE ev FOR {cname} PAYLOAD {{\"k\":{key},\"x\":{x}}}"));
                    assert!(r.map(|r| r.ok()).unwrap_or(false), "STORE failed");
                    self.evs.insert(key, EvRec { key, ts: BASE_TS + ts, ctx: *ctx, shard, x: *x, id: None });
                    for m in self.mats.values_mut() {
                        m.late.insert(key, (m.mark, m.frames.len()));
                    }
                    self.toks.push(Tok::E(key));
                    self.mem_keys[shard].push(key);
                    if self.mem_keys[shard].len() >= self.cfg.capacity() {
                        break; // this STORE rotates the memtable: no barrier, REMEMBER follows at once
                    }
                    self.await_flush();
                }
                self.flush_tok(shard);
                self.tally("remember_without_harness_barrier");
                self.remember_nowait(*name, spec);
            }
            Step::Show { name, twice, barrier } => {
                if *barrier {
                    self.await_flush();
                } else {
                    self.tally("show_without_harness_barrier");
                }
                let first = self.show_once(*name);
                // the same query, back to back
                if let Some(spec) = self.mats.get(name).map(|m| m.spec.clone()) {
                    let q = self.query(&spec);
                    if let Some(rows) = &first {
                        self.judge_show(*name, rows, &q);
                    }
                }
                if *twice {
                    let second = self.show_once(*name);
                    if let (Some(a), Some(b)) = (&first, &second) {
                        self.checks += 1;
                        if a != b {
                            let class = "-";
                            self.fails.push((class.into(), format!("SHOW m{name} repeated without new data: {} then {}", keys_str(a), keys_str(b))));
                        } else {
                            self.tally("idempotent_ok");
                        }
                    }
                }
            }
            Step::Query { spec } => {
                let _ = self.query(spec);
            }
            Step::ShowBrokenPipe { name } => {
                self.await_flush();
                let mname = format!("m{name}");
                let v = self.s.ctl(json!({"ctl":"show_cut","name":mname,"mode":"pipe"})).expect("child died");
                assert!(v["ok"].as_bool().unwrap_or(false), "show_cut failed: {v}");
                self.after_cut_show(*name);
            }
            Step::ShowCrash { name } => {
                // everything durable in segments first (a kill loses what only the memtable holds:
                // C01's subject, not this check's)
                self.await_flush();
                let r = self.s.cmd("FLUSH");
                assert!(r.map(|r| r.ok()).unwrap_or(false), "FLUSH failed");
                for sh in 0..self.cfg.shards {
                    self.flush_tok(sh);
                }
                let mname = format!("m{name}");
                let known = self.mats.contains_key(name);
                let v = self.s.ctl(json!({"ctl":"show_cut","name":mname,"mode":"abort"}));
                if known {
                    assert!(v.is_none(), "the child survived a SHOW into the aborting writer: {v:?}");
                }
                if v.is_none() {
                    self.tally("show_killed");
                    self.s = start_session(&self.root, &self.cfg);
                }
                self.after_cut_show(*name);
            }
        }
    }

    /// REMEMBER (no harness barrier here; callers decide)
    fn remember_nowait(&mut self, name: usize, spec: &Spec) {
                let mname = format!("m{name}");
                let before = self.mats.get(&name).map(|m| (m.frames.clone(), m.mark));
                let r = self.s.cmd(&format!("REMEMBER {} AS {mname}", spec.text(&self.ctxs))).expect("child died");
                let line;
                let mut frs = String::from("-");
                if r.ok() {
                    let (frames, mark) = read_materialization(&self.root, &mname).expect("read materialization");
                    frs = frames_str(&frames);
                    line = format!("rem:ok mark={}", mark_str(mark));
                    self.checks += 1;
                    if before.is_some() {
                        self.fails.push(("-".into(), format!("REMEMBER under existing name {mname} succeeded")));
                    }
                    // oracle: the stored rows are the live selection
                    let want: Vec<u64> = self.evs.values().filter(|e| spec.matches(e)).map(|e| e.key).collect();
                    let got: Vec<u64> = frames.iter().flatten().copied().collect();
                    if keys_str(&want) != keys_str(&got) {
                        // (a surplus copy of rows was finding C14-remember-in-flush-window, fixed by f1fe52c)
                        self.fails.push(("-".into(), format!("REMEMBER {mname} stored {} but the selection is {}", keys_str(&got), keys_str(&want))));
                    }
                    self.mats.insert(name, Mat { spec: spec.clone(), frames, mark, stored_above_mark: BTreeSet::new(), late: BTreeMap::new(), catalog_may_lag: false });
                } else if r.message.contains("already exists") {
                    line = "rem:dup".to_string();
                    self.checks += 1;
                    self.tally("remember_duplicate");
                    match before {
                        None => self.fails.push(("-".into(), format!("REMEMBER {mname} rejected as duplicate but the name is new"))),
                        Some((f, m)) => {
                            let (frames, mark) = read_materialization(&self.root, &mname).expect("read materialization");
                            if frames != f || mark != m {
                                self.fails.push(("-".into(), format!("rejected REMEMBER {mname} changed the stored materialisation")));
                            }
                        }
                    }
                } else {
                    line = format!("rem:err {}", r.status_class());
                    self.fails.push(("-".into(), format!("REMEMBER {mname} failed: {}", r.message)));
                }
                self.toks.push(Tok::Raw(format!("REM {name} {} {} {frs}", spec.toks(), 1)));
                self.obs.push(line);
                self.note_marks(name);
    }

    /// after REMEMBER / SHOW: which stored rows are above the mark that was left?
    fn note_marks(&mut self, name: usize) {
        // ids of rows stored are known only from queries: learn them now
        self.await_flush();
        let r = self.s.cmd("QUERY ev RETURN [k]").expect("child died");
        self.learn_ids(&r);
        let Some(m) = self.mats.get(&name) else { return };
        if m.catalog_may_lag {
            // after an interrupted SHOW the catalog entry legitimately lags behind the manifest
            return;
        }
        let mk = m.mark.unwrap_or((0, 0));
        let mut above = vec![];
        for k in m.frames.iter().flatten() {
            if let Some(p) = self.pos(*k) {
                if lex_gt(p, mk) {
                    above.push(*k);
                }
            }
        }
        if !above.is_empty() {
            // was finding C14-mark-from-last-frame (fixed by 60e3c76): a recurrence is a violation
            let mk = mark_str(m.mark);
            self.tally("mark_left_below_stored_row");
            self.fails.push(("-".into(), format!("m{name}: mark {mk} left below stored rows {above:?}")));
        }
        let m = self.mats.get_mut(&name).unwrap();
        m.stored_above_mark.extend(above);
    }

    /// bookkeeping after an interrupted SHOW: frames may have been appended, the catalog entry is
    /// whatever it was
    fn after_cut_show(&mut self, name: usize) {
        let mname = format!("m{name}");
        if !self.mats.contains_key(&name) {
            self.toks.push(Tok::Raw(format!("CUT {name} -")));
            self.obs.push("cut:unknown".into());
            return;
        }
        let (frames, mark) = read_materialization(&self.root, &mname).expect("read materialization");
        let old = self.mats[&name].frames.len();
        let newf: Vec<Vec<u64>> = frames[old.min(frames.len())..].to_vec();
        if frames.len() < old || frames[..old] != self.mats[&name].frames[..] {
            self.fails.push(("-".into(), format!("interrupted SHOW {mname}: stored frames changed")));
        }
        if !newf.is_empty() {
            self.tally("cut_show_stored_frames");
            self.mats.get_mut(&name).unwrap().catalog_may_lag = true;
        }
        if mark != self.mats[&name].mark {
            self.tally("cut_show_updated_catalog");
        }
        self.toks.push(Tok::Raw(format!("CUT {name} {}", frames_str(&newf))));
        self.obs.push(format!("cut:mark={}", mark_str(mark)));
        let m = self.mats.get_mut(&name).unwrap();
        m.frames = frames;
        m.mark = mark;
        // note: the catalog mark may now be below stored rows; what matters is the manifest's
        self.learn_all_ids();
    }

    /// lexicographic maximum over the frames of (max second, max id) of the frame
    fn manifest_mark(&self, frames: &[Vec<u64>]) -> (u64, u64) {
        let mut mk = (0u64, 0u64);
        for f in frames {
            let (mut t, mut i) = (0u64, 0u64);
            for k in f {
                if let Some((a, b)) = self.pos(*k) {
                    t = t.max(a);
                    i = i.max(b);
                }
            }
            if (t, i) > mk {
                mk = (t, i);
            }
        }
        mk
    }

    fn learn_all_ids(&mut self) {
        self.await_flush();
        let r = self.s.cmd("QUERY ev RETURN [k]").expect("child died");
        self.learn_ids(&r);
    }

    fn show_once(&mut self, name: usize) -> Option<Vec<u64>> {
        let mname = format!("m{name}");
        let r = self.s.cmd(&format!("SHOW {mname}")).expect("child died");
        if !r.ok() {
            self.checks += 1;
            if self.mats.contains_key(&name) {
                self.fails.push(("-".into(), format!("SHOW {mname} failed: {}", r.message)));
                self.obs.push(format!("show:err {}", r.status_class()));
            } else {
                self.obs.push("show:unknown".into());
                self.tally("show_unknown");
            }
            self.toks.push(Tok::Raw(format!("SHOW {name} -")));
            return None;
        }
        if !self.mats.contains_key(&name) {
            self.fails.push(("-".into(), format!("SHOW {mname} of a name never remembered succeeded")));
            self.obs.push("show:ok?".into());
            self.toks.push(Tok::Raw(format!("SHOW {name} -")));
            return None;
        }
        self.learn_ids(&r);
        let rows = keys_of(&r);
        let (frames, mark) = read_materialization(&self.root, &mname).expect("read materialization");
        let old = self.mats[&name].frames.len();
        let newf: Vec<Vec<u64>> = frames[old.min(frames.len())..].to_vec();
        if frames.len() < old || frames[..old] != self.mats[&name].frames[..] {
            self.fails.push(("-".into(), format!("SHOW {mname}: stored frames changed")));
        }
        if !newf.is_empty() {
            self.tally(&format!("delta_frames={}", newf.len().min(3)));
        }
        self.toks.push(Tok::Raw(format!("SHOW {name} {}", frames_str(&newf))));
        self.obs.push(format!("show:{} mark={}", keys_str(&rows), mark_str(mark)));
        {
            let m = self.mats.get_mut(&name).unwrap();
            m.frames = frames;
            m.mark = mark;
        }
        self.note_marks(name);
        Some(rows)
    }

    fn query(&mut self, spec: &Spec) -> Vec<u64> {
        self.await_flush();
        let r = self.s.cmd(&spec.text(&self.ctxs)).expect("child died");
        assert!(r.ok(), "QUERY failed: {}", r.raw);
        self.learn_ids(&r);
        let rows = keys_of(&r);
        self.toks.push(Tok::Raw(format!("Q {}", spec.toks())));
        self.obs.push(format!("q:{}", keys_str(&rows)));
        // sanity of the reference itself: the live query against brute force
        let want: Vec<u64> = self.evs.values().filter(|e| spec.matches(e)).map(|e| e.key).collect();
        self.checks += 1;
        if keys_str(&want) != keys_str(&rows) {
            self.fails.push(("-".into(), format!("QUERY {} returned {} but the applied selection is {}", spec.text(&self.ctxs), keys_str(&rows), keys_str(&want))));
        }
        rows
    }

    /// keys(SHOW) = keys(QUERY) as multisets; classify departures
    fn judge_show(&mut self, name: usize, show: &[u64], query: &[u64]) {
        self.checks += 1;
        let mut cs: BTreeMap<u64, i64> = BTreeMap::new();
        for k in show {
            *cs.entry(*k).or_insert(0) += 1;
        }
        for k in query {
            *cs.entry(*k).or_insert(0) -= 1;
        }
        let extra: Vec<u64> = cs.iter().filter(|(_, c)| **c > 0).map(|(k, _)| *k).collect();
        let missing: Vec<u64> = cs.iter().filter(|(_, c)| **c < 0).map(|(k, _)| *k).collect();
        if extra.is_empty() && missing.is_empty() {
            self.tally("show_eq_query");
            return;
        }
        let m = &self.mats[&name];
        let mut classes: BTreeSet<String> = BTreeSet::new();
        for k in &extra {
            // shown more often than applied: no open finding explains that any more
            let _ = k;
            classes.insert("-".into());
        }
        for k in &missing {
            // never shown: explained iff it was applied after a mark it is not above
            let c = match (m.late.get(k), self.pos(*k)) {
                (Some((_catalog_mark_then, nframes)), Some(p)) => {
                    // the mark the delta filter uses is the manifest's: the running maximum of the
                    // frame marks (= the catalog's unless a SHOW was interrupted)
                    let mk = self.manifest_mark(&m.frames[..*nframes]);
                    if lex_gt(p, mk) {
                        "-"
                    } else {
                        let below_a_row = m.frames[..*nframes].iter().flatten().any(|r| self.pos(*r).map(|q| !lex_gt(p, q)).unwrap_or(false));
                        if below_a_row { "late-row-below-stored-row" } else { "componentwise-mark" }
                    }
                }
                _ => "-",
            };
            classes.insert(c.into());
        }
        let detail = format!(
            "SHOW m{name} = {} but QUERY = {} (extra {:?}, missing {:?}); marks/frames: {} / {}",
            keys_str(show),
            keys_str(query),
            extra,
            missing,
            mark_str(m.mark),
            frames_str(&m.frames)
        );
        for c in classes {
            self.fails.push((c, detail.clone()));
        }
    }

    fn line(&mut self) -> String {
        // every id must be known by now
        self.await_flush();
        let r = self.s.cmd("QUERY ev RETURN [k]").expect("child died");
        self.learn_ids(&r);
        let mut s = String::from("show");
        for t in &self.toks {
            s.push_str(" | ");
            match t {
                Tok::Raw(x) => s.push_str(x),
                Tok::E(k) => {
                    let e = &self.evs[k];
                    match e.id {
                        Some(id) => s.push_str(&format!("E {} {} {} {} {} {}", e.key, e.ts, id, e.shard, e.ctx, e.x)),
                        None => {
                            s.push_str(&format!("E {} {} ? {} {} {}", e.key, e.ts, e.shard, e.ctx, e.x));
                            self.fails.push(("-".into(), format!("event k={} was acknowledged but never returned by any query", e.key)));
                        }
                    }
                }
            }
        }
        s
    }
}

/// Sets the modification time of every `<uid>.zones` file to the largest `timestamp_max` of its
/// zones: the oldest time that is still truthful for a file written in that very second.
fn backdate(root: &Path, shards: usize) -> usize {
    use snel_db::engine::core::zone::zone_meta::ZoneMeta;
    let mut n = 0;
    for sh in 0..shards {
        let dir = root.join("cols").join(format!("shard-{sh}"));
        let Ok(rd) = std::fs::read_dir(&dir) else { continue };
        for seg in rd.flatten() {
            if !seg.path().is_dir() {
                continue;
            }
            let Ok(files) = std::fs::read_dir(seg.path()) else { continue };
            for f in files.flatten() {
                let p = f.path();
                if p.extension().map(|e| e == "zones").unwrap_or(false) {
                    if let Ok(metas) = ZoneMeta::load(&p) {
                        if let Some(mx) = metas.iter().map(|m| m.timestamp_max).max() {
                            if let Ok(file) = std::fs::OpenOptions::new().write(true).open(&p) {
                                let t = std::time::UNIX_EPOCH + std::time::Duration::from_secs(mx);
                                if file.set_modified(t).is_ok() {
                                    n += 1;
                                }
                            }
                        }
                    }
                }
            }
        }
    }
    n
}

// ------------------------------------------------------------------------------ generation

fn gen_spec(r: &mut Rng, nctx: usize, tmax: u64) -> Spec {
    let ctx = if r.chance(1, 4) { Some(r.below(nctx as u64) as usize) } else { None };
    let cmp = match r.below(6) {
        0 | 1 => None,
        2 => Some((Cmp::Eq, r.below(3))),
        3 => Some((Cmp::Ge, 1 + r.below(2))),
        4 => Some((Cmp::Le, r.below(2))),
        _ => Some((if r.chance(1, 2) { Cmp::Gt } else { Cmp::Lt }, 1)),
    };
    let since = if r.chance(1, 4) { Some(r.below(tmax + 2)) } else { None };
    Spec { ctx, cmp, since }
}

struct Clock {
    ts: u64,
    ms: u64,
    /// per shard: last ms used (the generator of a shard pins a smaller reading to it)
    used: Vec<Vec<u64>>,
}

/// Histories that put already materialised rows and late rows into ONE segment, the old rows
/// under the larger context ids: rows of earlier seconds sit in the memtable (or in an older
/// segment) at REMEMBER / SHOW time, later seconds arrive on smaller context ids, then a FLUSH
/// (and sometimes a compaction round) writes them together, then SHOW.
fn gen_mixed_segment(r: &mut Rng, cfg: &SysCfg, per_shard: usize) -> Vec<Step> {
    let mut steps = vec![];
    let shard = r.below(cfg.shards as u64) as usize;
    let base = shard * per_shard;
    let (mut ts, mut ms) = (1 + r.below(3), 10 + r.below(20));
    let spec = if r.chance(2, 3) { Spec { ctx: None, cmp: None, since: None } } else { Spec { ctx: None, cmp: Some((Cmp::Ge, 1)), since: None } };
    // old rows: larger context ids, at least two distinct seconds (the mark's second must be
    // strictly after the oldest zone)
    let nold = 2 + r.below(2);
    for i in 0..nold {
        let ctx = if i == 0 || r.chance(1, 4) { base + per_shard - 1 } else { base + per_shard - 2 };
        ts += 1;
        ms += 1 + r.below(5);
        steps.push(Step::Store { ctx, x: 1 + r.below(2), ts, ms, nosync: false });
    }
    let flushed_before = r.chance(1, 3);
    if flushed_before {
        steps.push(Step::Flush);
    }
    steps.push(Step::Remember { name: 0, spec: spec.clone() });
    let rounds = 1 + r.below(3);
    for _ in 0..rounds {
        for _ in 0..(1 + r.below(2)) {
            ts += 1 + r.below(2);
            ms += 1 + r.below(5);
            let ctx = base + r.below((per_shard - 1) as u64) as usize; // smaller context ids
            steps.push(Step::Store { ctx, x: 1 + r.below(2), ts, ms, nosync: false });
        }
        if r.chance(4, 5) {
            steps.push(Step::Flush);
        }
        if r.chance(1, 2) {
            steps.push(Step::Compact(shard));
        }
        if r.chance(1, 4) {
            steps.push(Step::Backdate);
        }
        if r.chance(1, 5) {
            steps.push(if r.chance(2, 3) { Step::ShowBrokenPipe { name: 0 } } else { Step::ShowCrash { name: 0 } });
        }
        steps.push(Step::Show { name: 0, twice: r.chance(1, 2), barrier: true });
        // an old-second row on the largest context again, so that the next segment's last zone is old
        if r.chance(1, 2) {
            ms += 1 + r.below(5);
            steps.push(Step::Store { ctx: base + per_shard - 1, x: 1, ts: ts.saturating_sub(1).max(1), ms, nosync: false });
        }
    }
    steps
}

fn gen_history(r: &mut Rng, cfg: &SysCfg, nctx_per_shard: usize) -> Vec<Step> {
    let nctx = cfg.shards * nctx_per_shard;
    let mut steps = vec![];
    let mut clk = Clock { ts: 1 + r.below(3), ms: 10 + r.below(50), used: vec![vec![]; cfg.shards] };
    let monotone_only = r.chance(1, 4); // a share of histories with strictly monotone clocks
    let store = |r: &mut Rng, clk: &mut Clock, steps: &mut Vec<Step>| {
        let ctx = r.below(nctx as u64) as usize;
        let shard = ctx / nctx_per_shard;
        // wall-clock second: mostly the same or the next, sometimes one back (handlers race)
        match r.below(10) {
            0..=4 => {}
            5..=7 => clk.ts += 1,
            8 => clk.ts += 1 + r.below(3),
            _ => {
                if !monotone_only && clk.ts > 1 {
                    clk.ts -= 1
                }
            }
        }
        // id clock: mostly later; sometimes the very millisecond another shard used, or earlier
        let ms = match r.below(10) {
            0..=5 => {
                clk.ms += 1 + r.below(4);
                clk.ms
            }
            6 | 7 if !monotone_only => {
                let others: Vec<u64> = clk.used.iter().enumerate().filter(|(s, _)| *s != shard).flat_map(|(_, v)| v.iter().copied()).collect();
                if others.is_empty() {
                    clk.ms += 1;
                    clk.ms
                } else {
                    *r.pick(&others)
                }
            }
            8 if !monotone_only => clk.ms.saturating_sub(r.below(6)),
            _ => {
                clk.ms += 1;
                clk.ms
            }
        };
        clk.used[shard].push(ms);
        steps.push(Step::Store { ctx, x: r.below(3), ts: clk.ts, ms, nosync: false });
    };
    let layout = |r: &mut Rng, steps: &mut Vec<Step>| match r.below(10) {
        0..=3 => steps.push(Step::Flush),
        4 | 5 => steps.push(Step::Compact(r.below(cfg.shards as u64) as usize)),
        6 => steps.push(Step::Restart),
        7 | 8 => steps.push(Step::Backdate),
        _ => {
            steps.push(Step::Flush);
            steps.push(Step::Compact(r.below(cfg.shards as u64) as usize));
        }
    };
    // before REMEMBER
    for _ in 0..r.below(6) {
        store(r, &mut clk, &mut steps);
        if r.chance(1, 5) {
            layout(r, &mut steps);
        }
    }
    let nmats = 1 + r.below(2) as usize;
    if r.chance(1, 8) {
        let ctx = r.below(nctx as u64) as usize;
        clk.ms += 10;
        steps.push(Step::RememberInWindow { name: 0, spec: gen_spec(r, nctx, clk.ts), ctx, x: r.below(3), ts: clk.ts, ms: clk.ms });
        clk.ms += 10;
    } else {
        steps.push(Step::Remember { name: 0, spec: gen_spec(r, nctx, clk.ts) });
    }
    let rounds = 2 + r.below(4);
    for round in 0..rounds {
        for _ in 0..r.below(4) {
            store(r, &mut clk, &mut steps);
            if r.chance(1, 4) {
                layout(r, &mut steps);
            }
        }
        if nmats > 1 && round == 1 {
            steps.push(Step::Remember { name: 1, spec: gen_spec(r, nctx, clk.ts) });
        }
        if r.chance(1, 8) {
            steps.push(Step::Remember { name: 0, spec: gen_spec(r, nctx, clk.ts) }); // existing name
        }
        if r.chance(1, 12) {
            steps.push(Step::Show { name: 7, twice: false, barrier: true }); // unknown name
        }
        let name = if nmats > 1 && round >= 1 && r.chance(1, 2) { 1 } else { 0 };
        // an earlier SHOW that stored its delta and never rewrote the catalog entry
        match r.below(12) {
            0 | 1 => steps.push(Step::ShowBrokenPipe { name }),
            2 => steps.push(Step::ShowCrash { name }),
            3 => {
                steps.push(Step::ShowBrokenPipe { name });
                steps.push(Step::ShowBrokenPipe { name });
            }
            _ => {}
        }
        steps.push(Step::Show { name, twice: r.chance(1, 2), barrier: r.chance(1, 2) });
        if r.chance(1, 6) {
            steps.push(Step::Query { spec: gen_spec(r, nctx, clk.ts) });
        }
    }
    steps
}

// the ms value after a restart must exceed every earlier one (generator state is not
// persisted: finding C12-dup-id-after-restart / C18); enforced here, not generated around
/// The STORE right before a SHOW that relies on its own AwaitFlush barrier is not followed by a
/// harness barrier (so that the flush it may trigger is still in flight when SHOW starts).
fn mark_nosync(steps: &mut [Step]) {
    for i in 0..steps.len().saturating_sub(1) {
        if let Step::Show { barrier: false, .. } = steps[i + 1] {
            if let Step::Store { nosync, .. } = &mut steps[i] {
                *nosync = true;
            }
        }
    }
}

fn fix_restart_clock(steps: &mut [Step]) {
    let mut maxms = 0u64;
    let mut floor = 0u64;
    for s in steps.iter_mut() {
        match s {
            Step::Restart | Step::ShowCrash { .. } => floor = maxms + 1,
            Step::Store { ms, .. } => {
                if *ms < floor {
                    *ms = floor;
                    floor += 1;
                }
                maxms = maxms.max(*ms);
            }
            Step::RememberInWindow { ms, .. } => {
                if *ms < floor {
                    *ms = floor;
                }
                maxms = maxms.max(*ms + 8);
                floor = floor.max(*ms + 8);
            }
            _ => {}
        }
    }
}

fn run_case(st: &mut Stream, i: u64, root: &Path, cfg: &SysCfg, per_shard: usize, steps: &[Step], label: &str) -> (Vec<(String, String)>, Vec<String>) {
    let mut w = World::start(root, cfg, per_shard);
    for s in steps {
        w.exec(s);
    }
    let line = w.line();
    let obs = if w.obs.is_empty() { "-".to_string() } else { w.obs.join(" ; ") };
    let nontrivial = w.mats.values().any(|m| !m.frames.is_empty()) && w.obs.iter().any(|o| o.starts_with("show:"));
    st.case(&line, &obs, nontrivial);
    for t in &w.tallies {
        st.tally(t);
    }
    st.tally(&format!("shards={}", cfg.shards));
    st.tally_n("stores", w.evs.len() as u64);
    st.tally_n("checks", w.checks);
    let fails = w.fails.clone();
    if fails.is_empty() {
        st.oracle_ok();
    } else {
        let mut seen = BTreeSet::new();
        for (class, detail) in &fails {
            if seen.insert(class.clone()) {
                st.tally(&format!("class:{class}"));
                st.oracle_fail(i, class, &format!("[{label}] {detail} ;; history: {line}"));
            }
        }
    }
    let tl = w.tallies.clone();
    drop(w);
    if std::env::var("KEEP").is_err() {
        let _ = std::fs::remove_dir_all(root);
    }
    (fails, tl)
}

/// Scripted histories that replay the Lean witnesses on the real engine.
fn witnesses() -> Vec<(&'static str, SysCfg, usize, Vec<Step>)> {
    let all = Spec { ctx: None, cmp: None, since: None };
    let big = SysCfg { shards: 2, event_per_zone: 4, fill_factor: 4, ..Default::default() };
    let one = SysCfg { shards: 1, event_per_zone: 2, fill_factor: 1, ..Default::default() };
    // contexts: index = shard * 2 + j
    vec![
        // C14_show_eq_query_fails: same second, other shard, smaller id (same millisecond, lower shard)
        (
            "same-second-other-shard",
            big.clone(),
            2,
            vec![
                Step::Store { ctx: 2, x: 1, ts: 5, ms: 100, nosync: false },
                Step::Remember { name: 0, spec: all.clone() },
                Step::Store { ctx: 0, x: 1, ts: 5, ms: 100, nosync: false },
                Step::Show { name: 0, twice: true, barrier: true },
            ],
        ),
        // regression case of the repaired finding C14-mark-from-last-frame (Lean:
        // C14_last_frame_regression): ONE shard, monotone clocks; two events flushed, one in the
        // memtable; the memtable batch arrives first, the segment batch last. Must hold.
        (
            "last-frame-one-shard",
            one.clone(),
            2,
            vec![
                Step::Store { ctx: 0, x: 1, ts: 1, ms: 10, nosync: false },
                Step::Store { ctx: 0, x: 1, ts: 2, ms: 20, nosync: false },
                Step::Store { ctx: 0, x: 1, ts: 3, ms: 30, nosync: false },
                Step::Remember { name: 0, spec: all.clone() },
                Step::Show { name: 0, twice: true, barrier: true },
                Step::Show { name: 0, twice: false, barrier: true },
            ],
        ),
        // C14_show_eq_query_fails_componentwise: (9, id 50) and (8, id 70) in one batch, then (9, id 60)
        (
            "componentwise-mark",
            big.clone(),
            2,
            vec![
                Step::Store { ctx: 2, x: 1, ts: 9, ms: 50, nosync: false },
                Step::Store { ctx: 2, x: 1, ts: 8, ms: 70, nosync: false },
                Step::Remember { name: 0, spec: all.clone() },
                Step::Store { ctx: 0, x: 1, ts: 9, ms: 70, nosync: false },
                Step::Show { name: 0, twice: false, barrier: true },
            ],
        ),
        // the event with the high-water second on the SAME shard is shown (ids are monotone there)
        (
            "same-second-same-shard-ok",
            big.clone(),
            2,
            vec![
                Step::Store { ctx: 0, x: 1, ts: 5, ms: 100, nosync: false },
                Step::Remember { name: 0, spec: all.clone() },
                Step::Store { ctx: 1, x: 1, ts: 5, ms: 100, nosync: false },
                Step::Store { ctx: 0, x: 1, ts: 5, ms: 101, nosync: false },
                Step::Show { name: 0, twice: true, barrier: true },
            ],
        ),
        // a STORE stamped in the previous second by a racing connection handler reaches the shard after
        // the SHOW (one shard, ids monotone): its second is below the mark's second
        (
            "earlier-second-late-arrival",
            one.clone(),
            2,
            vec![
                Step::Store { ctx: 0, x: 1, ts: 6, ms: 10, nosync: false },
                Step::Remember { name: 0, spec: all.clone() },
                Step::Store { ctx: 0, x: 1, ts: 5, ms: 20, nosync: false },
                Step::Show { name: 0, twice: true, barrier: true },
            ],
        ),
        // regression case (same finding): REMEMBER with data on two shards in either arrival order
        (
            "two-shards-remember",
            big.clone(),
            2,
            vec![
                Step::Store { ctx: 0, x: 1, ts: 10, ms: 10, nosync: false },
                Step::Store { ctx: 2, x: 1, ts: 5, ms: 20, nosync: false },
                Step::Remember { name: 0, spec: all.clone() },
                Step::Show { name: 0, twice: true, barrier: true },
            ],
        ),
        // regression case of the repaired finding C14-remember-in-flush-window (Lean:
        // C14_remember_waits_for_flush): REMEMBER right behind the STORE that rotates the memtable
        (
            "remember-behind-rotation",
            one.clone(),
            2,
            vec![
                Step::RememberInWindow { name: 0, spec: all.clone(), ctx: 0, x: 1, ts: 3, ms: 10 },
                Step::Show { name: 0, twice: true, barrier: true },
            ],
        ),
        // Zones of a segment are in context order, not in time order: zz-old (second 1) and mm-mid
        // (second 2) are in the memtable at REMEMBER, aa-late (second 3) joins them, one FLUSH writes
        // the segment [aa-late | mm-mid | zz-old]; its LAST zone ends before the mark's second, an
        // earlier zone holds the row above the mark (Lean: C14_segment_guard_last_zone_fails). Must hold.
        (
            "late-row-in-earlier-zone",
            SysCfg { shards: 1, event_per_zone: 1, fill_factor: 4, ..Default::default() },
            3,
            vec![
                Step::Store { ctx: 2, x: 1, ts: 1, ms: 10, nosync: false },
                Step::Store { ctx: 1, x: 1, ts: 2, ms: 20, nosync: false },
                Step::Remember { name: 0, spec: all.clone() },
                Step::Store { ctx: 0, x: 1, ts: 3, ms: 30, nosync: false },
                Step::Flush,
                Step::Show { name: 0, twice: true, barrier: true },
            ],
        ),
        // the same layout produced by a compaction round that merges an old and a new segment
        (
            "late-row-in-earlier-zone-compacted",
            SysCfg { shards: 1, event_per_zone: 1, fill_factor: 4, segments_per_merge: 2, ..Default::default() },
            3,
            vec![
                Step::Store { ctx: 2, x: 1, ts: 1, ms: 10, nosync: false },
                Step::Store { ctx: 1, x: 1, ts: 2, ms: 20, nosync: false },
                Step::Flush,
                Step::Remember { name: 0, spec: all.clone() },
                Step::Store { ctx: 0, x: 1, ts: 3, ms: 30, nosync: false },
                Step::Flush,
                Step::Compact(0),
                Step::Show { name: 0, twice: true, barrier: true },
            ],
        ),
        // two rows per zone: [aa-late, mm-mid | zz-old, zz-old]; the fourth STORE rotates the memtable
        (
            "late-row-in-earlier-zone-epz2",
            SysCfg { shards: 1, event_per_zone: 2, fill_factor: 2, ..Default::default() },
            3,
            vec![
                Step::Store { ctx: 2, x: 1, ts: 1, ms: 10, nosync: false },
                Step::Store { ctx: 2, x: 1, ts: 1, ms: 20, nosync: false },
                Step::Store { ctx: 1, x: 1, ts: 2, ms: 30, nosync: false },
                Step::Remember { name: 0, spec: all.clone() },
                Step::Store { ctx: 0, x: 1, ts: 3, ms: 40, nosync: false },
                Step::Show { name: 0, twice: true, barrier: true },
            ],
        ),
        // an earlier SHOW stored its delta but its client had gone: the catalog entry lags behind the
        // manifest; the next SHOW must not fetch the stored rows again
        (
            "show-after-broken-pipe",
            SysCfg { shards: 2, event_per_zone: 2, fill_factor: 2, ..Default::default() },
            2,
            vec![
                Step::Store { ctx: 0, x: 1, ts: 1, ms: 10, nosync: false },
                Step::Store { ctx: 2, x: 1, ts: 1, ms: 20, nosync: false },
                Step::Remember { name: 0, spec: all.clone() },
                Step::Store { ctx: 0, x: 1, ts: 2, ms: 30, nosync: false },
                Step::Store { ctx: 2, x: 1, ts: 3, ms: 40, nosync: false },
                Step::ShowBrokenPipe { name: 0 },
                Step::Show { name: 0, twice: true, barrier: true },
                Step::Store { ctx: 0, x: 1, ts: 4, ms: 50, nosync: false },
                Step::Show { name: 0, twice: true, barrier: true },
            ],
        ),
        // the same with the process killed between the last frame append and the catalog update
        (
            "show-after-crash-before-catalog-update",
            SysCfg { shards: 2, event_per_zone: 2, fill_factor: 2, ..Default::default() },
            2,
            vec![
                Step::Store { ctx: 0, x: 1, ts: 1, ms: 10, nosync: false },
                Step::Store { ctx: 2, x: 1, ts: 1, ms: 20, nosync: false },
                Step::Flush,
                Step::Remember { name: 0, spec: all.clone() },
                Step::Store { ctx: 0, x: 1, ts: 2, ms: 30, nosync: false },
                Step::Store { ctx: 2, x: 1, ts: 3, ms: 40, nosync: false },
                Step::ShowCrash { name: 0 },
                Step::Show { name: 0, twice: true, barrier: true },
                Step::Store { ctx: 0, x: 1, ts: 4, ms: 1000, nosync: false },
                Step::Show { name: 0, twice: true, barrier: true },
            ],
        ),
        // duplicate name, unknown name
        (
            "names",
            one.clone(),
            2,
            vec![
                Step::Store { ctx: 0, x: 1, ts: 1, ms: 10, nosync: false },
                Step::Remember { name: 0, spec: all.clone() },
                Step::Remember { name: 0, spec: Spec { ctx: None, cmp: Some((Cmp::Eq, 2)), since: None } },
                Step::Show { name: 3, twice: false, barrier: true },
                Step::Show { name: 0, twice: false, barrier: true },
            ],
        ),
    ]
}

// ------------------------------------------------------------------------------ own child
//
// Private copy of the session child of harness/src/sys.rs (same JSON line protocol, so the parent
// side `Session` is used unchanged) with one more request: `{"ctl":"show_cut","name":..,"mode":..}`
// runs `SHOW name` through the public dispatcher into a response writer that fails
// (`pipe`: every write returns BrokenPipe — the client went away) or kills the process at the
// first byte pushed to the socket (`abort`). SHOW buffers its response (64 KiB) and touches the
// writer only in its final flush: after every delta frame and the manifest are durable, before
// the catalog entry is rewritten.

struct BrokenPipe;
impl tokio::io::AsyncWrite for BrokenPipe {
    fn poll_write(self: std::pin::Pin<&mut Self>, _cx: &mut std::task::Context<'_>, _buf: &[u8]) -> std::task::Poll<std::io::Result<usize>> {
        std::task::Poll::Ready(Err(std::io::ErrorKind::BrokenPipe.into()))
    }
    fn poll_flush(self: std::pin::Pin<&mut Self>, _cx: &mut std::task::Context<'_>) -> std::task::Poll<std::io::Result<()>> {
        std::task::Poll::Ready(Ok(()))
    }
    fn poll_shutdown(self: std::pin::Pin<&mut Self>, _cx: &mut std::task::Context<'_>) -> std::task::Poll<std::io::Result<()>> {
        std::task::Poll::Ready(Ok(()))
    }
}
struct DieOnWrite;
impl tokio::io::AsyncWrite for DieOnWrite {
    fn poll_write(self: std::pin::Pin<&mut Self>, _cx: &mut std::task::Context<'_>, _buf: &[u8]) -> std::task::Poll<std::io::Result<usize>> {
        std::process::abort();
    }
    fn poll_flush(self: std::pin::Pin<&mut Self>, _cx: &mut std::task::Context<'_>) -> std::task::Poll<std::io::Result<()>> {
        std::task::Poll::Ready(Ok(()))
    }
    fn poll_shutdown(self: std::pin::Pin<&mut Self>, _cx: &mut std::task::Context<'_>) -> std::task::Poll<std::io::Result<()>> {
        std::task::Poll::Ready(Ok(()))
    }
}

fn maybe_own_child() {
    if std::env::var("SNEL_SYS_CHILD").as_deref() != Ok("1") || std::env::var("C14_CHILD").as_deref() != Ok("1") {
        return;
    }
    let rt = tokio::runtime::Builder::new_multi_thread().worker_threads(6).enable_all().build().unwrap();
    rt.block_on(own_child_main());
    std::process::exit(0);
}

async fn own_child_main() {
    use snel_db::command::dispatcher::dispatch_command;
    use snel_db::command::parser::parse_command;
    use snel_db::engine::schema::SchemaRegistry;
    use snel_db::engine::shard::manager::ShardManager;
    use snel_db::shared::config::CONFIG;
    use snel_db::shared::response::json::JsonRenderer;
    use std::io::{BufRead, Write};
    use std::sync::Arc;
    use tokio::sync::RwLock;

    let registry = Arc::new(RwLock::new(SchemaRegistry::new().expect("schema registry")));
    let sm = Arc::new(ShardManager::new(CONFIG.engine.shard_count, PathBuf::from(&CONFIG.engine.data_dir), PathBuf::from(&CONFIG.wal.dir)).await);
    let stdin = std::io::stdin();
    let mut out = std::io::stdout();
    writeln!(out, "{}", json!({"ready": true})).unwrap();
    out.flush().unwrap();
    let mut line = String::new();
    loop {
        line.clear();
        if stdin.lock().read_line(&mut line).unwrap_or(0) == 0 {
            break;
        }
        let req: serde_json::Value = match serde_json::from_str(&line) {
            Ok(v) => v,
            Err(e) => {
                writeln!(out, "{}", json!({"error": format!("bad request: {e}")})).unwrap();
                out.flush().unwrap();
                continue;
            }
        };
        let reply = if let Some(cmd) = req.get("cmd").and_then(|c| c.as_str()) {
            match std::panic::catch_unwind(|| parse_command(cmd)) {
                Err(_) => json!({"parse": "panic"}),
                Ok(Err(e)) => json!({"parse": "error", "msg": format!("{e:?}")}),
                Ok(Ok(c)) => {
                    let mut buf: Vec<u8> = Vec::new();
                    let (sm2, reg2) = (Arc::clone(&sm), Arc::clone(&registry));
                    let h = tokio::spawn(async move {
                        let r = dispatch_command(&c, &mut buf, &sm2, &reg2, None, Some("bypass"), &JsonRenderer).await;
                        (r.is_ok(), buf)
                    });
                    match h.await {
                        Ok((ok, buf)) => json!({"parse": "ok", "io_ok": ok, "out": String::from_utf8_lossy(&buf)}),
                        Err(e) => json!({"parse": "ok", "dispatch": "panic", "msg": e.to_string()}),
                    }
                }
            }
        } else if let Some(ctl) = req.get("ctl").and_then(|c| c.as_str()) {
            match ctl {
                "store_now" => {
                    snel_db::verif::set_store_now_secs(req["secs"].as_u64());
                    json!({"ok": true})
                }
                "id_clock" => {
                    match req["readings"].as_array() {
                        Some(a) => snel_db::verif::set_id_clock(a.iter().filter_map(|x| x.as_u64()).collect()),
                        None => snel_db::verif::clear_id_clock(),
                    }
                    json!({"ok": true})
                }
                "compact" => {
                    let id = req["shard"].as_u64().unwrap_or(0) as usize;
                    match snel_db::verif::compact_now(id).await {
                        Ok(ran) => json!({"ok": true, "ran": ran}),
                        Err(e) => json!({"ok": false, "error": e}),
                    }
                }
                "route" => json!({"shard": sm.get_shard(req["ctx"].as_str().unwrap_or("")).id}),
                "await_flush" => {
                    let errs = sm.wait_for_flush_completion().await;
                    json!({"ok": errs.is_empty(), "errors": format!("{errs:?}")})
                }
                "show_cut" => {
                    let name = req["name"].as_str().unwrap_or("").to_string();
                    let abort = req["mode"].as_str() == Some("abort");
                    match parse_command(&format!("SHOW {name}")) {
                        Err(e) => json!({"ok": false, "error": format!("{e:?}")}),
                        Ok(c) => {
                            let (sm2, reg2) = (Arc::clone(&sm), Arc::clone(&registry));
                            let h = tokio::spawn(async move {
                                if abort {
                                    dispatch_command(&c, &mut DieOnWrite, &sm2, &reg2, None, Some("bypass"), &JsonRenderer).await.is_ok()
                                } else {
                                    dispatch_command(&c, &mut BrokenPipe, &sm2, &reg2, None, Some("bypass"), &JsonRenderer).await.is_ok()
                                }
                            });
                            match h.await {
                                Ok(io_ok) => json!({"ok": true, "io_ok": io_ok}),
                                Err(e) => json!({"ok": false, "error": e.to_string()}),
                            }
                        }
                    }
                }
                "shutdown" => {
                    let e1 = sm.flush_all(Arc::clone(&registry)).await;
                    let e2 = sm.shutdown_all().await;
                    writeln!(out, "{}", json!({"ok": e1.is_empty() && e2.is_empty(), "errors": format!("{e1:?} {e2:?}")})).unwrap();
                    out.flush().unwrap();
                    tokio::time::sleep(std::time::Duration::from_millis(100)).await;
                    std::process::exit(0);
                }
                _ => json!({"error": "unknown ctl"}),
            }
        } else {
            json!({"error": "unknown request"})
        };
        writeln!(out, "{reply}").unwrap();
        out.flush().unwrap();
    }
}

fn start_session(root: &Path, cfg: &SysCfg) -> Session {
    Session::start_env(root, cfg, &[("C14_CHILD", "1".to_string())])
}

fn main() {
    maybe_own_child();
    sys::maybe_child();
    let a = parse_args();
    // the parent reads catalog / frame files through snel_db's own readers
    let pc = a.out.join("parent-cfg");
    let p = SysCfg::default().write(&pc);
    unsafe { std::env::set_var("SNELDB_CONFIG", p.canonicalize().unwrap()) };
    let mut st = Stream::create(&a.out, &a.stream);
    match a.stream.as_str() {
        "show" => {
            for i in 0..a.cases {
                if a.only.is_some_and(|o| o != i) {
                    continue;
                }
                let mut r = Rng::for_case(a.seed, "show", i);
                let cfg = SysCfg {
                    shards: 1 + r.below(3) as usize,
                    event_per_zone: 1 + r.below(3) as usize,
                    fill_factor: 1 + r.below(3) as usize,
                    segments_per_merge: 2 + r.below(2) as usize,
                    ..Default::default()
                };
                let mixed = r.chance(1, 3);
                let mut cfg = cfg;
                if mixed {
                    // room for old and late rows in one memtable
                    cfg.event_per_zone = 1 + r.below(2) as usize;
                    cfg.fill_factor = if cfg.event_per_zone == 1 { 3 + r.below(3) as usize } else { 2 + r.below(2) as usize };
                    cfg.segments_per_merge = 2;
                }
                let mut steps = if mixed { gen_mixed_segment(&mut r, &cfg, 3) } else { gen_history(&mut r, &cfg, 3) };
                st.tally(if mixed { "shape:mixed-segment" } else { "shape:random" });
                fix_restart_clock(&mut steps);
                mark_nosync(&mut steps);
                let root = a.out.join(format!("show-{i}"));
                let (_f, _) = run_case(&mut st, i, &root, &cfg, 3, &steps, "generated");
                if a.only.is_some() {
                    eprintln!("{steps:#?}");
                }
            }
        }
        "witness" => {
            let ws = witnesses();
            let reps = a.cases.max(1);
            let mut n = 0u64;
            for rep in 0..reps {
                for (label, cfg, per_shard, steps) in &ws {
                    if a.only.is_some_and(|o| o != n) {
                        n += 1;
                        continue;
                    }
                    let root = a.out.join(format!("witness-{n}"));
                    let (fails, _) = run_case(&mut st, n, &root, cfg, *per_shard, steps, label);
                    let classes: BTreeSet<String> = fails.iter().map(|f| f.0.clone()).collect();
                    st.tally(&format!("{label}: {}", if classes.is_empty() { "property held".to_string() } else { format!("{classes:?}") }));
                    let _ = rep;
                    n += 1;
                }
            }
        }
        "tickets" => {
            // component stream: the real FlushProgress counters under random call sequences
            // (also out-of-order and repeated completions, which the flush worker never issues)
            use snel_db::engine::shard::flush_progress::FlushProgress;
            for i in 0..a.cases {
                if a.only.is_some_and(|o| o != i) {
                    continue;
                }
                let mut r = Rng::for_case(a.seed, "tickets", i);
                let p = FlushProgress::new();
                let n = 1 + r.below(30);
                let in_order = r.chance(1, 2);
                let mut next_done = 1u64;
                let mut handed = 0u64;
                let (mut ops, mut outs) = (vec![], vec![]);
                let mut early_open = false;
                let mut done: BTreeSet<u64> = BTreeSet::new();
                for _ in 0..n {
                    if r.chance(1, 2) || handed == 0 {
                        let id = p.next_id();
                        handed = id;
                        ops.push("N".to_string());
                        outs.push(format!("n{id}:{},{},{}", p.snapshot(), p.completed(), (p.completed() >= p.snapshot()) as u8));
                    } else {
                        let id = if in_order {
                            if next_done > handed { continue }
                            next_done += 1;
                            next_done - 1
                        } else {
                            r.below(handed + 2)
                        };
                        p.mark_completed(id);
                        done.insert(id);
                        ops.push(format!("M{id}"));
                        outs.push(format!("m:{},{},{}", p.snapshot(), p.completed(), (p.completed() >= p.snapshot()) as u8));
                    }
                    // oracle: with in-order completion an open barrier means every ticket handed out is done
                    if p.completed() >= p.snapshot() && (1..=handed).any(|t| !done.contains(&t)) {
                        early_open = true;
                    }
                }
                st.tally(if in_order { "in_order" } else { "arbitrary_order" });
                st.tally_n("calls", ops.len() as u64);
                st.case(&format!("tickets {}", ops.join(" ")), &if outs.is_empty() { "-".to_string() } else { outs.join(" ") }, ops.len() > 2);
                if in_order && early_open {
                    st.oracle_fail(i, "-", &format!("barrier open with a pending ticket under in-order completion: {}", ops.join(" ")));
                } else {
                    if early_open { st.tally("early_open_out_of_order"); }
                    st.oracle_ok();
                }
            }
        }
        other => {
            eprintln!("unknown stream {other}");
            std::process::exit(2);
        }
    }
    st.finish();
}
