//! C18 component stream: the real `EventIdGenerator` under a scripted clock.
use snel_db::engine::core::EventIdGenerator;
use snel_harness::out::{parse_args, Stream};
use snel_harness::rng::Rng;

const EPOCH: u64 = 1_609_459_200_000;

fn gen_script(r: &mut Rng) -> (u16, u64, Vec<(u64, u64)>) {
    // (shard, calls, run-length readings)
    let shard = match r.below(4) {
        0 => r.below(8) as u16,
        1 => 1023,
        2 => r.below(1024) as u16,
        _ => r.below(65536) as u16, // beyond the 10-bit field: masked by the code
    };
    let mut runs = vec![];
    let mut t = EPOCH + r.below(1u64 << 41) + 1;
    let shape = r.below(10);
    let nruns = 1 + r.below(12);
    let mut total = 0u64;
    for _ in 0..nruns {
        let len = match shape {
            0 => 4090 + r.below(20),          // around the sequence wrap
            1 => 1 + r.below(9000),           // long bursts
            _ => 1 + r.below(6),
        };
        runs.push((t, len));
        total += len;
        match r.below(6) {
            0 => t = t.saturating_sub(1 + r.below(50)), // clock steps back
            1 => {}                                      // repeated reading in a new run
            2 => t += 1,
            _ => t += 1 + r.below(1000),
        }
        if total > 20000 {
            break;
        }
    }
    let calls = match r.below(3) {
        0 => total,
        1 => total + r.below(5),      // beyond the script: fallback readings last+1
        _ => 1 + r.below(total.max(1)),
    };
    (shard, calls, runs)
}

fn main() {
    let a = parse_args();
    match a.stream.as_str() {
        "idgen" => {
            let mut s = Stream::create(&a.out, "idgen");
            for i in 0..a.cases {
                if a.only.is_some_and(|o| o != i) {
                    continue;
                }
                let mut r = Rng::for_case(a.seed, "idgen", i);
                let (shard, calls, runs) = gen_script(&mut r);
                let mut script = vec![];
                for (v, k) in &runs {
                    for _ in 0..*k {
                        script.push(*v);
                    }
                }
                snel_db::verif::set_id_clock(script);
                let mut g = EventIdGenerator::new();
                let ids: Vec<u64> = (0..calls).map(|_| g.next(shard).raw()).collect();
                snel_db::verif::clear_id_clock();
                let op = format!(
                    "idgen {} {} {}",
                    shard,
                    calls,
                    runs.iter().map(|(v, k)| format!("{v}*{k}")).collect::<Vec<_>>().join(" ")
                );
                // compact answer: first id, then deltas run-length encoded
                let imp = compact(&ids);
                let wrap = runs.iter().any(|(_, k)| *k > 4096);
                let back = runs.windows(2).any(|w| w[1].0 < w[0].0);
                if wrap { s.tally("burst>4096"); }
                if back { s.tally("clock_backwards"); }
                if shard > 1023 { s.tally("shard>10bit"); }
                s.tally_n("ids", ids.len() as u64);
                s.case(&op, &imp, ids.len() > 1);
                // oracle: strictly increasing, shard tag constant
                let mono = ids.windows(2).all(|w| w[0] < w[1]);
                let tag = ids.iter().all(|id| (id >> 12) & 1023 == (shard as u64 & 1023));
                if mono && tag { s.oracle_ok(); } else {
                    s.oracle_fail(i, "-", &format!("ids not strictly increasing or wrong tag: {op}"));
                }
            }
            s.finish();
        }
        other => {
            eprintln!("unknown stream {other}");
            std::process::exit(2);
        }
    }
}

fn compact(ids: &[u64]) -> String {
    let mut out = String::new();
    if ids.is_empty() {
        return "-".into();
    }
    out.push_str(&ids[0].to_string());
    let mut i = 1;
    while i < ids.len() {
        let d = ids[i].wrapping_sub(ids[i - 1]);
        let mut k = 1;
        while i + k < ids.len() && ids[i + k].wrapping_sub(ids[i + k - 1]) == d {
            k += 1;
        }
        out.push_str(&format!(" +{d}*{k}"));
        i += k;
    }
    out
}
