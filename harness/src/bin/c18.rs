//! C18 component stream: the real `EventIdGenerator` under a scripted clock.
use snel_db::engine::core::EventIdGenerator;
use snel_harness::out::{parse_args, Stream};
use snel_harness::rng::Rng;

const EPOCH: u64 = 1_609_459_200_000;

fn gen_script(r: &mut Rng) -> (u16, u64, Vec<(u64, u64)>) {
    // (shard, calls, run-length readings)
    let shard = match r.below(4) {
        0 => r.below(8) as u16,
        1 => 1023,
        2 => r.below(1024) as u16,
        _ => r.below(65536) as u16, // beyond the 10-bit field: masked by the code
    };
    let mut runs = vec![];
    let mut t = EPOCH + r.below(1u64 << 41) + 1;
    let shape = r.below(10);
    let nruns = 1 + r.below(12);
    let mut total = 0u64;
    for _ in 0..nruns {
        let len = match shape {
            0 => 4090 + r.below(20),          // around the sequence wrap
            1 => 1 + r.below(9000),           // long bursts
            _ => 1 + r.below(6),
        };
        runs.push((t, len));
        total += len;
        match r.below(6) {
            0 => {
                // clock steps back: by milliseconds, seconds, minutes, or far (an NTP / manual reset)
                // While the clock is behind, the generator stays on its last millisecond and, when
                // the 4096 sequence numbers of that millisecond are used up, spins until the clock
                // has caught up (with a scripted clock: one reading per iteration). Large steps are
                // therefore generated only in the shapes with short runs (at most 12 x 6 calls).
                let back = if shape < 2 {
                    1 + r.below(50)
                } else {
                    match r.below(5) {
                        0 => 1 + r.below(50),
                        1 => 50 + r.below(5_000),
                        2 => 4_990 + r.below(20),
                        3 => 5_000 + r.below(600_000),
                        _ => 1 + r.below(1u64 << 36),
                    }
                };
                t = t.saturating_sub(back).max(EPOCH + 1);
            }
            1 => {}                                      // repeated reading in a new run
            2 => t += 1,
            _ => t += 1 + r.below(1000),
        }
        if total > 20000 {
            break;
        }
    }
    let calls = match r.below(3) {
        0 => total,
        1 => total + r.below(5),      // beyond the script: fallback readings last+1
        _ => 1 + r.below(total.max(1)),
    };
    (shard, calls, runs)
}

/// System stream: two or three process lifetimes of one shard under scripted id clocks.
/// Compared with the model: the ids every event carries when read back (memory, after WAL
/// recovery, after flush). Oracle: ids distinct and increasing in append order across lifetimes,
/// recovered ids equal the originals.
fn restart_stream(a: &snel_harness::out::Args) {
    use snel_harness::sys::{Session, SysCfg};
    let mut s = Stream::create(&a.out, "restart");
    for i in 0..a.cases {
        if a.only.is_some_and(|o| o != i) {
            continue;
        }
        let mut r = Rng::for_case(a.seed, "restart", i);
        let cfg = SysCfg { event_per_zone: 2, fill_factor: 1 + r.below(3) as usize, ..Default::default() };
        let root = a.out.join(format!("restart-{i}"));
        let _ = std::fs::remove_dir_all(&root);
        let lifetimes = 2 + r.below(2);
        let mut t = EPOCH + 1_000_000 + r.below(1u64 << 40);
        let mut op = String::from("restart 0");
        let mut all_ids: Vec<u64> = vec![];       // ids in append order, as first observed
        let mut k = 0u64;
        let mut obs = vec![];
        let mut fail: Option<(String, String)> = None;
        let mut last_millis_prev: Option<u64> = None;
        let mut clock_not_later = false;
        for life in 0..lifetimes {
            let mut sess = Session::start(&root, &cfg);
            if life == 0 {
                assert!(sess.cmd("DEFINE ev FIELDS { k: \"int\" }").map(|x| x.ok()).unwrap_or(false));
            }
            // clock of this lifetime: n stores, each reading may repeat / step back
            let n = 1 + r.below(5);
            let start = match (life, r.below(4)) {
                (0, _) => t,
                (_, 0) => last_millis_prev.unwrap_or(t),                 // same millisecond as before
                (_, 1) => last_millis_prev.unwrap_or(t).saturating_sub(1 + r.below(20)), // stepped back
                _ => last_millis_prev.unwrap_or(t) + 1 + r.below(1000),
            };
            let mut readings = vec![];
            let mut cur = start;
            for _ in 0..n {
                readings.push(cur);
                match r.below(4) {
                    0 => {}
                    1 => cur = cur.saturating_sub(r.below(3)),
                    _ => cur += 1 + r.below(5),
                }
            }
            if let Some(prev) = last_millis_prev {
                if readings.iter().any(|x| *x <= prev) {
                    clock_not_later = true;
                }
            }
            sess.ctl(serde_json::json!({"ctl": "id_clock", "readings": readings}));
            op.push_str(&format!(" | L {}", readings.iter().map(|x| x.to_string()).collect::<Vec<_>>().join(",")));
            for _ in 0..n {
                k += 1;
                assert!(sess.cmd(&format!("STORE ev FOR c PAYLOAD {{\"k\":{k}}}")).map(|x| x.ok()).unwrap_or(false));
            }
            if r.chance(1, 3) {
                sess.ctl(serde_json::json!({"ctl": "await_flush"}));
                let _ = sess.cmd("FLUSH");
                op.push_str(" | F");
                // sometimes a compaction round on top: the id column is copied by the merge
                if r.chance(1, 2) {
                    sess.ctl(serde_json::json!({"ctl": "await_flush"}));
                    let _ = sess.compact(0);
                    std::thread::sleep(std::time::Duration::from_millis(120));
                    op.push_str(" | C");
                    s.tally("compaction_rounds");
                }
            }
            sess.ctl(serde_json::json!({"ctl": "await_flush"}));
            // read back ids by key
            let q = sess.cmd("QUERY ev RETURN [k]").expect("query");
            let ks = q.col("k");
            let ids = q.col("event_id");
            let mut pairs: Vec<(i64, u64)> = ks.iter().zip(ids.iter()).filter_map(|(a, b)| Some((a.as_i64()?, b.as_u64()?))).collect();
            pairs.sort();
            pairs.dedup();
            // compared observation: the set of distinct ids returned (which of two events that
            // share an id survives the response writer's dedup depends on flow arrival order)
            let mut idset: Vec<u64> = pairs.iter().map(|(_, id)| *id).collect();
            // An event of an earlier lifetime that is missing although its id is unique was lost
            // by the WAL, not deduplicated (restarts and manual FLUSH drop WAL files by id: findings
            // C01-wal-segment-id-skew): not this property's matter. Its id - known from when it was
            // first read - is put back so that the comparison is about ids only.
            let returned_keys: std::collections::BTreeSet<i64> = pairs.iter().map(|(kk, _)| *kk).collect();
            let mut lost_by_wal = 0u64;
            for (idx, id) in all_ids.iter().enumerate() {
                let kk = idx as i64 + 1;
                let unique = all_ids.iter().filter(|x| *x == id).count() == 1;
                if !returned_keys.contains(&kk) && unique && !idset.contains(id) {
                    idset.push(*id);
                    lost_by_wal += 1;
                }
            }
            if lost_by_wal > 0 {
                s.tally_n("events_lost_by_wal_not_judged", lost_by_wal);
            }
            idset.sort();
            idset.dedup();
            obs.push(idset.iter().map(|id| id.to_string()).collect::<Vec<_>>().join(","));
            op.push_str(" | Q");
            // oracle bookkeeping
            for (kk, id) in &pairs {
                let idx = (*kk - 1) as usize;
                if idx < all_ids.len() {
                    if all_ids[idx] != *id && fail.is_none() {
                        fail = Some(("-".into(), format!("event k={kk} changed its id from {} to {id}", all_ids[idx])));
                    }
                } else {
                    all_ids.push(*id);
                }
            }
            if (pairs.len() as u64 + lost_by_wal) < k && fail.is_none() {
                // fewer rows than stored: two events share one id (dedup) when the clock was not later
                let class = if clock_not_later { "restart-clock-not-later" } else { "-" };
                fail = Some((class.into(), format!("{} of {k} stored events returned (duplicate ids)", pairs.len())));
            }
            last_millis_prev = Some(*readings.iter().max().unwrap());
            t = last_millis_prev.unwrap();
            // wait until the WAL has the entries, then kill
            let t0 = std::time::Instant::now();
            while sess.ctl(serde_json::json!({"ctl": "hits", "point": "wal.appended"})).and_then(|v| v["hits"].as_u64()).unwrap_or(0) < n
                && t0.elapsed().as_secs() < 10
            {
                std::thread::sleep(std::time::Duration::from_millis(2));
            }
            sess.kill();
        }
        if fail.is_none() && !all_ids.windows(2).all(|w| w[0] < w[1]) {
            let class = if clock_not_later { "restart-clock-not-later" } else { "-" };
            fail = Some((class.into(), format!("ids not strictly increasing in append order: {all_ids:?}")));
        }
        let _ = std::fs::remove_dir_all(&root);
        s.tally_n("lifetimes", lifetimes);
        if clock_not_later { s.tally("clock_not_later_after_restart"); }
        s.case(&op, &obs.join(" ; "), true);
        match fail {
            None => s.oracle_ok(),
            Some((c, d)) => s.oracle_fail(i, &c, &format!("{d}; {op}")),
        }
    }
    s.finish();
}

fn main() {
    snel_harness::sys::maybe_child();
    let a = parse_args();
    match a.stream.as_str() {
        "restart" => restart_stream(&a),
        "idgen" => {
            let mut s = Stream::create(&a.out, "idgen");
            for i in 0..a.cases {
                if a.only.is_some_and(|o| o != i) {
                    continue;
                }
                let mut r = Rng::for_case(a.seed, "idgen", i);
                let (shard, calls, runs) = gen_script(&mut r);
                let mut script = vec![];
                for (v, k) in &runs {
                    for _ in 0..*k {
                        script.push(*v);
                    }
                }
                snel_db::verif::set_id_clock(script);
                let mut g = EventIdGenerator::new();
                let ids: Vec<u64> = (0..calls).map(|_| g.next(shard).raw()).collect();
                snel_db::verif::clear_id_clock();
                let op = format!(
                    "idgen {} {} {}",
                    shard,
                    calls,
                    runs.iter().map(|(v, k)| format!("{v}*{k}")).collect::<Vec<_>>().join(" ")
                );
                // compact answer: first id, then deltas run-length encoded
                let imp = compact(&ids);
                let wrap = runs.iter().any(|(_, k)| *k > 4096);
                let back = runs.windows(2).any(|w| w[1].0 < w[0].0);
                if wrap { s.tally("burst>4096"); }
                if back { s.tally("clock_backwards"); }
                if shard > 1023 { s.tally("shard>10bit"); }
                s.tally_n("ids", ids.len() as u64);
                s.case(&op, &imp, ids.len() > 1);
                // oracle: strictly increasing, shard tag constant
                let mono = ids.windows(2).all(|w| w[0] < w[1]);
                let tag = ids.iter().all(|id| (id >> 12) & 1023 == (shard as u64 & 1023));
                if mono && tag { s.oracle_ok(); } else {
                    s.oracle_fail(i, "-", &format!("ids not strictly increasing or wrong tag: {op}"));
                }
            }
            s.finish();
        }
        other => {
            eprintln!("unknown stream {other}");
            std::process::exit(2);
        }
    }
}

fn compact(ids: &[u64]) -> String {
    let mut out = String::new();
    if ids.is_empty() {
        return "-".into();
    }
    out.push_str(&ids[0].to_string());
    let mut i = 1;
    while i < ids.len() {
        let d = ids[i].wrapping_sub(ids[i - 1]);
        let mut k = 1;
        while i + k < ids.len() && ids[i + k].wrapping_sub(ids[i + k - 1]) == d {
            k += 1;
        }
        out.push_str(&format!(" +{d}*{k}"));
        i += k;
    }
    out
}
