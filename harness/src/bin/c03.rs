//! C03: reads at every stage of a flush. Histories of STORE / ADV / RUN / FLUSH / READ on one
//! shard with the flush worker stepped through its hook points; every read is compared with
//! the shard-machine model (exact) and with the property oracle (each applied event exactly
//! once in the selection; COUNT = number of applied events).
use snel_harness::out::{parse_args, Stream};
use snel_harness::rng::Rng;
use snel_harness::sys::{self, SysCfg};
use snel_harness::sysops::{history_line, Exec, Op};

fn gen_history(r: &mut Rng, cfg: &SysCfg, ntypes: u64, len: usize, crashes: bool) -> Vec<Op> {
    let mut ops = vec![];
    let mut k = 0u64;
    let nctx = 1 + r.below(3);
    // burst shape: many overlapping rotations (more than max_inflight_passives = 8) queue up
    // behind a flush worker that has not started writing, then reads, then the backlog drains
    if !crashes && ntypes == 1 && cfg.capacity() <= 3 && r.chance(1, 3) {
        let rotations = 9 + r.below(6) as usize;
        let extra = r.below(cfg.capacity() as u64) as usize;
        for _ in 0..(rotations * cfg.capacity() + extra) {
            k += 1;
            ops.push(Op::S { k, ctx: r.below(nctx), ty: 0 });
        }
        ops.push(Op::R);
        for _ in 0..r.below(8) {
            ops.push(Op::Adv);
        }
        ops.push(Op::R);
        ops.push(Op::Run);
        ops.push(Op::R);
        ops.push(Op::Ls);
        return ops;
    }
    // failing-flush shape: a rotation whose flush fails (its rows stay in the retained passive
    // buffer), reads, further rotations that flush normally next to it, reads at every step
    if !crashes && r.chance(1, 4) {
        let cap = cfg.capacity();
        let mut store_n = |ops: &mut Vec<Op>, r: &mut Rng, n: usize| {
            for _ in 0..n {
                k += 1;
                ops.push(Op::S { k, ctx: r.below(nctx), ty: r.below(ntypes) });
            }
        };
        let pre = r.below(3) as usize;
        store_n(&mut ops, r, pre * cap);
        if pre > 0 && r.chance(1, 2) { ops.push(Op::Run); }
        store_n(&mut ops, r, cap);
        if pre > 0 && r.chance(1, 2) { ops.push(Op::Run); } // nothing parked at its start: FF is a no-op
        ops.push(Op::Ff);
        ops.push(Op::R);
        for _ in 0..(1 + r.below(3)) {
            let extra = r.below(cap as u64 + 1) as usize;
            store_n(&mut ops, r, cap + extra);
            for _ in 0..r.below(7) {
                ops.push(Op::Adv);
                if r.chance(1, 2) { ops.push(Op::R); }
            }
            if r.chance(1, 3) { ops.push(Op::Ff); }
            if r.chance(1, 4) { ops.push(Op::F); }
            ops.push(Op::R);
        }
        ops.push(Op::Run);
        ops.push(Op::R);
        ops.push(Op::Ls);
        return ops;
    }
    for _ in 0..len {
        let x = r.below(100);
        let op = if x < 50 {
            k += 1;
            Op::S { k, ctx: r.below(nctx), ty: r.below(ntypes) }
        } else if x < 72 {
            Op::Adv
        } else if x < 90 {
            Op::R
        } else if x < 94 {
            Op::Run
        } else if x < 97 {
            Op::F
        } else if crashes {
            if r.chance(1, 4) { Op::D } else { Op::X }
        } else if r.chance(1, 2) {
            Op::Ff
        } else {
            Op::Ls
        };
        ops.push(op);
    }
    let _ = cfg;
    ops.push(Op::R);
    ops.push(Op::Run);
    ops.push(Op::R);
    ops.push(Op::Ls);
    ops
}

fn witnesses() -> Vec<(SysCfg, u64, Vec<Op>)> {
    let c2 = SysCfg { event_per_zone: 1, fill_factor: 2, ..Default::default() };
    let s = |k: u64| Op::S { k, ctx: 0, ty: 0 };
    vec![
        // C03-count-dup-flush-window: files written, passive buffer not yet released
        (c2.clone(), 1, vec![s(1), s(2), Op::Adv, Op::Adv, Op::R, Op::Run, Op::R]),
        // more overlapping rotations than max_inflight_passives (8), none written yet: every
        // acknowledged event must still be visible (regression guard, expected to hold)
        (SysCfg { event_per_zone: 1, fill_factor: 1, ..Default::default() }, 1,
         (1..=11).map(s).chain([Op::R, Op::Run, Op::R]).collect()),
        // C03-inflight-hides-published: a second rotation in flight (no files yet) next to a published segment
        (c2.clone(), 1, vec![s(1), s(2), Op::Run, s(3), s(4), Op::R, Op::R, Op::R, Op::R, Op::R, Op::R, Op::Run, Op::R]),
        // a flush that fails: its rows are served from the retained passive buffer, also after the
        // next rotation has been flushed and nothing is in flight any more
        (c2.clone(), 1, vec![s(1), s(2), Op::Ff, Op::R, s(3), s(4), Op::R, Op::Run, Op::R, Op::Ls, s(5), Op::R]),
    ]
}

fn main() {
    sys::maybe_child();
    let a = parse_args();
    if a.stream == "midwrite" {
        midwrite_stream(&a);
        return;
    }
    let crashes = match a.stream.as_str() {
        "flushwin" => false,
        other => {
            eprintln!("unknown stream {other}");
            std::process::exit(2);
        }
    };
    let mut st = Stream::create(&a.out, &a.stream);
    let wits = witnesses();
    let nw = wits.len() as u64;
    for i in 0..(a.cases + nw) {
        if a.only.is_some_and(|o| o != i) {
            continue;
        }
        let (cfg, ntypes, ops) = if i < nw {
            st.tally("witness_histories");
            wits[i as usize].clone()
        } else {
            let mut r = Rng::for_case(a.seed, &a.stream, i - nw);
            let cfg = SysCfg {
                event_per_zone: 1 + r.below(3) as usize,
                fill_factor: 1 + r.below(3) as usize,
                ..Default::default()
            };
            let ntypes = if r.chance(7, 10) { 1 } else { 2 };
            let len = 8 + r.below(30) as usize;
            let ops = gen_history(&mut r, &cfg, ntypes, len, crashes);
            (cfg, ntypes, ops)
        };
        let root = a.out.join(format!("{}-{i}", a.stream));
        let _ = std::fs::remove_dir_all(&root);
        let mut ex = Exec::start(&root, &cfg, ntypes);
        let mut obs = vec![];
        let mut applied: Vec<u64> = vec![];
        // (key, context, type) of every acknowledged event, for the scoped read shapes below
        let mut placed: Vec<(u64, u64, u64)> = vec![];
        let mut shape_rng = Rng::for_case(a.seed, "flushwin-shapes", i);
        let mut stage_seen = std::collections::BTreeSet::new();
        let mut fail: Option<String> = None;
        // failures of the scoped read shapes (never a known class) are reported first
        let mut shape_fail: Option<String> = None;
        for (n, op) in ops.iter().enumerate() {
            if let Op::S { k, ctx, ty } = op {
                applied.push(*k);
                placed.push((*k, *ctx, *ty));
            }
            let in_window = *op == Op::R && ex.flush_window();
            if let Some(mut line) = ex.exec(op) {
                let racy = *op == Op::R && ex.last_read_racy;
                if racy { line = ex.last_real_read.clone(); }
                if racy {
                    // oracle still looks at the real answer; the compared line is only the token
                    let want_keys = applied.iter().map(|k| k.to_string()).collect::<Vec<_>>().join(",");
                    let gk = line.split(' ').next().unwrap().to_string();
                    if gk != format!("keys={want_keys}") && fail.is_none() {
                        fail = Some(format!("inflight-unwritten-hides-published\top#{n}: want keys [{want_keys}] got [{line}] in {}", history_line(&cfg, ntypes, &ops)));
                    }
                    st.tally("racy_reads");
                    line = "racy".to_string();
                } else if *op == Op::R {
                    // oracle: selection = applied set, COUNT = |applied|
                    let want_keys = applied.iter().map(|k| k.to_string()).collect::<Vec<_>>().join(",");
                    let want = format!("keys={} count={}", if applied.is_empty() { "-".into() } else { want_keys }, applied.len());
                    // with several event types COUNT is also affected by C09's defect (aggregates
                    // ignore the event type for memtable rows): only the selection is judged then
                    let line_j = if ntypes > 1 { line.split(' ').next().unwrap().to_string() } else { line.clone() };
                    let want = if ntypes > 1 { want.split(' ').next().unwrap().to_string() } else { want };
                    let line = &line_j;
                    if *line != want && fail.is_none() {
                        let (wk, gk) = (want.split(' ').next().unwrap().to_string(), line.split(' ').next().unwrap().to_string());
                        // the class applies only while a job is between "files written" and
                        // "passive buffer released"
                        let class = if wk == gk && in_window { "count-dup-flush-window" } else { "-" };
                        fail = Some(format!("{class}\top#{n}: want [{want}] got [{line}] in {}", history_line(&cfg, ntypes, &ops)));
                    }
                    // the same instant through other read shapes (oracle only): a point lookup, a
                    // context-scoped selection, a REPLAY of a context, a LIMIT read
                    if shape_fail.is_none() && !placed.is_empty() {
                        let (pk, pctx, pty) = placed[shape_rng.below(placed.len() as u64) as usize];
                        let keys = |r: &snel_harness::sys::Reply| -> Vec<u64> {
                            let mut v: Vec<u64> = r.col("k").iter().filter_map(|x| x.as_u64()).collect();
                            v.sort();
                            v
                        };
                        let mut shapes: Vec<(String, Vec<u64>)> = vec![];
                        shapes.push((format!("QUERY ev{pty} WHERE k = {pk}"), vec![pk]));
                        let mut want_ctx: Vec<u64> = placed.iter().filter(|p| p.1 == pctx && p.2 == pty).map(|p| p.0).collect();
                        want_ctx.sort();
                        shapes.push((format!("QUERY ev{pty} FOR c{pctx} RETURN [k]"), want_ctx.clone()));
                        shapes.push((format!("REPLAY ev{pty} FOR c{pctx}"), want_ctx));
                        for (q, want) in shapes {
                            let r = ex.s.cmd(&q).expect("child died in a shaped read");
                            let got = keys(&r);
                            if !r.ok() || got != want {
                                shape_fail = Some(format!("-\top#{n}: `{q}` returned {got:?} (status {}), acknowledged {want:?}; in {}", r.status_class(), history_line(&cfg, ntypes, &ops)));
                                break;
                            }
                        }
                        if shape_fail.is_none() {
                            let total = placed.iter().filter(|p| p.2 == pty).count();
                            let lim = 1 + shape_rng.below(total as u64 + 1) as usize;
                            let q = format!("QUERY ev{pty} RETURN [k] LIMIT {lim}");
                            let r = ex.s.cmd(&q).expect("child died in a shaped read");
                            let got = keys(&r);
                            let distinct = got.windows(2).all(|w| w[0] != w[1]);
                            let known = got.iter().all(|k| placed.iter().any(|p| p.0 == *k && p.2 == pty));
                            if !r.ok() || got.len() != lim.min(total) || !distinct || !known {
                                shape_fail = Some(format!("-\top#{n}: `{q}` returned {got:?}: want {} distinct acknowledged events; in {}", lim.min(total), history_line(&cfg, ntypes, &ops)));
                            }
                        }
                        st.tally_n("shaped_reads", 4);
                    }
                }
                obs.push(line);
            }
            if *op == Op::Adv { stage_seen.insert("adv"); }
        }
        st.tally_n("flushes_failed", ex.failed_flushes);
        drop(ex);
        let _ = std::fs::remove_dir_all(&root);
        st.tally(&format!("cap={}", cfg.capacity()));
        st.tally_n("ops", ops.len() as u64);
        st.tally_n("stores", applied.len() as u64);
        st.tally_n("reads", ops.iter().filter(|o| **o == Op::R).count() as u64);
        st.tally_n("adv", ops.iter().filter(|o| **o == Op::Adv).count() as u64);
        st.tally_n("ff_ops", ops.iter().filter(|o| **o == Op::Ff).count() as u64);
        st.case(&history_line(&cfg, ntypes, &ops), &obs.join(" ; "), applied.len() >= cfg.capacity());
        match shape_fail.or(fail) {
            None => st.oracle_ok(),
            Some(f) => {
                let (class, detail) = f.split_once('\t').unwrap();
                st.oracle_fail(i, class, detail)
            }
        }
    }
    st.finish();
}

/// `midwrite` stream (oracle only): a read that overlaps the flusher's file writes (after the
/// `.zones` metadata, before / after the column files) must not change what later reads return.
/// Known finding C03-midwrite-read-poisons-caches: per-segment caches filled during the write keep
/// entries without the `event_id` column; later reads hand out colliding synthetic ids and the
/// response writer drops rows, for the rest of the process lifetime.
pub fn midwrite_stream(a: &snel_harness::out::Args) {
    use serde_json::json;
    use snel_harness::sys::Session;
    let mut st = Stream::create(&a.out, "midwrite");
    for i in 0..a.cases {
        if a.only.is_some_and(|o| o != i) {
            continue;
        }
        let mut r = Rng::for_case(a.seed, "midwrite", i);
        let cfg = SysCfg { event_per_zone: 1 + r.below(2) as usize, fill_factor: 1 + r.below(2) as usize, ..Default::default() };
        let cap = cfg.capacity() as u64;
        let root = a.out.join(format!("midwrite-{i}"));
        let _ = std::fs::remove_dir_all(&root);
        let mut s = Session::start(&root, &cfg);
        assert!(s.cmd("DEFINE ev0 FIELDS { k: \"int\" }").map(|x| x.ok()).unwrap_or(false));
        let point = match r.below(3) {
            0 => "zonewriter.meta_written",
            1 => "zonewriter.cols_written",
            _ => "free", // no parking: a query right after every STORE races the free-running flusher
        };
        let rounds = 1 + r.below(3);
        let mut k = 0u64;
        let mut desc = format!("midwrite cap={cap} point={point}");
        let mut bad: Option<String> = None;
        let mut during_bad = false;
        if point == "free" {
            let n = cap * (3 + r.below(6));
            for _ in 0..n {
                k += 1;
                assert!(s.cmd(&format!("STORE ev0 FOR c{} PAYLOAD {{\"k\":{k}}}", r.below(2))).map(|x| x.ok()).unwrap_or(false));
                let q = match r.below(3) {
                    0 => "QUERY ev0 WHERE k = 0 RETURN [k]".to_string(),
                    1 => "QUERY ev0 RETURN [k]".to_string(),
                    _ => format!("QUERY ev0 WHERE k >= {} RETURN [k]", 1 + r.below(k)),
                };
                let _ = s.cmd(&q);
            }
            desc.push_str(&format!(" | {n} stores each followed at once by a query"));
            s.ctl(json!({"ctl": "await_flush"}));
            for rep in 0..3 {
                let after = s.cmd("QUERY ev0 RETURN [k]").expect("query");
                let mut got: Vec<i64> = after.col("k").iter().filter_map(|v| v.as_i64()).collect();
                got.sort();
                got.dedup();
                let want: Vec<i64> = (1..=k as i64).collect();
                if got != want && bad.is_none() {
                    bad = Some(format!("after all flushes completed (rep {rep}) QUERY returns {got:?}, stored 1..={k}"));
                }
            }
        }
        for round in 0..(if point == "free" { 0 } else { rounds }) {
            s.ctl(json!({"ctl": "arm_park", "point": point}));
            for _ in 0..cap {
                k += 1;
                assert!(s.cmd(&format!("STORE ev0 FOR c{} PAYLOAD {{\"k\":{k}}}", r.below(2))).map(|x| x.ok()).unwrap_or(false));
            }
            let parked = s.ctl(json!({"ctl": "wait_parked", "point": point, "ms": 5000})).and_then(|v| v["parked"].as_u64()).unwrap_or(0);
            if parked == 0 {
                desc.push_str(" (not parked)");
            }
            // reads overlapping the file writes
            let which = r.below(3);
            let q = match which {
                0 => "QUERY ev0 RETURN [k]".to_string(),
                1 => format!("QUERY ev0 WHERE k = {} RETURN [k]", 1 + r.below(k)),
                _ => "QUERY ev0 COUNT".to_string(),
            };
            desc.push_str(&format!(" | round{round}: park, {q}"));
            let during = s.cmd(&q);
            if which == 0 {
                let mut got: Vec<i64> = during.map(|d| d.col("k").iter().filter_map(|v| v.as_i64()).collect()).unwrap_or_default();
                got.sort();
                got.dedup();
                if got.len() as u64 != k {
                    during_bad = true; // the racy in-flight state itself (separate finding)
                }
            }
            s.ctl(json!({"ctl": "release_all"}));
            s.ctl(json!({"ctl": "await_flush"}));
            // after the flush has completed every stored event must be returned, repeatedly
            for rep in 0..3 {
                let after = s.cmd("QUERY ev0 RETURN [k]").expect("query");
                let mut got: Vec<i64> = after.col("k").iter().filter_map(|v| v.as_i64()).collect();
                got.sort();
                got.dedup();
                let want: Vec<i64> = (1..=k as i64).collect();
                if got != want && bad.is_none() {
                    bad = Some(format!("after round {round} (rep {rep}) the completed flush returns {got:?}, stored 1..={k}"));
                }
            }
        }
        drop(s);
        let _ = std::fs::remove_dir_all(&root);
        st.tally(point);
        if during_bad { st.tally("read_during_write_incomplete"); }
        st.case(&desc, "-", true);
        match bad {
            None => st.oracle_ok(),
            Some(b) => st.oracle_fail(i, "midwrite-read-poisons-caches", &format!("{b}; {desc}")),
        }
    }
    st.finish();
}
