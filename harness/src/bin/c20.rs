//! C20 — every response encoding carries the same rows and values.
//!
//! Streams
//!   table       generated result batches through the real `QueryResponseWriter` /
//!               `ShowResponseWriter` with the JSON, Unix and Arrow renderers
//!               (`streaming_batch_size` default ⇒ batch frames)
//!   table_rows  the same with `streaming_batch_size = 0` (row frames); `--rowmode`
//!   errors      `render(Response::error(..))` of the three renderers + the HTTP status the
//!               front end derives from those bytes
//!   witness     fixed cases: the witnesses of the `_fails` theorems, replayed on the real code
//!   sys         oracle only: DEFINE/STORE/FLUSH/QUERY through the real engine with each renderer
//!
//! Every table case is compared encoding by encoding (eight lines per case): JSON frames and text
//! frames through the writer, the Arrow stream, the other frame kind of both renderers called
//! directly on the emitted rows, and the buffered `render()` of a table by the three renderers.
//! The oracle compares all JSON-family encodings with each other first: a disagreement inside that
//! family is never attributed to a known finding.
//!
//! The produced bytes are decoded by independent readers (a small JSON reader written here,
//! arrow's own IPC `StreamReader`), printed as one canonical line and compared with the Lean
//! model's prediction. The oracle evaluates the property itself on the decoded streams.
use std::io::Cursor;
use std::sync::Arc;

use arrow_array::{
    Array, BooleanArray, Float64Array, Int64Array, LargeStringArray, TimestampMillisecondArray,
};
use arrow_ipc::reader::StreamReader;
use arrow_schema::{DataType, TimeUnit};
use snel_db::command::handlers::query::QueryResponseWriter;
use snel_db::command::handlers::show::ShowResponseWriter;
use snel_db::engine::core::read::flow::{BatchSchema, FlowChannel, FlowMetrics};
use snel_db::engine::core::read::result::ColumnSpec;
use snel_db::engine::types::ScalarValue;
use snel_db::shared::response::render::Renderer;
use snel_db::shared::response::{ArrowRenderer, JsonRenderer, Response, StatusCode, UnixRenderer};
use snel_harness::enc::{hex, hexs};
use snel_harness::out::{parse_args, Stream};
use snel_harness::rng::Rng;

// ------------------------------------------------------------------ a small JSON reader

#[derive(Debug, Clone)]
enum J {
    Null,
    Bool(bool),
    Num(String),
    Str(Vec<u8>),
    Arr(Vec<J>, usize, usize),
    Obj(Vec<(Vec<u8>, J)>, usize, usize),
}

struct P<'a> {
    s: &'a [u8],
    i: usize,
}

impl<'a> P<'a> {
    fn ws(&mut self) {
        while self.i < self.s.len() && matches!(self.s[self.i], b' ' | b'\n' | b'\r' | b'\t') {
            self.i += 1;
        }
    }
    fn eat(&mut self, lit: &[u8]) -> Result<(), String> {
        if self.s[self.i..].starts_with(lit) {
            self.i += lit.len();
            Ok(())
        } else {
            Err(format!("expected {:?} at {}", String::from_utf8_lossy(lit), self.i))
        }
    }
    fn value(&mut self) -> Result<J, String> {
        self.ws();
        if self.i >= self.s.len() {
            return Err("eof".into());
        }
        match self.s[self.i] {
            b'n' => self.eat(b"null").map(|_| J::Null),
            b't' => self.eat(b"true").map(|_| J::Bool(true)),
            b'f' => self.eat(b"false").map(|_| J::Bool(false)),
            b'"' => self.string().map(J::Str),
            b'[' => {
                let start = self.i;
                self.i += 1;
                let mut v = vec![];
                self.ws();
                if self.s.get(self.i) == Some(&b']') {
                    self.i += 1;
                    return Ok(J::Arr(v, start, self.i));
                }
                loop {
                    v.push(self.value()?);
                    self.ws();
                    match self.s.get(self.i) {
                        Some(b',') => self.i += 1,
                        Some(b']') => {
                            self.i += 1;
                            return Ok(J::Arr(v, start, self.i));
                        }
                        _ => return Err(format!("bad array at {}", self.i)),
                    }
                }
            }
            b'{' => {
                let start = self.i;
                self.i += 1;
                let mut v = vec![];
                self.ws();
                if self.s.get(self.i) == Some(&b'}') {
                    self.i += 1;
                    return Ok(J::Obj(v, start, self.i));
                }
                loop {
                    self.ws();
                    let k = self.string()?;
                    self.ws();
                    self.eat(b":")?;
                    let x = self.value()?;
                    v.push((k, x));
                    self.ws();
                    match self.s.get(self.i) {
                        Some(b',') => self.i += 1,
                        Some(b'}') => {
                            self.i += 1;
                            return Ok(J::Obj(v, start, self.i));
                        }
                        _ => return Err(format!("bad object at {}", self.i)),
                    }
                }
            }
            b'-' | b'0'..=b'9' => {
                let st = self.i;
                while self.i < self.s.len()
                    && matches!(self.s[self.i], b'-' | b'+' | b'.' | b'e' | b'E' | b'0'..=b'9')
                {
                    self.i += 1;
                }
                Ok(J::Num(String::from_utf8(self.s[st..self.i].to_vec()).unwrap()))
            }
            c => Err(format!("unexpected byte {c} at {}", self.i)),
        }
    }
    fn hex4(&mut self) -> Result<u32, String> {
        if self.i + 4 > self.s.len() {
            return Err("short \\u".into());
        }
        let t = std::str::from_utf8(&self.s[self.i..self.i + 4]).map_err(|e| e.to_string())?;
        self.i += 4;
        u32::from_str_radix(t, 16).map_err(|e| e.to_string())
    }
    fn string(&mut self) -> Result<Vec<u8>, String> {
        if self.s.get(self.i) != Some(&b'"') {
            return Err(format!("expected string at {}", self.i));
        }
        self.i += 1;
        let mut out = vec![];
        loop {
            let c = *self.s.get(self.i).ok_or("eof in string")?;
            self.i += 1;
            match c {
                b'"' => return Ok(out),
                b'\\' => {
                    let e = *self.s.get(self.i).ok_or("eof in escape")?;
                    self.i += 1;
                    match e {
                        b'"' => out.push(b'"'),
                        b'\\' => out.push(b'\\'),
                        b'/' => out.push(b'/'),
                        b'b' => out.push(8),
                        b'f' => out.push(12),
                        b'n' => out.push(10),
                        b'r' => out.push(13),
                        b't' => out.push(9),
                        b'u' => {
                            let mut cp = self.hex4()?;
                            if (0xD800..0xDC00).contains(&cp) {
                                self.eat(b"\\u")?;
                                let lo = self.hex4()?;
                                cp = 0x10000 + ((cp - 0xD800) << 10) + (lo - 0xDC00);
                            }
                            let ch = char::from_u32(cp).ok_or("bad code point")?;
                            let mut b = [0u8; 4];
                            out.extend_from_slice(ch.encode_utf8(&mut b).as_bytes());
                        }
                        _ => return Err("bad escape".into()),
                    }
                }
                c => out.push(c),
            }
        }
    }
}

fn parse_json(s: &[u8]) -> Result<J, String> {
    let mut p = P { s, i: 0 };
    let v = p.value()?;
    p.ws();
    if p.i != s.len() {
        return Err(format!("trailing bytes at {}", p.i));
    }
    Ok(v)
}

fn member<'a>(o: &'a J, key: &str) -> Option<&'a J> {
    match o {
        J::Obj(m, _, _) => m.iter().find(|(k, _)| k == key.as_bytes()).map(|(_, v)| v),
        _ => None,
    }
}

// ------------------------------------------------------------------ decoded logical cells

#[derive(Debug, Clone, PartialEq)]
enum Cell {
    Null,
    Bool(bool),
    Int(i128),
    Float(u64),
    Str(Vec<u8>),
    Json(Vec<u8>),
}

fn show_cell(c: &Cell) -> String {
    match c {
        Cell::Null => "n".into(),
        Cell::Bool(b) => if *b { "b1".into() } else { "b0".into() },
        Cell::Int(i) => format!("i{i}"),
        Cell::Float(b) => format!("d{b:016x}"),
        Cell::Str(s) => format!("s{}", hex(s)),
        Cell::Json(s) => format!("j{}", hex(s)),
    }
}

fn show_row(r: &[Cell]) -> String {
    format!("({})", r.iter().map(show_cell).collect::<Vec<_>>().join(","))
}

/// Numbers numerically, nulls as nulls, strings bytewise.
fn cell_eq(a: &Cell, b: &Cell) -> bool {
    fn int_of_float(bits: u64) -> Option<i128> {
        let f = f64::from_bits(bits);
        if !f.is_finite() || f.fract() != 0.0 || f.abs() >= 1.7e38 {
            return None;
        }
        Some(f as i128)
    }
    match (a, b) {
        (Cell::Null, Cell::Null) => true,
        (Cell::Bool(x), Cell::Bool(y)) => x == y,
        (Cell::Int(x), Cell::Int(y)) => x == y,
        (Cell::Float(x), Cell::Float(y)) => {
            let (fx, fy) = (f64::from_bits(*x), f64::from_bits(*y));
            !fx.is_nan() && !fy.is_nan() && fx == fy
        }
        (Cell::Int(x), Cell::Float(y)) | (Cell::Float(y), Cell::Int(x)) => int_of_float(*y) == Some(*x),
        (Cell::Str(x), Cell::Str(y)) => x == y,
        (Cell::Json(x), Cell::Json(y)) => x == y,
        _ => false,
    }
}

fn cell_of_json(v: &J, src: &[u8]) -> Result<Cell, String> {
    Ok(match v {
        J::Null => Cell::Null,
        J::Bool(b) => Cell::Bool(*b),
        J::Num(raw) => {
            if raw.contains(['.', 'e', 'E']) {
                Cell::Float(raw.parse::<f64>().map_err(|e| format!("{raw}: {e}"))?.to_bits())
            } else {
                Cell::Int(raw.parse::<i128>().map_err(|e| format!("{raw}: {e}"))?)
            }
        }
        J::Str(s) => Cell::Str(s.clone()),
        J::Arr(_, a, b) | J::Obj(_, a, b) => {
            // canonical compact text of the container
            let v: serde_json::Value = serde_json::from_slice(&src[*a..*b]).map_err(|e| e.to_string())?;
            Cell::Json(serde_json::to_string(&v).unwrap().into_bytes())
        }
    })
}

// ------------------------------------------------------------------ decoded streams

#[derive(Debug)]
enum Frame {
    Batch(Vec<Vec<Cell>>),
    Row(Vec<Cell>),
}

#[derive(Debug)]
struct JStream {
    cols: Vec<(Vec<u8>, Vec<u8>)>,
    frames: Vec<Frame>,
    end: Option<i128>,
}

impl JStream {
    fn rows(&self) -> Vec<&Vec<Cell>> {
        let mut v = vec![];
        for f in &self.frames {
            match f {
                Frame::Batch(rs) => v.extend(rs.iter()),
                Frame::Row(r) => v.push(r),
            }
        }
        v
    }
    fn show(&self, tag: &str) -> String {
        let cols = self.cols.iter().map(|(n, t)| format!("{}:{}", hex(n), hex(t))).collect::<Vec<_>>().join(",");
        let frames = self
            .frames
            .iter()
            .map(|f| match f {
                Frame::Batch(rs) => format!("B{}", rs.iter().map(|r| show_row(r)).collect::<String>()),
                Frame::Row(r) => format!("R{}", show_row(r)),
            })
            .collect::<Vec<_>>()
            .join(";");
        let end = self.end.map(|e| e.to_string()).unwrap_or("-".into());
        format!("{tag} cols=[{cols}] frames=[{frames}] end={end}")
    }
}

fn decode_frames(bytes: &[u8]) -> Result<JStream, String> {
    let mut st = JStream { cols: vec![], frames: vec![], end: None };
    let mut seen_schema = false;
    let lines: Vec<&[u8]> = bytes.split(|b| *b == b'\n').collect();
    if lines.last().map(|l| !l.is_empty()).unwrap_or(true) {
        return Err("output does not end with a newline".into());
    }
    for line in &lines[..lines.len() - 1] {
        let v = parse_json(line)?;
        let ty = match member(&v, "type") {
            Some(J::Str(s)) => String::from_utf8_lossy(s).to_string(),
            _ => return Err("frame without type".into()),
        };
        if st.end.is_some() {
            return Err("frame after end".into());
        }
        match ty.as_str() {
            "schema" => {
                if seen_schema {
                    return Err("two schema frames".into());
                }
                seen_schema = true;
                match member(&v, "columns") {
                    Some(J::Arr(cs, _, _)) => {
                        for c in cs {
                            match (member(c, "name"), member(c, "logical_type")) {
                                (Some(J::Str(n)), Some(J::Str(t))) => st.cols.push((n.clone(), t.clone())),
                                _ => return Err("bad column".into()),
                            }
                        }
                    }
                    _ => return Err("schema without columns".into()),
                }
            }
            "batch" => {
                if !seen_schema {
                    return Err("batch before schema".into());
                }
                match member(&v, "rows") {
                    Some(J::Arr(rows, _, _)) => {
                        let mut out = vec![];
                        for r in rows {
                            match r {
                                J::Arr(cells, _, _) => {
                                    out.push(cells.iter().map(|c| cell_of_json(c, line)).collect::<Result<Vec<_>, _>>()?)
                                }
                                _ => return Err("row is not an array".into()),
                            }
                        }
                        st.frames.push(Frame::Batch(out));
                    }
                    _ => return Err("batch without rows".into()),
                }
            }
            "row" => {
                if !seen_schema {
                    return Err("row before schema".into());
                }
                match member(&v, "values") {
                    Some(J::Obj(kv, _, _)) => {
                        // keys must be the column names, in order
                        if kv.len() != st.cols.len() || kv.iter().zip(&st.cols).any(|((k, _), (n, _))| k != n) {
                            return Err("row keys differ from the schema's column names".into());
                        }
                        st.frames.push(Frame::Row(
                            kv.iter().map(|(_, c)| cell_of_json(c, line)).collect::<Result<Vec<_>, _>>()?,
                        ));
                    }
                    _ => return Err("row without values".into()),
                }
            }
            "end" => match member(&v, "row_count") {
                Some(J::Num(n)) => st.end = Some(n.parse::<i128>().map_err(|e| e.to_string())?),
                _ => return Err("end without row_count".into()),
            },
            other => return Err(format!("unknown frame type {other}")),
        }
    }
    if !seen_schema {
        return Err("no schema frame".into());
    }
    Ok(st)
}

#[derive(Debug)]
struct AStream {
    cols: Vec<(Vec<u8>, String)>,
    batches: Vec<Vec<Vec<Cell>>>,
}

impl AStream {
    fn rows(&self) -> Vec<&Vec<Cell>> {
        self.batches.iter().flat_map(|b| b.iter()).collect()
    }
    fn show(&self) -> String {
        let cols = self.cols.iter().map(|(n, t)| format!("{}:{}", hex(n), t)).collect::<Vec<_>>().join(",");
        let batches = self
            .batches
            .iter()
            .map(|b| b.iter().map(|r| show_row(r)).collect::<String>())
            .collect::<Vec<_>>()
            .join(";");
        format!("A cols=[{cols}] batches=[{batches}]")
    }
}

fn decode_arrow(bytes: &[u8]) -> Result<AStream, String> {
    // the stream must end with the end-of-stream marker
    if bytes.len() < 8 || bytes[bytes.len() - 8..] != [0xff, 0xff, 0xff, 0xff, 0, 0, 0, 0] {
        return Err("no end-of-stream marker".into());
    }
    let reader = StreamReader::try_new(Cursor::new(bytes.to_vec()), None).map_err(|e| e.to_string())?;
    let schema = reader.schema();
    let mut cols = vec![];
    for f in schema.fields() {
        let t = match f.data_type() {
            DataType::Int64 => "i64",
            DataType::Float64 => "f64",
            DataType::Boolean => "bool",
            DataType::Timestamp(TimeUnit::Millisecond, None) => "tsms",
            DataType::LargeUtf8 => "lutf8",
            other => return Err(format!("unexpected arrow type {other:?}")),
        };
        cols.push((f.name().as_bytes().to_vec(), t.to_string()));
    }
    let mut batches = vec![];
    for b in reader {
        let b = b.map_err(|e| e.to_string())?;
        let n = b.num_rows();
        let mut rows: Vec<Vec<Cell>> = (0..n).map(|_| Vec::with_capacity(b.num_columns())).collect();
        for ci in 0..b.num_columns() {
            let arr = b.column(ci);
            for (ri, row) in rows.iter_mut().enumerate() {
                let cell = if arr.is_null(ri) {
                    Cell::Null
                } else if let Some(a) = arr.as_any().downcast_ref::<Int64Array>() {
                    Cell::Int(a.value(ri) as i128)
                } else if let Some(a) = arr.as_any().downcast_ref::<Float64Array>() {
                    Cell::Float(a.value(ri).to_bits())
                } else if let Some(a) = arr.as_any().downcast_ref::<BooleanArray>() {
                    Cell::Bool(a.value(ri))
                } else if let Some(a) = arr.as_any().downcast_ref::<TimestampMillisecondArray>() {
                    Cell::Int(a.value(ri) as i128)
                } else if let Some(a) = arr.as_any().downcast_ref::<LargeStringArray>() {
                    Cell::Str(a.value(ri).as_bytes().to_vec())
                } else {
                    return Err("unexpected array type".into());
                };
                row.push(cell);
            }
        }
        batches.push(rows);
    }
    Ok(AStream { cols, batches })
}

/// Decodes frames produced by calling `stream_batch` / `stream_row` directly (no schema frame):
/// the rows they carry, in order.
fn decode_bare_frames(bytes: &[u8], cols: &[(String, String)]) -> Result<Vec<Vec<Cell>>, String> {
    let mut out = vec![];
    for line in bytes.split(|b| *b == b'\n').filter(|l| !l.is_empty()) {
        let v = parse_json(line)?;
        match member(&v, "type") {
            Some(J::Str(t)) if t == b"batch" => match member(&v, "rows") {
                Some(J::Arr(rows, _, _)) => {
                    for r in rows {
                        match r {
                            J::Arr(cells, _, _) => out.push(cells.iter().map(|c| cell_of_json(c, line)).collect::<Result<Vec<_>, _>>()?),
                            _ => return Err("row is not an array".into()),
                        }
                    }
                }
                _ => return Err("batch without rows".into()),
            },
            Some(J::Str(t)) if t == b"row" => match member(&v, "values") {
                Some(J::Obj(kv, _, _)) => {
                    if kv.len() != cols.len() || kv.iter().zip(cols).any(|((k, _), (n, _))| k != n.as_bytes()) {
                        return Err("row keys differ from the column names".into());
                    }
                    out.push(kv.iter().map(|(_, c)| cell_of_json(c, line)).collect::<Result<Vec<_>, _>>()?);
                }
                _ => return Err("row without values".into()),
            },
            _ => return Err("unexpected frame".into()),
        }
    }
    Ok(out)
}

/// Decoded buffered rendering of a table.
struct Rendered {
    status: Option<i128>,
    count: Option<i128>,
    cols: Vec<(Vec<u8>, Vec<u8>)>,
    rows: Vec<Vec<Cell>>,
}

impl Rendered {
    fn show(&self, tag: &str) -> String {
        let cols = self.cols.iter().map(|(n, t)| format!("{}:{}", hex(n), hex(t))).collect::<Vec<_>>().join(",");
        format!(
            "{tag} status={} count={} cols=[{cols}] rows={}",
            self.status.map(|x| x.to_string()).unwrap_or("-".into()),
            self.count.map(|x| x.to_string()).unwrap_or("-".into()),
            self.rows.iter().map(|r| show_row(r)).collect::<String>()
        )
    }
}

fn num_member(o: &J, k: &str) -> Option<i128> {
    match member(o, k) {
        Some(J::Num(n)) => n.parse().ok(),
        _ => None,
    }
}

/// `{"columns":[..],"rows":[[..]]}`; a column is `{"name","type"}` (JSON / Arrow renderer) or
/// `[name, type]` (text renderer).
fn decode_table_obj(t: &J, src: &[u8]) -> Result<(Vec<(Vec<u8>, Vec<u8>)>, Vec<Vec<Cell>>), String> {
    let mut cols = vec![];
    match member(t, "columns") {
        Some(J::Arr(cs, _, _)) => {
            for c in cs {
                match c {
                    J::Arr(p, _, _) if p.len() == 2 => match (&p[0], &p[1]) {
                        (J::Str(n), J::Str(ty)) => cols.push((n.clone(), ty.clone())),
                        _ => return Err("bad column pair".into()),
                    },
                    _ => match (member(c, "name"), member(c, "type")) {
                        (Some(J::Str(n)), Some(J::Str(ty))) => cols.push((n.clone(), ty.clone())),
                        _ => return Err("bad column".into()),
                    },
                }
            }
        }
        _ => return Err("table without columns".into()),
    }
    let mut rows = vec![];
    match member(t, "rows") {
        Some(J::Arr(rs, _, _)) => {
            for r in rs {
                match r {
                    J::Arr(cells, _, _) => rows.push(cells.iter().map(|c| cell_of_json(c, src)).collect::<Result<Vec<_>, _>>()?),
                    _ => return Err("row is not an array".into()),
                }
            }
        }
        _ => return Err("table without rows".into()),
    }
    Ok((cols, rows))
}

/// Reader of `render(Response::ok_table(..))` for renderer `tag` (`j`, `u`, `a`).
fn decode_rendered(tag: char, out: &[u8]) -> Result<Rendered, String> {
    match tag {
        'u' => {
            // "<code> <message>\n<table json>\n"
            let nl = out.iter().position(|b| *b == b'\n').ok_or("no header line")?;
            let head = &out[..nl];
            let code = head.split(|b| *b == b' ').next().unwrap_or(&[]);
            let status = std::str::from_utf8(code).ok().and_then(|t| t.parse::<i128>().ok());
            let body = out[nl + 1..].strip_suffix(b"\n").ok_or("no table line")?;
            let t = parse_json(body)?;
            let (cols, rows) = decode_table_obj(&t, body)?;
            Ok(Rendered { status, count: None, cols, rows })
        }
        _ => {
            let line = out.strip_suffix(b"\n").ok_or("no trailing newline")?;
            let v = parse_json(line)?;
            let t = match member(&v, "results") {
                Some(J::Arr(a, _, _)) if a.len() == 1 => &a[0], // JSON renderer: [ {table} ]
                Some(t @ J::Obj(..)) => t,                       // Arrow renderer: {table}
                _ => return Err("no results".into()),
            };
            let (cols, rows) = decode_table_obj(t, line)?;
            Ok(Rendered { status: num_member(&v, "status"), count: num_member(&v, "count"), cols, rows })
        }
    }
}

// ------------------------------------------------------------------ generated cases

#[derive(Clone, Copy, PartialEq, Debug)]
enum Builder {
    Int64,
    Float64,
    Bool,
    Ts,
    Utf8,
}

/// Independent statement of which Arrow array a declared logical type gets.
fn builder_of(t: &str) -> Builder {
    match t {
        "Integer" | "Number" => Builder::Int64,
        "Float" => Builder::Float64,
        "Boolean" => Builder::Bool,
        "Timestamp" => Builder::Ts,
        _ if ["String", "JSON", "Object", "Array"].contains(&t) => Builder::Utf8,
        _ if t.starts_with("UInt") => Builder::Int64,
        _ => Builder::Utf8,
    }
}

#[derive(Clone, Debug)]
enum WriterKind {
    Query,
    Show { materialized: usize, watermark: bool },
}

struct Case {
    writer: WriterKind,
    limit: Option<u32>,
    offset: Option<u32>,
    cols: Vec<(String, String)>,
    batches: Vec<Vec<Vec<ScalarValue>>>, // batch → row → cell
}

const TYPES: &[&str] = &[
    "Integer", "Integer", "Float", "Float", "Boolean", "Timestamp", "String", "String", "String", "Number", "JSON",
    "Object", "Array", "UInt64", "UInt", "Binary", "Null", "integer", "", "Date", "Enum", "Unknown",
];
const NAMES: &[&str] = &["k", "v", "ts", "name", "é✓", "a b", "status", "timestamp", "context_id", "x\"y", "payload.f", "type"];

/// Integers whose conversion to f64 rounds: above 2^53, incl. exact ties and carries.
fn gen_rounding_int(r: &mut Rng) -> i64 {
    let k = 54 + r.below(9) as u32; // top bit 54..62
    let sh = k - 52;
    let q = (1u64 << 52) | (r.next() & ((1u64 << 52) - 1));
    let q = match r.below(4) {
        0 => q | 1,                 // odd mantissa
        1 => q & !1,                // even mantissa
        2 => (1u64 << 53) - 1,      // all ones: rounding up carries into the exponent
        _ => q,
    };
    let low = match r.below(5) {
        0 => 1u64 << (sh - 1),                  // exact tie
        1 => (1u64 << (sh - 1)) + 1,            // just above the tie
        2 => (1u64 << (sh - 1)) - 1,            // just below the tie
        3 => 0,
        _ => r.next() & ((1u64 << sh) - 1),
    };
    let mag = ((q as u128) << sh | low as u128).min(i64::MAX as u128) as i64;
    if r.chance(1, 2) { mag } else { -mag }
}

fn gen_int(r: &mut Rng) -> i64 {
    if r.chance(1, 12) {
        return gen_rounding_int(r);
    }
    match r.below(10) {
        0 => 0,
        1 => i64::MAX,
        2 => i64::MIN,
        3 => (1i64 << 53) + r.range(-2, 2),
        4 => -(1i64 << 53) + r.range(-2, 2),
        5 => r.next() as i64,
        6 => i64::MAX - r.range(0, 1000),
        _ => r.range(-1000, 1000),
    }
}

fn gen_finite_float(r: &mut Rng) -> f64 {
    match r.below(14) {
        0 => 0.0,
        1 => -0.0,
        2 => 1.5,
        3 => 2.0,
        4 => 1e15,
        5 => 1e16,
        6 => 9007199254740992.0,
        7 => 1e21,
        8 => 1e300,
        9 => 5e-324,
        10 => -123456.789,
        11 => (r.range(-100000, 100000) as f64) / 8.0,
        12 => r.range(-1000, 1000) as f64,
        _ => loop {
            let f = f64::from_bits(r.next());
            if f.is_finite() {
                break f;
            }
        },
    }
}

fn gen_plain_string(r: &mut Rng) -> String {
    const WORDS: &[&str] = &[
        "", "alpha", "beta", "héllo wörld", "日本語", "a\"b", "back\\slash", "line\nbreak", "tab\there", "\u{1}\u{1f}", " lead",
        "trail ", "null", "true", "False", "1", "0", "123", "-45", "+7", "1.5", "1e3", "nan", "inf", "-inf", "0x10", "1_000",
        "9223372036854775807", "9223372036854775808", "-9223372036854775808", "007", "[1,2", "{\"a\":", "\"quoted\"", "🦀",
        "\u{7f}", "a/b", "<&>", "\u{2028}",
    ];
    if r.chance(1, 5) {
        let n = r.below(12) as usize;
        (0..n).map(|_| char::from_u32(32 + r.below(95) as u32).unwrap()).collect()
    } else {
        r.pick(WORDS).to_string()
    }
}

/// Strings `to_json` re-parses: JSON containers and unsigned numbers above i64::MAX.
fn gen_reparsed_string(r: &mut Rng) -> String {
    const S: &[&str] = &[
        "[1,2]", "{\"a\":1}", " [ ] ", "{}", "[]", "{\"b\":1,\"a\":2}", "[1.5,\"x\",null,true,{\"k\":[0.25]}]", "[\"é\"]",
        "\n{\"a\" : \"b\"}\t", "[-0]", "{\"a\":1,\"a\":2}", "[18446744073709551615]", "9223372036854775808", "18446744073709551615",
        " 9223372036854775809", "12345678901234567890\n", "[\"\\u00e9\\n\"]",
    ];
    r.pick(S).to_string()
}

fn gen_any(r: &mut Rng) -> ScalarValue {
    match r.below(14) {
        0 => ScalarValue::Null,
        1 => ScalarValue::Boolean(r.chance(1, 2)),
        2 | 3 => ScalarValue::Int64(gen_int(r)),
        4 => ScalarValue::Float64(gen_finite_float(r)),
        5 => ScalarValue::Float64(*r.pick(&[f64::NAN, f64::INFINITY, f64::NEG_INFINITY, -f64::NAN])),
        6 => ScalarValue::Timestamp(gen_int(r)),
        7 | 8 | 9 => ScalarValue::Utf8(gen_plain_string(r)),
        10 | 11 => ScalarValue::Utf8(gen_reparsed_string(r)),
        12 => ScalarValue::Binary((0..r.below(7)).map(|_| r.below(256) as u8).collect()),
        _ => ScalarValue::Int64(r.range(0, 3)),
    }
}

/// A cell whose runtime type is the declared one (see `conforms`).
fn gen_conforming(r: &mut Rng, b: Builder) -> ScalarValue {
    if r.chance(1, 8) {
        return ScalarValue::Null;
    }
    match b {
        Builder::Int64 => {
            if r.chance(1, 10) {
                ScalarValue::Timestamp(gen_int(r))
            } else {
                ScalarValue::Int64(gen_int(r))
            }
        }
        Builder::Float64 => ScalarValue::Float64(gen_finite_float(r)),
        Builder::Bool => ScalarValue::Boolean(r.chance(1, 2)),
        Builder::Ts => {
            if r.chance(1, 3) {
                ScalarValue::Int64(gen_int(r))
            } else {
                ScalarValue::Timestamp(gen_int(r))
            }
        }
        Builder::Utf8 => loop {
            let s = gen_plain_string(r);
            if reparse_hint(&s).is_none() && big_u64(&s).is_none() {
                break ScalarValue::Utf8(s);
            }
        },
    }
}

fn gen_case(r: &mut Rng, big: bool) -> Case {
    let ncols = 1 + r.below(5) as usize;
    let with_id = r.chance(3, 5);
    let mut names: Vec<String> = vec![];
    let mut pool: Vec<&str> = NAMES.to_vec();
    r.shuffle(&mut pool);
    for i in 0..ncols {
        names.push(pool[i].to_string());
    }
    if with_id {
        let at = r.below(ncols as u64) as usize;
        names[at] = "event_id".into();
    }
    let mut cols = vec![];
    for n in &names {
        let t = if n == "event_id" && r.chance(4, 5) { "Integer" } else { *r.pick(TYPES) };
        cols.push((n.clone(), t.to_string()));
    }
    // 0 = every cell conforms; otherwise 1/den of the cells are arbitrary
    let den = match r.below(8) {
        0..=3 => 0,
        4 => 2,
        5 => 4,
        _ => 10,
    };
    let ints_in_float = r.chance(1, 10);
    // in a third of the cases string columns often hold JSON text / digit strings above i64::MAX
    // (the strings `to_json` re-parses), also in otherwise conforming tables
    let reparsed_strings = r.chance(1, 3);
    let id_range = 1 + r.below(12) as i64;
    let nb = if big { r.below(9) } else { r.below(6) } as usize;
    let mut batches = vec![];
    for _ in 0..nb {
        let nr = match r.below(8) {
            0 => 0,
            1 => 1,
            _ => r.below(if big { 40 } else { 8 }) as usize,
        };
        let mut rows = vec![];
        for _ in 0..nr {
            let mut row = vec![];
            for (n, t) in &cols {
                let b = builder_of(t);
                let cell = if n == "event_id" && r.chance(9, 10) {
                    match r.below(20) {
                        0 => ScalarValue::Null,
                        1 => ScalarValue::Utf8(r.range(0, id_range).to_string()),
                        2 => ScalarValue::Int64(-r.range(1, 3)),
                        3 => ScalarValue::Utf8(format!("+{}", r.range(0, id_range))),
                        4 => ScalarValue::Timestamp(r.range(0, id_range)),
                        _ => ScalarValue::Int64(r.range(0, id_range * 3)),
                    }
                } else if ints_in_float && b == Builder::Float64 && r.chance(2, 3) {
                    ScalarValue::Int64(if r.chance(2, 3) { gen_rounding_int(r) } else { gen_int(r) })
                } else if reparsed_strings && b == Builder::Utf8 && r.chance(1, 3) {
                    ScalarValue::Utf8(gen_reparsed_string(r))
                } else if den != 0 && r.chance(1, den) {
                    gen_any(r)
                } else {
                    gen_conforming(r, b)
                };
                row.push(cell);
            }
            rows.push(row);
        }
        batches.push(rows);
    }
    let total: u64 = batches.iter().map(|b| b.len() as u64).sum();
    let limit = if r.chance(2, 5) { None } else { Some(r.below(total + 3) as u32) };
    let offset = if r.chance(1, 2) { None } else { Some(r.below(total + 2) as u32) };
    let writer = if r.chance(3, 5) {
        WriterKind::Query
    } else {
        WriterKind::Show { materialized: r.below(4) as usize, watermark: r.chance(1, 4) }
    };
    Case { writer, limit, offset, cols, batches }
}

// ------------------------------------------------------------------ external-library answers

/// `serde_json::from_str` yields an object/array → its compact text (hint for the model).
fn reparse_hint(s: &str) -> Option<String> {
    match serde_json::from_str::<serde_json::Value>(s) {
        Ok(v @ (serde_json::Value::Array(_) | serde_json::Value::Object(_))) => Some(serde_json::to_string(&v).unwrap()),
        _ => None,
    }
}

/// Independent statement of "JSON text of an unsigned integer above i64::MAX".
fn big_u64(s: &str) -> Option<u64> {
    let t = s.trim_matches(|c| c == ' ' || c == '\n' || c == '\r' || c == '\t');
    if t.is_empty() || !t.bytes().all(|b| b.is_ascii_digit()) || t.starts_with('0') {
        return None;
    }
    t.parse::<u64>().ok().filter(|u| *u > i64::MAX as u64)
}

fn cell_token(v: &ScalarValue) -> String {
    match v {
        ScalarValue::Null => "n".into(),
        ScalarValue::Boolean(b) => if *b { "b1".into() } else { "b0".into() },
        ScalarValue::Int64(i) => format!("i{i}"),
        ScalarValue::Timestamp(t) => format!("t{t}"),
        ScalarValue::Float64(f) => format!("f{:016x}/{}", f.to_bits(), hexs(&format!("{f}"))),
        ScalarValue::Utf8(s) => {
            let pf = s.parse::<f64>().ok().map(|f| format!("{:016x}", f.to_bits())).unwrap_or("-".into());
            let pc = reparse_hint(s).map(|c| hexs(&c)).unwrap_or("-".into());
            format!("s{}/{}/{}", hexs(s), pf, pc)
        }
        ScalarValue::Binary(b) => format!("x{}", hex(b)),
    }
}

fn op_line(c: &Case, batch_mode: bool) -> String {
    let mut t = vec!["table".to_string()];
    t.push(match &c.writer {
        WriterKind::Query => "q".into(),
        WriterKind::Show { materialized, watermark } => format!("s:{}:{}", materialized, *watermark as u8),
    });
    t.push(c.limit.map(|l| l.to_string()).unwrap_or("-".into()));
    t.push(c.offset.map(|l| l.to_string()).unwrap_or("-".into()));
    t.push((batch_mode as u8).to_string());
    t.push(c.cols.len().to_string());
    for (n, ty) in &c.cols {
        t.push(hexs(n));
        t.push(hexs(ty));
    }
    t.push(c.batches.len().to_string());
    for b in &c.batches {
        t.push(b.len().to_string());
        for row in b {
            for cell in row {
                t.push(cell_token(cell));
            }
        }
    }
    t.join(" ")
}

// ------------------------------------------------------------------ running the real writers

fn run_writer(rt: &tokio::runtime::Runtime, c: &Case, renderer: &dyn Renderer) -> Result<Vec<u8>, String> {
    let specs: Vec<ColumnSpec> =
        c.cols.iter().map(|(n, t)| ColumnSpec { name: n.clone(), logical_type: t.clone() }).collect();
    let schema = Arc::new(BatchSchema::new(specs).map_err(|e| e.to_string())?);
    rt.block_on(async {
        let (tx, rx) = FlowChannel::bounded(c.batches.len() + 1, FlowMetrics::new());
        for b in &c.batches {
            let mut columns: Vec<Vec<ScalarValue>> = vec![Vec::with_capacity(b.len()); c.cols.len()];
            for row in b {
                for (ci, cell) in row.iter().enumerate() {
                    columns[ci].push(cell.clone());
                }
            }
            let batch = snel_db::verif::column_batch(Arc::clone(&schema), columns, b.len()).map_err(|e| e.to_string())?;
            tx.send(Arc::new(batch)).await.map_err(|_| "send failed".to_string())?;
        }
        drop(tx);
        let stream = snel_db::verif::query_batch_stream(Arc::clone(&schema), rx);
        let mut out: Vec<u8> = Vec::new();
        match &c.writer {
            WriterKind::Query => {
                QueryResponseWriter::new(&mut out, renderer, Arc::clone(&schema), c.limit, c.offset)
                    .write(stream)
                    .await
                    .map_err(|e| e.to_string())?;
            }
            WriterKind::Show { materialized, watermark } => {
                let r = ShowResponseWriter::new(
                    &mut out,
                    renderer,
                    Arc::clone(&schema),
                    *materialized,
                    *watermark,
                    c.limit,
                    c.offset,
                )
                .write(stream)
                .await;
                if r.is_err() {
                    return Err("show writer failed".into());
                }
            }
        }
        Ok(out)
    })
}

// ------------------------------------------------------------------ the property, stated independently

/// Event id of a row as the writers read it.
fn id_of(v: &ScalarValue) -> Option<u64> {
    match v {
        ScalarValue::Int64(i) | ScalarValue::Timestamp(i) if *i >= 0 => Some(*i as u64),
        ScalarValue::Utf8(s) => s.parse::<u64>().ok(),
        _ => None,
    }
}

/// Rows the response has to contain: first occurrence per event id (SHOW: leading
/// materialised frames are kept whole), then OFFSET, then LIMIT.
fn expected_rows(c: &Case) -> Vec<&Vec<ScalarValue>> {
    let idx = c.cols.iter().position(|(n, _)| n == "event_id");
    let mut seen = std::collections::BTreeSet::new();
    let mut cand = vec![];
    let mut frame = 0usize;
    for b in &c.batches {
        if b.is_empty() {
            continue;
        }
        for row in b {
            let id = idx.and_then(|i| id_of(&row[i]));
            let keep = match (&c.writer, id) {
                (_, None) => true,
                (WriterKind::Show { watermark: true, .. }, _) => true,
                (WriterKind::Show { materialized, .. }, Some(id)) if frame < *materialized => {
                    seen.insert(id);
                    true
                }
                (_, Some(id)) => seen.insert(id),
            };
            if keep {
                cand.push(row);
            }
        }
        frame += 1;
    }
    let off = c.offset.unwrap_or(0) as usize;
    let lim = c.limit.map(|l| l as usize).unwrap_or(usize::MAX);
    cand.into_iter().skip(off).take(lim).collect()
}

/// The logical value of a cell: what every encoding is supposed to carry.
fn logical(v: &ScalarValue) -> Cell {
    match v {
        ScalarValue::Null => Cell::Null,
        ScalarValue::Boolean(b) => Cell::Bool(*b),
        ScalarValue::Int64(i) | ScalarValue::Timestamp(i) => Cell::Int(*i as i128),
        ScalarValue::Float64(f) => Cell::Float(f.to_bits()),
        ScalarValue::Utf8(s) => Cell::Str(s.as_bytes().to_vec()),
        ScalarValue::Binary(b) => Cell::Str(b.clone()), // no encoding carries raw bytes; see class below
    }
}

/// Runtime type of the cell is the declared logical type of its column.
fn conforms(b: Builder, v: &ScalarValue) -> bool {
    match (b, v) {
        (_, ScalarValue::Null) => true,
        (Builder::Int64, ScalarValue::Int64(_) | ScalarValue::Timestamp(_)) => true,
        (Builder::Float64, ScalarValue::Float64(_)) => true,
        (Builder::Bool, ScalarValue::Boolean(_)) => true,
        (Builder::Ts, ScalarValue::Int64(_) | ScalarValue::Timestamp(_)) => true,
        (Builder::Utf8, ScalarValue::Utf8(_)) => true,
        _ => false,
    }
}

/// Finding class a generated cell can fall into (input statistics only; the oracle decides
/// from what the encodings actually carry, see `oracle`).
fn class_of(b: Builder, v: &ScalarValue) -> &'static str {
    match v {
        ScalarValue::Float64(f) if !f.is_finite() => "nonfinite-float",
        ScalarValue::Utf8(s) if reparse_hint(s).is_some() || big_u64(s).is_some() => "string-reparsed",
        _ if !conforms(b, v) => "arrow-type-mismatch",
        _ => "-",
    }
}

/// Kind of a cell value, for the statistics.
fn kind_of(v: &ScalarValue) -> &'static str {
    match v {
        ScalarValue::Null => "null",
        ScalarValue::Boolean(_) => "bool",
        ScalarValue::Int64(_) => "int",
        ScalarValue::Timestamp(_) => "timestamp",
        ScalarValue::Float64(f) if f.is_finite() => "float",
        ScalarValue::Float64(_) => "float-nonfinite",
        ScalarValue::Utf8(s) if reparse_hint(s).is_some() => "string-json-text",
        ScalarValue::Utf8(s) if big_u64(s).is_some() => "string-digits-above-i64max",
        ScalarValue::Utf8(_) => "string",
        ScalarValue::Binary(_) => "binary",
    }
}

/// The value the open finding `string-reparsed` says the JSON-family encodings carry for a
/// re-parsed string: the parsed container, or the unsigned number.
fn reparsed_value(v: &ScalarValue) -> Option<Cell> {
    match v {
        ScalarValue::Utf8(s) => reparse_hint(s)
            .map(|c| Cell::Json(c.into_bytes()))
            .or_else(|| big_u64(s).map(|u| Cell::Int(u as i128))),
        _ => None,
    }
}

struct Verdict {
    fails: Vec<(&'static str, String)>,
    family_cells: u64,
}

/// The property on the decoded encodings.
///
/// `family` = every JSON-family encoding of the case (JSON frames, text frames, the other frame
/// kind of both renderers, the three buffered renderings) with the rows it carries; `a` = the
/// Arrow stream. A finding class explains a failing cell only when the disagreement is exactly
/// the one the finding describes:
///   * any two JSON-family encodings differ on a cell            → `-` (always a violation)
///   * the family carries null for a non-finite float            → `nonfinite-float`
///   * the family carries the parsed container / unsigned number
///     of a re-parsed string (all of them the same value)         → `string-reparsed`
///   * the family carries anything else than the cell's value    → `-`
///   * Arrow differs from the cell's value and the cell's runtime
///     type is not the column's declared type                     → `arrow-type-mismatch`
///   * Arrow differs from a conforming cell's value              → `-`
fn oracle(c: &Case, j: &JStream, u: &JStream, a: &AStream, family: &[(&'static str, Vec<Vec<Cell>>)], rendered: &[(&'static str, &Rendered)]) -> Verdict {
    let mut fails: Vec<(&'static str, String)> = vec![];
    let mut family_cells = 0u64;
    let mut add = |cl: &'static str, d: String| {
        if !fails.iter().any(|(c, _)| *c == cl) {
            fails.push((cl, d));
        }
    };
    let names: Vec<Vec<u8>> = c.cols.iter().map(|(n, _)| n.as_bytes().to_vec()).collect();
    let jn: Vec<Vec<u8>> = j.cols.iter().map(|(n, _)| n.clone()).collect();
    let un: Vec<Vec<u8>> = u.cols.iter().map(|(n, _)| n.clone()).collect();
    let an: Vec<Vec<u8>> = a.cols.iter().map(|(n, _)| n.clone()).collect();
    if jn != names || un != names || an != names {
        add("-", "column names differ between encodings / from the schema".into());
    }
    let exp = expected_rows(c);
    for (tag, r) in rendered {
        let rn: Vec<Vec<u8>> = r.cols.iter().map(|(n, _)| n.clone()).collect();
        if rn != names {
            add("-", format!("{tag}: column names differ from the schema"));
        }
        if r.status != Some(200) || r.count.is_some_and(|n| n != exp.len() as i128) {
            add("-", format!("{tag}: status {:?} count {:?} for {} rows", r.status, r.count, exp.len()));
        }
    }
    let ar = a.rows();
    if ar.len() != exp.len() || family.iter().any(|(_, rows)| rows.len() != exp.len()) {
        add(
            "-",
            format!(
                "row counts: expected {} arrow {} {}",
                exp.len(),
                ar.len(),
                family.iter().map(|(t, r)| format!("{t} {}", r.len())).collect::<Vec<_>>().join(" ")
            ),
        );
        return Verdict { fails, family_cells };
    }
    if j.end != Some(exp.len() as i128) || u.end != Some(exp.len() as i128) {
        add("-", format!("announced {:?}/{:?} emitted {}", j.end, u.end, exp.len()));
    }
    for (ri, row) in exp.iter().enumerate() {
        if ar[ri].len() != row.len() || family.iter().any(|(_, rows)| rows[ri].len() != row.len()) {
            add("-", format!("row {ri}: cell counts differ"));
            continue;
        }
        for (ci, v) in row.iter().enumerate() {
            let b = builder_of(&c.cols[ci].1);
            let want = logical(v);
            let ac = &ar[ri][ci];
            let describe = || {
                format!(
                    "row {ri} col {ci} declared {:?} value {} : {} arrow {}",
                    c.cols[ci].1,
                    cell_token(v),
                    family.iter().map(|(t, rows)| format!("{t} {}", show_cell(&rows[ri][ci]))).collect::<Vec<_>>().join(" "),
                    show_cell(ac)
                )
            };
            // 1. the JSON-family encodings among themselves (pairwise: all equal the first)
            let (t0, rows0) = &family[0];
            let jc = &rows0[ri][ci];
            family_cells += family.len() as u64;
            if let Some((t, _)) = family.iter().skip(1).find(|(_, rows)| !(rows[ri][ci] == *jc || cell_eq(&rows[ri][ci], jc))) {
                add("-", format!("JSON-family encodings {t0} and {t} carry different values: {}", describe()));
                continue;
            }
            // 2. the family against the cell's own value
            let binary = matches!(v, ScalarValue::Binary(_));
            if !binary && !cell_eq(jc, &want) {
                let cl = match v {
                    ScalarValue::Float64(f) if !f.is_finite() && *jc == Cell::Null => "nonfinite-float",
                    _ if reparsed_value(v).as_ref() == Some(jc) => "string-reparsed",
                    _ => "-",
                };
                add(cl, describe());
            }
            // 3. Arrow against the cell's own value (raw bytes have no logical rendering in the
            //    property: there the encodings must agree with each other)
            let arrow_ok = if binary { cell_eq(jc, ac) } else { *ac == want || cell_eq(ac, &want) };
            if !arrow_ok {
                add(if conforms(b, v) { "-" } else { "arrow-type-mismatch" }, describe());
            }
        }
    }
    Verdict { fails, family_cells }
}

// ------------------------------------------------------------------ errors

const CODES: &[(StatusCode, u16)] = &[
    (StatusCode::Ok, 200),
    (StatusCode::BadRequest, 400),
    (StatusCode::Unauthorized, 401),
    (StatusCode::Forbidden, 403),
    (StatusCode::NotFound, 404),
    (StatusCode::InternalError, 500),
    (StatusCode::ServiceUnavailable, 503),
];

fn gen_message(r: &mut Rng) -> String {
    const M: &[&str] = &[
        "", "x", "no", "denied", "Authentication required", "Invalid Query command", "event_type cannot be empty",
        "status", "bad status", "No schema defined for event type 'orders'", "OFFSET requires LIMIT to prevent unbounded results",
        "quote \" backslash \\ newline \n tab \t", "ctl \u{1}\u{8}\u{c}\u{1f}\u{7f}", "héllo ✓ 日本", "{\"status\":200}",
    ];
    match r.below(6) {
        0 => {
            let n = r.below(8) as usize;
            (0..n).map(|_| char::from_u32(32 + r.below(95) as u32).unwrap()).collect()
        }
        1 => {
            // long messages, around the 500-byte threshold of the HTTP status probe
            let n = 380 + r.below(200) as usize;
            (0..n).map(|_| char::from_u32(97 + r.below(26) as u32).unwrap()).collect()
        }
        2 => {
            let n = r.below(60) as usize;
            (0..n).map(|_| char::from_u32(1 + r.below(126) as u32).unwrap()).collect()
        }
        _ => r.pick(M).to_string(),
    }
}

fn run_table_case(s: &mut Stream, rt: &tokio::runtime::Runtime, i: u64, c: &Case, batch_mode: bool) {
                let op = op_line(c, batch_mode);
                let jb = run_writer(rt, c, &JsonRenderer);
                let ub = run_writer(rt, c, &UnixRenderer);
                let ab = run_writer(rt, c, &ArrowRenderer);
                let (jb, ub, ab) = match (jb, ub, ab) {
                    (Ok(x), Ok(y), Ok(z)) => (x, y, z),
                    (x, y, z) => {
                        let e = format!("writer-error json={:?} unix={:?} arrow={:?}", x.err(), y.err(), z.err());
                        s.case(&op, &e, false);
                        s.oracle_fail(i, "-", &e);
                        return;
                    }
                };
                let (j, u, ar) = match (decode_frames(&jb), decode_frames(&ub), decode_arrow(&ab)) {
                    (Ok(x), Ok(y), Ok(z)) => (x, y, z),
                    (x, y, z) => {
                        let e = format!("undecodable json={:?} unix={:?} arrow={:?}", x.err(), y.err(), z.err());
                        s.case(&op, &e, false);
                        s.oracle_fail(i, "-", &e);
                        return;
                    }
                };
                // the other frame kind of both renderers, called directly on the rows the response has
                // to contain, and the buffered table rendering of the three renderers
                let exp_rows: Vec<Vec<ScalarValue>> = expected_rows(c).into_iter().cloned().collect();
                let col_refs: Vec<&str> = c.cols.iter().map(|(n, _)| n.as_str()).collect();
                let direct = |rend: &dyn Renderer| -> Result<Vec<Vec<Cell>>, String> {
                    let mut all = vec![];
                    let mut buf = vec![];
                    if batch_mode {
                        for row in &exp_rows {
                            rend.stream_row(&col_refs, row, &mut buf);
                            all.extend_from_slice(&buf);
                        }
                    } else {
                        rend.stream_batch(&col_refs, &exp_rows, &mut buf);
                        all.extend_from_slice(&buf);
                    }
                    decode_bare_frames(&all, &c.cols)
                };
                let table = Response::ok_table(c.cols.clone(), exp_rows.clone(), exp_rows.len());
                let parts = (
                    direct(&JsonRenderer),
                    direct(&UnixRenderer),
                    decode_rendered('j', &JsonRenderer.render(&table)),
                    decode_rendered('u', &UnixRenderer.render(&table)),
                    decode_rendered('a', &ArrowRenderer.render(&table)),
                );
                let (jx, ux, rj, ru, ra) = match parts {
                    (Ok(a), Ok(b), Ok(c), Ok(d), Ok(e)) => (a, b, c, d, e),
                    (a, b, c, d, e) => {
                        let e = format!(
                            "undecodable direct-json={:?} direct-unix={:?} render-json={:?} render-unix={:?} render-arrow={:?}",
                            a.err(), b.err(), c.err(), d.err(), e.err()
                        );
                        s.case(&op, &e, false);
                        s.oracle_fail(i, "-", &e);
                        return;
                    }
                };
                let show_rows = |tag: &str, rows: &Vec<Vec<Cell>>| format!("{tag} rows={}", rows.iter().map(|r| show_row(r)).collect::<String>());
                let total: usize = c.batches.iter().map(|b| b.len()).sum();
                let emitted = j.rows().len();
                // distribution
                s.tally(match &c.writer {
                    WriterKind::Query => "writer:query",
                    WriterKind::Show { watermark: true, .. } => "writer:show-watermark",
                    WriterKind::Show { .. } => "writer:show",
                });
                s.tally_n("rows_in", total as u64);
                s.tally_n("rows_emitted", emitted as u64);
                s.tally_n("cells_emitted", (emitted * c.cols.len()) as u64);
                if c.limit.is_some() { s.tally("limit"); }
                if c.offset.is_some() { s.tally("offset"); }
                if c.cols.iter().any(|(n, _)| n == "event_id") { s.tally("has_event_id"); }
                if emitted < total { s.tally("rows_dropped"); }
                if emitted == 0 { s.tally("empty_result"); }
                if c.batches.iter().any(|b| b.is_empty()) { s.tally("empty_batch"); }
                for (_, t) in &c.cols {
                    s.tally(&format!("col:{:?}", builder_of(t)));
                }
                // which Arrow encoder each emitted record batch went through (independent
                // statement: a batch is encoded whole iff none of its rows was dropped)
                {
                    let exp = expected_rows(c);
                    let mut it = exp.iter().peekable();
                    for b in c.batches.iter().filter(|b| !b.is_empty()) {
                        let mut kept = 0;
                        for row in b {
                            if it.peek().is_some_and(|e| std::ptr::eq(**e, row)) {
                                it.next();
                                kept += 1;
                            }
                        }
                        if kept == b.len() {
                            s.tally("arrow_batch:whole");
                        } else if kept > 0 {
                            s.tally("arrow_batch:indexed");
                        }
                    }
                    if j.frames.iter().any(|f| matches!(f, Frame::Row(_))) {
                        s.tally("row_frames");
                    }
                }
                for b in &c.batches {
                    for row in b {
                        for (ci, v) in row.iter().enumerate() {
                            let cl = class_of(builder_of(&c.cols[ci].1), v);
                            if cl != "-" {
                                s.tally(&format!("cell:{cl}"));
                            }
                        }
                    }
                }
                for row in &exp_rows {
                    for v in row {
                        s.tally(&format!("kind:{}", kind_of(v)));
                    }
                }
                // one compared line per encoding, each against its own model function
                s.case(&op, &j.show("J"), emitted > 0);
                s.case("+U", &u.show("U"), false);
                s.case("+A", &ar.show(), false);
                s.case("+JX", &show_rows("JX", &jx), false);
                s.case("+UX", &show_rows("UX", &ux), false);
                s.case("+RJ", &rj.show("RJ"), false);
                s.case("+RU", &ru.show("RU"), false);
                s.case("+RA", &ra.show("RA"), false);
                let (fj, fu) = if batch_mode { ("json-batch", "unix-batch") } else { ("json-row", "unix-row") };
                let (xj, xu) = if batch_mode { ("json-row", "unix-row") } else { ("json-batch", "unix-batch") };
                let family: Vec<(&'static str, Vec<Vec<Cell>>)> = vec![
                    (fj, j.rows().into_iter().cloned().collect()),
                    (fu, u.rows().into_iter().cloned().collect()),
                    (xj, jx),
                    (xu, ux),
                    ("json-render", rj.rows.clone()),
                    ("unix-render", ru.rows.clone()),
                    ("arrow-render", ra.rows.clone()),
                ];
                let v = oracle(c, &j, &u, &ar, &family, &[("json-render", &rj), ("unix-render", &ru), ("arrow-render", &ra)]);
                s.tally_n("family_cells_compared", v.family_cells);
                if v.fails.is_empty() {
                    s.oracle_ok();
                } else {
                    for (cl, d) in v.fails {
                        s.tally(&format!("oracle:{cl}"));
                        s.oracle_fail(i, cl, &d);
                    }
                }
            }

fn run_error_case(s: &mut Stream, i: u64, st: StatusCode, code: u16, msg: &str) {
    let msg = msg.to_string();
                let resp = Response::error(st, msg.clone());
                let mut per: Vec<(char, Option<u16>, u16)> = vec![];
                for (tag, rend) in [('j', &JsonRenderer as &dyn Renderer), ('u', &UnixRenderer), ('a', &ArrowRenderer)] {
                    let out = rend.render(&resp);
                    // independent readers of the status code carried by the body
                    let body: Option<u16> = match tag {
                        'u' => {
                            let first = out.split(|b| *b == b' ').next().unwrap_or(&[]);
                            std::str::from_utf8(first).ok().and_then(|t| t.parse().ok())
                        }
                        _ => out
                            .strip_suffix(b"\n")
                            .and_then(|l| parse_json(l).ok())
                            .and_then(|v| match member(&v, "status") {
                                Some(J::Num(n)) => n.parse().ok(),
                                _ => None,
                            }),
                    };
                    let http = snel_db::frontend::http::dispatcher::verif_extract_http_status(&out);
                    let op = format!("err {tag} {code} {}", hexs(&msg));
                    let imp = format!(
                        "{} body={} http={}",
                        hex(&out),
                        body.map(|b| b.to_string()).unwrap_or("-".into()),
                        http
                    );
                    s.case(&op, &imp, true);
                    per.push((tag, body, http));
                }
                s.tally(&format!("code:{code}"));
                if msg.len() >= 400 { s.tally("long_message"); }
                if msg.len() <= 6 { s.tally("short_message"); }
                if msg.contains("status") { s.tally("message_has_status_word"); }
                // oracle 1: the code carried by the body is the response's code in every encoding
                if per.iter().all(|(_, b, _)| *b == Some(code)) {
                    s.oracle_ok();
                } else {
                    s.oracle_fail(i, "-", &format!("body codes {:?} for {code} msg {}", per, hexs(&msg)));
                }
                // oracle 2: the HTTP status derived from the body is the same for every encoding
                let hs: Vec<u16> = per.iter().map(|(_, _, h)| *h).collect();
                if hs.iter().all(|h| *h == code) {
                    s.oracle_ok();
                } else {
                    s.tally("oracle:http-status-by-encoding");
                    // class: an error (code != 200) whose HTTP status is 200 for the text or Arrow
                    // body, or for a JSON body of httpSmallLimit bytes or more
                    let cl = if code != 200 && hs.iter().all(|h| *h == code || *h == 200) { "http-status-by-encoding" } else { "-" };
                    s.oracle_fail(i, cl, &format!("http statuses json/unix/arrow {:?} for code {code} msg {}", hs, hexs(&msg)));
                }
            }

// ------------------------------------------------------------------ system stream

/// The real engine in process: DEFINE / STORE / (FLUSH) / QUERY through `dispatch_command` with
/// each of the three renderers; oracle only (row order and LIMIT choice are scheduling
/// dependent, so rows are matched by `event_id` and cells compared when no LIMIT is given).
fn run_sys(a: &snel_harness::out::Args) {
    use snel_db::command::dispatcher::dispatch_command;
    use snel_db::command::parser::parse_command;
    use snel_db::engine::schema::SchemaRegistry;
    use snel_db::engine::shard::manager::ShardManager;
    use snel_db::shared::config::CONFIG;
    use tokio::sync::RwLock;

    let rt = tokio::runtime::Builder::new_multi_thread().worker_threads(4).enable_all().build().unwrap();
    let mut s = Stream::create(&a.out, "sys");
    rt.block_on(async {
        let registry = Arc::new(RwLock::new(SchemaRegistry::new().expect("schema registry")));
        let sm = Arc::new(
            ShardManager::new(
                CONFIG.engine.shard_count,
                std::path::PathBuf::from(&CONFIG.engine.data_dir),
                std::path::PathBuf::from(&CONFIG.wal.dir),
            )
            .await,
        );
        let run = |text: String, rend: &'static dyn Renderer| {
            let sm = Arc::clone(&sm);
            let registry = Arc::clone(&registry);
            async move {
                let cmd = match parse_command(&text) {
                    Ok(c) => c,
                    Err(e) => return Err(format!("parse {text}: {e:?}")),
                };
                let mut out: Vec<u8> = Vec::new();
                dispatch_command(&cmd, &mut out, &sm, &registry, None, Some("bypass"), rend)
                    .await
                    .map_err(|e| e.to_string())?;
                Ok(out)
            }
        };
        static JR: JsonRenderer = JsonRenderer;
        static UR: UnixRenderer = UnixRenderer;
        static AR: ArrowRenderer = ArrowRenderer;
        for i in 0..a.cases {
            if a.only.is_some_and(|o| o != i) {
                continue;
            }
            let mut r = Rng::for_case(a.seed, "sys", i);
            let ev = format!("ev{}x{}", a.seed, i);
            // one payload field of a generated type, plus the key k
            const FT: &[&str] = &["int", "float", "string", "bool", "u64", "datetime", "date", "string | null", "float | null", "[\"a\",\"b\"]"];
            let ft = *r.pick(FT);
            let ft_json = if ft.starts_with('[') { ft.to_string() } else { format!("\"{ft}\"") };
            let def = format!("DEFINE {ev} FIELDS {{ k: \"int\", f: {ft_json} }}");
            if let Err(e) = run(def.clone(), &JR).await {
                s.oracle_fail(i, "-", &format!("define failed: {e}"));
                continue;
            }
            let n = 1 + r.below(6);
            let mut stored = 0;
            for k in 0..n {
                let v: String = match ft {
                    "int" => r.pick(&["5", "-7", "9223372036854775807", "0"]).to_string(),
                    "float" | "float | null" => r.pick(&["1.5", "2", "2.0", "-0.0", "1e300", "3", "null"]).to_string(),
                    "string" | "string | null" => r.pick(&["\"abc\"", "\"5\"", "\"[1,2]\"", "\"18446744073709551615\"", "\"true\"", "\"\"", "\"é\"", "null", "\"{\\\"a\\\":1}\"", "\"[]\"", "\"9223372036854775808\""]).to_string(),
                    "bool" => r.pick(&["true", "false"]).to_string(),
                    "u64" => r.pick(&["5", "18446744073709551615", "9223372036854775808", "0"]).to_string(),
                    "datetime" => r.pick(&["1700000000", "\"2024-01-02T03:04:05Z\"", "1700000000123"]).to_string(),
                    "date" => r.pick(&["\"2024-01-02\"", "1700000000"]).to_string(),
                    _ => r.pick(&["\"a\"", "\"b\""]).to_string(),
                };
                let st = format!("STORE {ev} FOR c{} PAYLOAD {{\"k\": {k}, \"f\": {v}}}", r.below(3));
                if let Ok(out) = run(st, &JR).await {
                    if out.starts_with(b"{\"count\":1,\"status\":200") || String::from_utf8_lossy(&out).contains("\"status\":200") {
                        stored += 1;
                    }
                }
            }
            tokio::time::sleep(std::time::Duration::from_millis(40)).await;
            let _ = sm.wait_for_flush_completion().await;
            let flushed = r.chance(1, 2);
            if flushed {
                let _ = run("FLUSH".to_string(), &JR).await;
                tokio::time::sleep(std::time::Duration::from_millis(30)).await;
                let _ = sm.wait_for_flush_completion().await;
            }
            let agg = r.chance(1, 4);
            let q = if agg {
                format!("QUERY {ev} {}", r.pick(&["COUNT", "MIN f", "MAX f", "TOTAL f", "AVG f", "COUNT UNIQUE f"]))
            } else {
                format!("QUERY {ev}")
            };
            let (jb, ub, ab) = (run(q.clone(), &JR).await, run(q.clone(), &UR).await, run(q.clone(), &AR).await);
            // the stored data must not have moved (auto-flush) while the three queries ran:
            // ask the JSON renderer again and skip the case when its answer changed
            let jb2 = run(q.clone(), &JR).await;
            let canon = |b: &Result<Vec<u8>, String>| -> Option<Vec<String>> {
                let st = decode_frames(b.as_ref().ok()?).ok()?;
                let mut v: Vec<String> = st.rows().iter().map(|r| show_row(r)).collect();
                v.sort();
                Some(v)
            };
            if canon(&jb) != canon(&jb2) {
                s.tally("unstable_skipped");
                continue;
            }
            let (jb, ub, ab) = match (jb, ub, ab) {
                (Ok(x), Ok(y), Ok(z)) => (x, y, z),
                (x, y, z) => {
                    s.oracle_fail(i, "-", &format!("{q}: dispatch error {:?} {:?} {:?}", x.err(), y.err(), z.err()));
                    continue;
                }
            };
            s.tally(&format!("field:{ft}"));
            s.tally(if agg { "query:aggregate" } else { "query:rows" });
            if flushed { s.tally("flushed"); }
            let (j, u, ar) = match (decode_frames(&jb), decode_frames(&ub), decode_arrow(&ab)) {
                (Ok(x), Ok(y), Ok(z)) => (x, y, z),
                (x, y, z) => {
                    // an error response (e.g. aggregate over a non-numeric field) is not a table
                    let all_err = x.is_err() && y.is_err() && z.is_err();
                    if all_err {
                        s.tally("error_response");
                        s.oracle_ok();
                    } else {
                        s.oracle_fail(i, "-", &format!("{q}: decodable in some encodings only: {:?} {:?} {:?} json={}", x.err(), y.err(), z.err(), String::from_utf8_lossy(&jb)));
                    }
                    continue;
                }
            };
            let names = |c: &Vec<(Vec<u8>, Vec<u8>)>| c.iter().map(|(n, _)| n.clone()).collect::<Vec<_>>();
            let an: Vec<Vec<u8>> = ar.cols.iter().map(|(n, _)| n.clone()).collect();
            let mut fails: Vec<(&'static str, String)> = vec![];
            if names(&j.cols) != names(&u.cols) || names(&j.cols) != an {
                fails.push(("-", format!("{q}: column names differ")));
            }
            let (jr, ur, arr) = (j.rows(), u.rows(), ar.rows());
            if jr.len() != ur.len() || jr.len() != arr.len() || j.end != Some(jr.len() as i128) || u.end != Some(ur.len() as i128) {
                fails.push(("-", format!("{q}: rows json {} unix {} arrow {} announced {:?}/{:?}", jr.len(), ur.len(), arr.len(), j.end, u.end)));
            } else if !agg && jr.len() as u64 != stored {
                s.tally("rows!=stored");
            }
            s.tally_n("rows", jr.len() as u64);
            // match rows by event_id (or position for aggregates), compare cells
            let idc = j.cols.iter().position(|(n, _)| n == b"event_id");
            let key = |row: &Vec<Cell>| idc.map(|c| show_cell(&row[c]));
            if fails.is_empty() {
                for (ri, row) in jr.iter().enumerate() {
                    let find = |rows: &Vec<&Vec<Cell>>| -> Option<Vec<Cell>> {
                        match key(row) {
                            Some(k) => rows.iter().find(|x| key(x).as_ref() == Some(&k)).map(|x| (*x).clone()),
                            None => rows.get(ri).map(|x| (*x).clone()),
                        }
                    };
                    let (Some(urow), Some(arow)) = (find(&ur), find(&arr)) else {
                        fails.push(("-", format!("{q}: row {ri} missing in another encoding")));
                        continue;
                    };
                    for ci in 0..row.len() {
                        if !cell_eq(&row[ci], &urow[ci]) {
                            // the JSON-family encodings must agree with each other: never a known class
                            if !fails.iter().any(|(c, _)| *c == "-") {
                                fails.push(("-", format!(
                                    "{def} ; f={ft} flushed={flushed} ; {q} : column {} : JSON frames carry {} but text frames carry {} (arrow {})",
                                    String::from_utf8_lossy(&j.cols[ci].0), show_cell(&row[ci]), show_cell(&urow[ci]), show_cell(&arow[ci]))));
                            }
                            continue;
                        }
                        if !cell_eq(&row[ci], &arow[ci]) {
                            let lt = String::from_utf8_lossy(&j.cols[ci].1).to_string();
                            let b = builder_of(&lt);
                            // class from the decoded cells: the declared builder vs. what JSON carries
                            let cl: &'static str = match (&row[ci], b, &arow[ci]) {
                                (Cell::Json(_), _, _) => "string-reparsed",
                                (Cell::Int(x), _, _) if *x > i64::MAX as i128 => "string-reparsed",
                                (Cell::Null, Builder::Float64, Cell::Float(f)) if !f64::from_bits(*f).is_finite() => "nonfinite-float",
                                (Cell::Int(_), Builder::Int64 | Builder::Ts, _) => "-",
                                (Cell::Float(_), Builder::Float64, _) => "-",
                                (Cell::Bool(_), Builder::Bool, _) => "-",
                                (Cell::Str(_), Builder::Utf8, _) => "-",
                                (Cell::Null, _, _) => "-",
                                _ => "arrow-type-mismatch",
                            };
                            if !fails.iter().any(|(c, _)| *c == cl) {
                                fails.push((cl, format!(
                                    "{def} ; f={ft} flushed={flushed} ; {q} : column {} declared {lt}: json {} unix {} arrow {}",
                                    String::from_utf8_lossy(&j.cols[ci].0), show_cell(&row[ci]), show_cell(&urow[ci]), show_cell(&arow[ci]))));
                            }
                        }
                    }
                }
            }
            // keep the compared files in step (oracle-only stream: the lines are informative)
            s.case(&format!("sys {i} {}", hexs(&q)), &format!("rows={}", jr.len()), !jr.is_empty());
            if fails.is_empty() {
                s.oracle_ok();
            } else {
                for (cl, d) in fails {
                    s.tally(&format!("oracle:{cl}"));
                    s.oracle_fail(i, cl, &d);
                }
            }
        }
    });
    s.finish();
}

fn main() {
    let a = parse_args();
    let rowmode = a.extra.iter().any(|x| x == "--rowmode");
    // CONFIG is read once: write a config under --out before anything touches it
    std::fs::create_dir_all(&a.out).unwrap();
    let base = std::fs::read_to_string("/repo/config/test.toml").expect("read /repo/config/test.toml");
    let d = a.out.join(format!("c20-{}", a.stream));
    let abs = |p: &str| d.join(p).to_string_lossy().to_string();
    let mut cfg = base
        .replace("\"../data/wal/\"", &format!("\"{}\"", abs("wal")))
        .replace("\"../data/wal/archived/\"", &format!("\"{}\"", abs("wal/archived")))
        .replace("\"../data/cols\"", &format!("\"{}\"", abs("cols")))
        .replace("\"../data/index/\"", &format!("\"{}\"", abs("index")))
        .replace("\"../data/schema/\"", &format!("\"{}\"", abs("schema")))
        .replace("\"../data/logs\"", &format!("\"{}\"", abs("logs")));
    if rowmode {
        cfg = cfg.replace("[query]\n", "[query]\nstreaming_batch_size = 0\n");
        assert!(cfg.contains("streaming_batch_size = 0"));
    }
    std::fs::create_dir_all(&d).unwrap();
    let cfg_path = d.join("config.toml");
    std::fs::write(&cfg_path, cfg).unwrap();
    // SAFETY: single-threaded at this point
    unsafe { std::env::set_var("SNELDB_CONFIG", &cfg_path) };

    match a.stream.as_str() {
        "sys" => run_sys(&a),
        "table" | "table_rows" => {
            let batch_mode = !rowmode;
            assert_eq!(a.stream == "table_rows", rowmode, "table_rows needs --rowmode");
            let rt = tokio::runtime::Builder::new_current_thread().enable_all().build().unwrap();
            let mut s = Stream::create(&a.out, &a.stream);
            for i in 0..a.cases {
                if a.only.is_some_and(|o| o != i) {
                    continue;
                }
                let mut r = Rng::for_case(a.seed, &a.stream, i);
                let big = i % 7 == 6;
                let c = gen_case(&mut r, big);
                run_table_case(&mut s, &rt, i, &c, batch_mode);
            }
            s.finish();
        }
        "witness" => {
            // fixed cases: the witnesses of the `_fails` theorems of Snel/Props/C20.lean, replayed
            // on the real code (the seed is ignored)
            assert!(!rowmode);
            let rt = tokio::runtime::Builder::new_current_thread().enable_all().build().unwrap();
            let mut s = Stream::create(&a.out, "witness");
            let one = |ty: &str, rows: Vec<ScalarValue>, limit: Option<u32>| Case {
                writer: WriterKind::Query,
                limit,
                offset: None,
                cols: vec![("v".to_string(), ty.to_string())],
                batches: vec![rows.into_iter().map(|v| vec![v]).collect()],
            };
            let u = |x: &str| ScalarValue::Utf8(x.to_string());
            let cases = vec![
                one("Integer", vec![u("5")], None),                                   // numeric_string
                one("Float", vec![ScalarValue::Int64(7)], None),                      // mixed_type
                one("Float", vec![ScalarValue::Float64(f64::INFINITY)], None),        // nonfinite
                one("Integer", vec![u("18446744073709551615")], None),                // out_of_range
                one("String", vec![u("[1]")], None),                                  // reparsed
                one("Integer", vec![u("5"), ScalarValue::Int64(1)], None),            // path_dependent (whole)
                one("Integer", vec![u("5"), ScalarValue::Int64(1)], Some(1)),         // path_dependent (cut)
                one("Float", vec![ScalarValue::Int64(9007199254740993), ScalarValue::Null], Some(1)), // int_as_float
            ];
            for (i, c) in cases.iter().enumerate() {
                if a.only.is_some_and(|o| o != i as u64) {
                    continue;
                }
                run_table_case(&mut s, &rt, i as u64, c, true);
            }
            if a.only.is_none() || a.only == Some(100) {
                run_error_case(&mut s, 100, StatusCode::BadRequest, 400, "denied!"); // http_status_agree
            }
            s.finish();
        }
        "errors" => {
            let mut s = Stream::create(&a.out, "errors");
            for i in 0..a.cases {
                if a.only.is_some_and(|o| o != i) {
                    continue;
                }
                let mut r = Rng::for_case(a.seed, "errors", i);
                let (st, code) = *r.pick(CODES);
                let msg = gen_message(&mut r);
                run_error_case(&mut s, i, st, code, &msg);
            }
            s.finish();
        }
        other => {
            eprintln!("unknown stream {other}");
            std::process::exit(2);
        }
    }
}
