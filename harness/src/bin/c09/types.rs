//! Shared case types of the C09 harness: scalars, plans, canonical tables, token encoding.
use snel_db::engine::types::ScalarValue;
use snel_harness::enc::hexs;
use std::collections::BTreeMap;

#[derive(Clone, Debug, PartialEq)]
pub enum Sc {
    Null,
    Bool(bool),
    Int(i64),
    Float(f64),
    Ts(i64),
    Str(String),
    Bin,
}

impl Sc {
    pub fn to_scalar(&self) -> ScalarValue {
        match self {
            Sc::Null => ScalarValue::Null,
            Sc::Bool(b) => ScalarValue::Boolean(*b),
            Sc::Int(i) => ScalarValue::Int64(*i),
            Sc::Float(f) => ScalarValue::Float64(*f),
            Sc::Ts(t) => ScalarValue::Timestamp(*t),
            Sc::Str(s) => ScalarValue::Utf8(s.clone()),
            Sc::Bin => ScalarValue::Binary(vec![1, 2]),
        }
    }
    /// model token; a float travels as Rust's display string (trusted: f64 Display)
    pub fn token(&self) -> String {
        match self {
            Sc::Null => "n".into(),
            Sc::Bool(b) => format!("b{}", *b as u8),
            Sc::Int(i) => format!("i{i}"),
            Sc::Float(f) => format!("d{}", hexs(&f.to_string())),
            Sc::Ts(t) => format!("t{t}"),
            Sc::Str(s) => format!("s{}", hexs(s)),
            Sc::Bin => "y".into(),
        }
    }
    pub fn is_null(&self) -> bool {
        matches!(self, Sc::Null)
    }
}

#[derive(Clone, Copy, Debug, PartialEq, Eq)]
pub enum Gran {
    Hour,
    Day,
    Week,
    Month,
    Year,
}
impl Gran {
    pub fn tok(&self) -> &'static str {
        match self {
            Gran::Hour => "h",
            Gran::Day => "d",
            Gran::Week => "w",
            Gran::Month => "m",
            Gran::Year => "y",
        }
    }
    pub fn to_real(&self) -> snel_db::command::types::TimeGranularity {
        use snel_db::command::types::TimeGranularity as T;
        match self {
            Gran::Hour => T::Hour,
            Gran::Day => T::Day,
            Gran::Week => T::Week,
            Gran::Month => T::Month,
            Gran::Year => T::Year,
        }
    }
    pub fn word(&self) -> &'static str {
        match self {
            Gran::Hour => "HOUR",
            Gran::Day => "DAY",
            Gran::Week => "WEEK",
            Gran::Month => "MONTH",
            Gran::Year => "YEAR",
        }
    }
    pub const ALL: [Gran; 5] = [Gran::Hour, Gran::Day, Gran::Week, Gran::Month, Gran::Year];
}

#[derive(Clone, Debug, PartialEq, Eq)]
pub enum Metric {
    CountAll,
    CountField(usize),
    CountUnique(usize),
    Total(usize),
    Avg(usize),
    Min(usize),
    Max(usize),
}
impl Metric {
    pub fn tok(&self) -> String {
        match self {
            Metric::CountAll => "c".into(),
            Metric::CountField(f) => format!("f{f}"),
            Metric::CountUnique(f) => format!("u{f}"),
            Metric::Total(f) => format!("t{f}"),
            Metric::Avg(f) => format!("a{f}"),
            Metric::Min(f) => format!("n{f}"),
            Metric::Max(f) => format!("x{f}"),
        }
    }
    pub fn field(&self) -> Option<usize> {
        match self {
            Metric::CountAll => None,
            Metric::CountField(f) | Metric::CountUnique(f) | Metric::Total(f) | Metric::Avg(f) | Metric::Min(f)
            | Metric::Max(f) => Some(*f),
        }
    }
    pub fn kind(&self) -> &'static str {
        match self {
            Metric::CountAll => "count",
            Metric::CountField(_) => "count_field",
            Metric::CountUnique(_) => "count_unique",
            Metric::Total(_) => "total",
            Metric::Avg(_) => "avg",
            Metric::Min(_) => "min",
            Metric::Max(_) => "max",
        }
    }
}

#[derive(Clone, Debug)]
pub struct PlanSpec {
    pub metrics: Vec<Metric>,
    pub group_by: Option<Vec<usize>>,
    pub bucket: Option<Gran>,
    /// column index of the time field (may be ≥ width: no such column)
    pub tf: usize,
    pub width: usize,
    /// LIMIT / OFFSET of the query (no ORDER BY): applied by the coordinator to the merged groups
    pub limit: Option<u32>,
    pub offset: Option<u32>,
}

impl PlanSpec {
    pub fn header(&self) -> String {
        format!(
            "1 {} {} {} {} {}",
            self.bucket.map(|g| g.tok()).unwrap_or("-"),
            self.tf,
            match &self.group_by {
                None => "-".to_string(),
                Some(g) => g.iter().map(|f| f.to_string()).collect::<Vec<_>>().join(","),
            },
            self.metrics.iter().map(|m| m.tok()).collect::<Vec<_>>().join(","),
            self.width
        )
    }
    /// trailing note of a model line (ignored by the model: the flows must emit every group
    /// whatever LIMIT / OFFSET say; the table compared is the merged one before the cap)
    pub fn note(&self) -> String {
        match (self.limit, self.offset) {
            (None, None) => String::new(),
            (l, o) => format!(
                " NOTE limit={} offset={}",
                l.map(|x| x.to_string()).unwrap_or_else(|| "-".into()),
                o.map(|x| x.to_string()).unwrap_or_else(|| "-".into())
            ),
        }
    }
    pub fn has_grouping(&self) -> bool {
        self.group_by.is_some() || self.bucket.is_some()
    }
}

/// flow → batch → row → cell
pub type Flows = Vec<Vec<Vec<Vec<Sc>>>>;

pub fn body_tokens(flows: &Flows) -> String {
    let mut s = String::new();
    for fl in flows {
        s.push_str(" P");
        for b in fl {
            s.push_str(" B");
            for r in b {
                s.push_str(" R");
                for c in r {
                    s.push(' ');
                    s.push_str(&c.token());
                }
            }
        }
    }
    s
}

#[derive(Clone, Debug, PartialEq)]
pub enum OutV {
    Int(i64),
    Str(String),
    Avg(u64),
    Null,
}
impl OutV {
    pub fn tok(&self) -> String {
        match self {
            OutV::Int(i) => format!("i{i}"),
            OutV::Str(s) => format!("s{}", hexs(s)),
            OutV::Avg(b) => format!("a{:016x}", b),
            OutV::Null => "N".into(),
        }
    }
}

/// canonical final table: key (bucket, group values) → metric cells, sorted by key
pub type Table = BTreeMap<(Option<u64>, Vec<String>), Vec<OutV>>;

pub fn table_line(t: &Table) -> String {
    if t.is_empty() {
        return "empty".into();
    }
    t.iter()
        .map(|((b, g), outs)| {
            format!(
                "{}/{}={}",
                b.map(|x| x.to_string()).unwrap_or_else(|| "N".into()),
                if g.is_empty() { "*".to_string() } else { g.iter().map(|s| hexs(s)).collect::<Vec<_>>().join(",") },
                outs.iter().map(|o| o.tok()).collect::<Vec<_>>().join(",")
            )
        })
        .collect::<Vec<_>>()
        .join(" ")
}
