//! Component streams on pure functions: `AggState::merge` + `agg_state_to_scalar`,
//! the bucket functions, `get_i64_at` of a string column.
use crate::oracle::ref_bucket;
use crate::types::*;
use snel_db::command::handlers::query::merge::aggregate_stream::AggregateStreamMerger;
use snel_db::engine::core::read::aggregate::partial::AggState;
use snel_db::engine::core::read::aggregate::plan::AggregateOpSpec;
use snel_db::engine::core::read::cache::DecompressedBlock;
use snel_db::engine::core::ColumnValues;
use snel_db::engine::types::ScalarValue;
use snel_db::shared::datetime::time::TimeConfig;
use snel_db::shared::datetime::time_bucketing::{naive_bucket_of, CalendarTimeBucketer};
use snel_harness::enc::hexs;
use snel_harness::out::{Args, Stream};
use snel_harness::rng::Rng;
use std::collections::HashSet;
use std::sync::Arc;

const POOL: &[&str] = &["", "a", "b", "ab", "B", "zz", "é", "7", "07", "-3", "x y"];

fn gen_state(r: &mut Rng, kind: u64) -> AggState {
    let int = |r: &mut Rng| -> i64 {
        match r.below(6) {
            0 => i64::MAX,
            1 => i64::MIN,
            2 => i64::MAX - r.below(3) as i64,
            3 => (1i64 << 62) + r.below(3) as i64,
            _ => r.range(-20, 40),
        }
    };
    let ostr = |r: &mut Rng| -> Option<String> {
        if r.chance(1, 3) {
            None
        } else {
            Some(r.pick(POOL).to_string())
        }
    };
    let oint = |r: &mut Rng| -> Option<i64> {
        if r.chance(1, 3) {
            None
        } else {
            Some(int(r))
        }
    };
    match kind {
        0 => AggState::CountAll { count: int(r) },
        1 => {
            let n = r.below(5);
            let mut values = HashSet::new();
            for _ in 0..n {
                values.insert(r.pick(POOL).to_string());
            }
            AggState::CountUnique { values }
        }
        2 => AggState::Sum { sum: int(r) },
        3 => AggState::Avg { sum: int(r), count: int(r) },
        4 => AggState::Min { min_num: oint(r), min_str: ostr(r) },
        _ => AggState::Max { max_num: oint(r), max_str: ostr(r) },
    }
}

fn state_tok(s: &AggState) -> String {
    let oi = |o: &Option<i64>| o.map(|v| v.to_string()).unwrap_or_else(|| "-".into());
    let os = |o: &Option<String>| o.as_ref().map(|v| hexs(v)).unwrap_or_else(|| "_".into());
    match s {
        AggState::CountAll { count } => format!("c{count}"),
        AggState::CountUnique { values } => {
            let mut v: Vec<&String> = values.iter().collect();
            v.sort();
            format!("u{}", v.iter().map(|s| hexs(s)).collect::<Vec<_>>().join(","))
        }
        AggState::Sum { sum } => format!("s{sum}"),
        AggState::Avg { sum, count } => format!("a{sum},{count}"),
        AggState::Min { min_num, min_str } => format!("m{},{}", oi(min_num), os(min_str)),
        AggState::Max { max_num, max_str } => format!("x{},{}", oi(max_num), os(max_str)),
    }
}

fn spec_of(kind: u64) -> (AggregateOpSpec, &'static str) {
    let f = || "f0".to_string();
    match kind {
        0 => (AggregateOpSpec::CountAll, "c"),
        1 => (AggregateOpSpec::CountUnique { field: f() }, "u0"),
        2 => (AggregateOpSpec::Total { field: f() }, "t0"),
        3 => (AggregateOpSpec::Avg { field: f() }, "a0"),
        4 => (AggregateOpSpec::Min { field: f() }, "n0"),
        5 => (AggregateOpSpec::Max { field: f() }, "x0"),
        _ => (AggregateOpSpec::CountField { field: f() }, "f0"),
    }
}

fn scalar_tok(v: &ScalarValue) -> String {
    match v {
        ScalarValue::Int64(i) => format!("i{i}"),
        ScalarValue::Utf8(s) => format!("s{}", hexs(s)),
        ScalarValue::Float64(f) => format!("a{:016x}", f.to_bits()),
        ScalarValue::Null => "N".into(),
        o => format!("?{o:?}"),
    }
}

/// left fold of the real `AggState::merge` over generated states (mostly one variant, sometimes
/// mixed), then the real `agg_state_to_scalar`. Oracle: merging in the reverse grouping / a
/// shuffled order reports the same cell when all states are of one variant.
pub fn stream_state(a: &Args) {
    let mut s = Stream::create(&a.out, "state");
    for i in 0..a.cases {
        if a.only.is_some_and(|o| o != i) {
            continue;
        }
        let mut r = Rng::for_case(a.seed, "state", i);
        let kind = r.below(6);
        let n = 1 + r.below(5) as usize;
        let mixed = r.chance(1, 10);
        let states: Vec<AggState> = (0..n).map(|_| if mixed { let k = r.below(6); gen_state(&mut r, k) } else { gen_state(&mut r, kind) }).collect();
        let skind = if r.chance(1, 12) { r.below(7) } else if kind == 0 && r.chance(1, 3) { 6 } else { kind };
        let (spec, mtok) = spec_of(skind);
        let mut acc = states[0].clone();
        for st in &states[1..] {
            acc.merge(st);
        }
        let out = match AggregateStreamMerger::agg_state_to_scalar(&acc, &spec) {
            Ok(v) => scalar_tok(&v),
            Err(_) => "err".into(),
        };
        let op = format!("state {} {}", mtok, states.iter().map(state_tok).collect::<Vec<_>>().join(" "));
        s.tally(&format!("variant:{}", if mixed { "mixed" } else { mtok }));
        s.tally_n("states", n as u64);
        s.case(&op, &format!("{} {}", state_tok(&acc), out), n > 1);
        if !mixed && n > 1 {
            // commutativity / associativity observed on the real code
            let mut sh = states.clone();
            r.shuffle(&mut sh);
            // right-nested merge of the shuffled list
            let mut acc2 = sh[sh.len() - 1].clone();
            for st in sh[..sh.len() - 1].iter().rev() {
                let mut x = st.clone();
                x.merge(&acc2);
                acc2 = x;
            }
            let out2 = match AggregateStreamMerger::agg_state_to_scalar(&acc2, &spec) {
                Ok(v) => scalar_tok(&v),
                Err(_) => "err".into(),
            };
            if out == out2 {
                s.oracle_ok();
            } else {
                s.oracle_fail(i, "-", &format!("merge order changes the reported cell: {op} -> {out} vs {out2}"));
            }
        }
    }
    s.finish();
}

fn gen_ts(r: &mut Rng) -> i64 {
    match r.below(12) {
        0 => r.below(100_000) as i64,
        1 => -(r.below(100_000) as i64),
        2 => -(r.below(8_000_000_000_000) as i64),
        3 => r.below(8_200_000_000_000) as i64,
        4 => *r.pick(&[i64::MAX, i64::MIN, 0, -1, 8_210_266_876_799, 8_210_266_876_800, -8_334_601_228_801, 951_782_400, 951_868_799, 951_868_800, 4_107_542_400]),
        5 => {
            // around a month / year boundary
            let y = 1970 + r.below(200) as i64;
            let days = (y - 1970) * 365 + (y - 1969) / 4 - (y - 1901) / 100 + (y - 1601) / 400;
            days * 86_400 + r.range(-3, 3)
        }
        _ => 1_000_000_000 + r.below(1_500_000_000) as i64,
    }
}

/// `naive_bucket_of` and `CalendarTimeBucketer::bucket_of` (UTC, Monday) against the model;
/// oracle: an independent calendar walk.
pub fn stream_bucket(a: &Args) {
    let mut s = Stream::create(&a.out, "bucket");
    let mut cfg = TimeConfig::default();
    let cal_none = CalendarTimeBucketer::new(cfg.clone());
    cfg.timezone = Some("UTC".into());
    let cal_utc = CalendarTimeBucketer::new(cfg);
    for i in 0..a.cases {
        if a.only.is_some_and(|o| o != i) {
            continue;
        }
        let mut r = Rng::for_case(a.seed, "bucket", i);
        let g = *r.pick(&Gran::ALL);
        let mut t = gen_ts(&mut r);
        let naive = r.chance(1, 4);
        // PER WEEK within the first days of chrono's minimum year panics inside chrono
        // (`NaiveDate - TimeDelta` overflowed); kept out of the equality stream, see the report.
        if g == Gran::Week && t >= -8_334_601_228_800 && t < -8_334_601_228_800 + 7 * 86_400 {
            t += 7 * 86_400;
        }
        let real = if naive {
            naive_bucket_of(t as u64, &g.to_real())
        } else if r.chance(1, 2) {
            cal_none.bucket_of(t as u64, &g.to_real())
        } else {
            cal_utc.bucket_of(t as u64, &g.to_real())
        };
        s.tally(&format!("{}:{}", if naive { "naive" } else { "cal" }, g.word()));
        if t < 0 {
            s.tally("negative");
        }
        s.case(&format!("bucket {} {} {}", if naive { "naive" } else { "cal" }, g.tok(), t), &real.to_string(), true);
        if !naive && (-8_334_601_228_800..=8_210_266_876_799).contains(&t) {
            let e = ref_bucket(g, t);
            if e as u64 == real && e <= t {
                s.oracle_ok();
            } else {
                s.oracle_fail(i, "-", &format!("bucket {} of {} is {} but the calendar walk gives {}", g.word(), t, real as i64, e));
            }
        }
    }
    s.finish();
}

const PIECES: &[&str] = &["", "-", "+", "0", "7", "07", "12", "9223372036854775807", "9223372036854775808", "922337203685477580", "a", " ", "1.0", "e", "٣", "1_0", "00000000000000000000000000000000000012"];

/// `ColumnValues::get_i64_at` on a string column (`fast_parse_i64`) against `parseI64`;
/// oracle: Rust's own `str::parse::<i64>()`.
pub fn stream_pi64(a: &Args) {
    let mut s = Stream::create(&a.out, "pi64");
    for i in 0..a.cases {
        if a.only.is_some_and(|o| o != i) {
            continue;
        }
        let mut r = Rng::for_case(a.seed, "pi64", i);
        let txt = match r.below(6) {
            0 => r.range(i64::MIN, -1).to_string(),
            1 => (r.next() as i64).to_string(),
            2 => format!("{}{}", r.pick(&["-", "+", ""]), r.next() as u128 * (1 + r.below(40)) as u128),
            3 => format!("{}{}", r.pick(PIECES), r.pick(PIECES)),
            4 => format!("{}{}{}", r.pick(PIECES), r.pick(PIECES), r.pick(PIECES)),
            _ => r.range(-1000, 1000).to_string(),
        };
        let bytes = txt.as_bytes().to_vec();
        let len = bytes.len();
        let col = ColumnValues::new(Arc::new(DecompressedBlock::from_bytes(bytes)), vec![(0, len)]);
        let got = col.get_i64_at(0);
        s.tally(if got.is_some() { "parses" } else { "rejects" });
        s.case(&format!("pi64 {}", hexs(&txt)), &got.map(|v| v.to_string()).unwrap_or_else(|| "-".into()), got.is_some());
        if got == txt.parse::<i64>().ok() {
            s.oracle_ok();
        } else {
            s.oracle_fail(i, "-", &format!("get_i64_at({txt:?}) = {got:?}"));
        }
    }
    s.finish();
}
