//! C09 harness: aggregates equal a fold over the selection.
mod cases;
mod e2e;
mod oracle;
mod real;
mod small;
mod witness;
mod types;

use cases::*;
use snel_harness::out::{parse_args, Stream};
use snel_harness::rng::Rng;
use snel_harness::sys::SysCfg;
use types::*;

/// Does some flow take both sink paths (a batch on the columnar path and one on the row path,
/// no grouping)? Until repo commit 829ebe3 `into_partial` lost one of the two sink groups there
/// (finding C09-columnar-split, fixed); kept as a tally so the evidence shows the case is hit.
pub fn split_possible(p: &PlanSpec, flows: &Flows) -> bool {
    if p.has_grouping() {
        return false;
    }
    flows.iter().any(|fl| {
        let mut seen = [false, false];
        for b in fl.iter().filter(|b| !b.is_empty()) {
            seen[columnar_ok(p, b) as usize] = true;
        }
        seen[0] && seen[1]
    })
}

pub fn col_typed(batch: &[Vec<Sc>], j: usize) -> bool {
    batch.iter().all(|r| matches!(r.get(j), Some(Sc::Int(_)) | Some(Sc::Null)))
}

pub fn columnar_ok(p: &PlanSpec, batch: &[Vec<Sc>]) -> bool {
    p.metrics.iter().all(|m| match m {
        Metric::CountAll => true,
        Metric::Total(f) | Metric::Avg(f) => *f < p.width && col_typed(batch, *f),
        _ => false,
    })
}

fn main() {
    snel_harness::sys::maybe_child();
    let a = parse_args();
    std::fs::create_dir_all(&a.out).unwrap();
    let root = a.out.join(format!("c09-{}-env", a.stream));
    let _ = std::fs::remove_dir_all(&root);
    let cfg = SysCfg::default().write(&root);
    // bucket_of reads the [time] section of the global CONFIG
    unsafe { std::env::set_var("SNELDB_CONFIG", &cfg) };
    let rt = tokio::runtime::Builder::new_multi_thread().worker_threads(2).enable_all().build().unwrap();
    match a.stream.as_str() {
        "flow" => rt.block_on(stream_flow(&a, &root)),
        "witness" => rt.block_on(stream_witness(&a, &root)),
        "e2e" => e2e::stream_e2e(&a),
        "state" => small::stream_state(&a),
        "bucket" => small::stream_bucket(&a),
        "pi64" => small::stream_pi64(&a),
        other => {
            eprintln!("unknown stream {other}");
            std::process::exit(2);
        }
    }
}

async fn stream_flow(a: &snel_harness::out::Args, root: &std::path::Path) {
    let env = real::Env::new(root);
    let mut s = Stream::create(&a.out, "flow");
    for i in 0..a.cases {
        if a.only.is_some_and(|o| o != i) {
            continue;
        }
        let mut r = Rng::for_case(a.seed, "flow", i);
        let case = gen_case(&mut r);
        let parts = [partition(&mut r, &case.rows), partition(&mut r, &case.rows), single_flow(&case.rows)];
        let mut tables = vec![];
        for (pi, flows) in parts.iter().enumerate() {
            let res = real::run_real(&env, &case.plan, flows).await;
            let split = split_possible(&case.plan, flows);
            let (line, table) = match &res {
                Ok(t) => (table_line(t), Some(t.clone())),
                Err(e) => {
                    s.tally(&format!("impl-error:{}", e.split(':').next().unwrap_or("")));
                    ("err".to_string(), None)
                }
            };
            let nontrivial = table.as_ref().is_some_and(|t| !t.is_empty());
            if split {
                s.tally("flow-takes-both-sink-paths");
            }
            s.case(&format!("flow {}{}{}", case.plan.header(), body_tokens(flows), case.plan.note()), &line, nontrivial);
            if pi == 0 {
                tally_case(&mut s, &case, flows);
            }
            tables.push((table, split));
        }
        oracle::check(&mut s, i, &case, &parts, &tables);
    }
    s.finish();
}

/// Fixed minimal cases: witnesses of every open finding class (exact correspondence, and the
/// oracle must name exactly the class) and regression cases of repaired findings (class "" = the
/// property must hold; a recurrence is reported with class `-`).
async fn stream_witness(a: &snel_harness::out::Args, root: &std::path::Path) {
    let env = real::Env::new(root);
    let mut s = Stream::create(&a.out, "witness");
    for (i, w) in witness::all().iter().enumerate() {
        let res = real::run_real(&env, &w.plan, &w.flows).await;
        let line = match &res {
            Ok(t) => table_line(t),
            Err(_) => "err".to_string(),
        };
        s.case(&format!("flow {}{}{}", w.plan.header(), body_tokens(&w.flows), w.plan.note()), &line, true);
        let case = witness::as_case(w);
        let got = match &res {
            Ok(t) => oracle::classify(&case, &w.flows, t),
            Err(_) => Some("impl-error".to_string()),
        };
        s.tally(&format!("witness:{}", if w.class.is_empty() { "(holds)" } else { w.class }));
        match (w.class, got) {
            ("", None) => s.oracle_ok(),
            (c, Some(g)) if c == g => s.oracle_fail(i as u64, w.class, &format!("witness of {}: {} -> {}", w.class, body_tokens(&w.flows), line)),
            (c, g) => s.oracle_fail(i as u64, "-", &format!("witness expected class {c:?} but the oracle says {g:?}: {line}")),
        }
    }
    s.finish();
}

fn tally_case(s: &mut Stream, case: &Case, flows: &Flows) {
    s.tally(if case.clean { "profile:clean" } else { "profile:edge" });
    for m in &case.plan.metrics {
        s.tally(&format!("metric:{}", m.kind()));
    }
    for t in &case.tys {
        s.tally(&format!("col:{}", t.name()));
    }
    s.tally(match &case.plan.group_by {
        None => "groupby:0",
        Some(g) if g.len() == 1 => "groupby:1",
        _ => "groupby:2",
    });
    s.tally(&format!("bucket:{}", case.plan.bucket.map(|g| g.word()).unwrap_or("none")));
    if let Some(l) = case.plan.limit {
        s.tally("LIMIT");
        let cap = l as usize + case.plan.offset.unwrap_or(0) as usize;
        let int_like_groups = case.plan.group_by.as_ref().is_some_and(|g| {
            g.iter().any(|f| case.rows.iter().any(|r| matches!(r.get(*f), Some(Sc::Int(_)))))
        });
        // the situation a per-flow pruning of groups would be wrong in: several flows, one of them
        // with more groups than OFFSET + LIMIT, group values whose string and numeric order differ
        let flow_groups = |fl: &Vec<Vec<Vec<Sc>>>| {
            let mut ks: Vec<String> = fl
                .iter()
                .flatten()
                .map(|r| {
                    let mut k = String::new();
                    if let Some(g) = &case.plan.group_by {
                        for f in g {
                            k.push_str(&r.get(*f).map(|c| c.token()).unwrap_or_default());
                            k.push('|');
                        }
                    }
                    if case.plan.bucket.is_some() {
                        k.push_str(&r.get(case.plan.tf).map(|c| c.token()).unwrap_or_default());
                    }
                    k
                })
                .collect();
            ks.sort();
            ks.dedup();
            ks.len()
        };
        if flows.len() > 1 && flows.iter().any(|fl| flow_groups(fl) > cap) {
            s.tally("LIMIT:some-flow-holds-more-groups-than-cap");
            if int_like_groups {
                s.tally("LIMIT:…and-BY-on-integers");
            }
        }
    }
    if case.plan.offset.is_some() {
        s.tally("OFFSET");
    }
    s.tally_n("rows", case.rows.len() as u64);
    s.tally(&format!("flows:{}", flows.len()));
    s.tally_n("batches", flows.iter().map(|f| f.len() as u64).sum());
}
