//! End-to-end stream: the real engine (DEFINE / STORE / FLUSH / QUERY through parse_command +
//! dispatch_command in a child process), clean typed data split over shards, memtable and
//! segments. Oracle: the aggregate table must equal the reference fold over the rows that the
//! same query *without* the aggregate clause returns (with LIMIT n: the first n groups of that
//! table in (bucket, group) order). Where the query has no FOR / LIMIT and no
//! other event type is stored, the table is also compared for equality with the model (fed the
//! stored rows as one flow — for such data the table does not depend on the split,
//! `C09_partition_independent_partial`).
use crate::types::*;
use serde_json::Value;
use snel_harness::out::{Args, Stream};
use snel_harness::rng::Rng;
use snel_harness::sys::{Session, SysCfg};
use std::collections::BTreeMap;

#[derive(Clone, Debug)]
struct Ev {
    ty: usize, // 0 = the queried type, 1 = another type stored next to it
    ctx: usize,
    k: i64,
    g: String,
    x: i64,
    t: i64,
}

const GS: &[&str] = &["a", "b", "zz"];

struct Q {
    metrics: Vec<Metric>, // over columns: 0 = g, 1 = x, 2 = t, 3 = k
    by_g: bool,
    per: Option<Gran>,
    wh: Option<i64>, // WHERE x >= v
    ctx: Option<usize>,
    limit: Option<usize>,
}

fn col_name(f: usize) -> &'static str {
    ["g", "x", "t", "k"][f]
}

impl Q {
    fn text(&self, ty: &str, agg: bool, ret: Option<&str>) -> String {
        let mut s = format!("QUERY {ty}");
        if let Some(c) = self.ctx {
            s.push_str(&format!(" FOR c{c}"));
        }
        if let Some(v) = self.wh {
            s.push_str(&format!(" WHERE x >= {v}"));
        }
        if agg {
            let ms: Vec<String> = self
                .metrics
                .iter()
                .map(|m| match m {
                    Metric::CountAll => "COUNT".to_string(),
                    Metric::CountField(f) => format!("COUNT {}", col_name(*f)),
                    Metric::CountUnique(f) => format!("COUNT UNIQUE {}", col_name(*f)),
                    Metric::Total(f) => format!("TOTAL {}", col_name(*f)),
                    Metric::Avg(f) => format!("AVG {}", col_name(*f)),
                    Metric::Min(f) => format!("MIN {}", col_name(*f)),
                    Metric::Max(f) => format!("MAX {}", col_name(*f)),
                })
                .collect();
            s.push_str(&format!(" {}", ms.join(", ")));
            if let Some(g) = self.per {
                s.push_str(&format!(" PER {} USING t", g.word()));
            }
            if self.by_g {
                s.push_str(" BY g");
            }
            if let Some(l) = self.limit {
                s.push_str(&format!(" LIMIT {l}"));
            }
        } else if let Some(r) = ret {
            s.push_str(&format!(" RETURN [{r}]"));
        }
        s
    }
    fn plan(&self) -> PlanSpec {
        PlanSpec {
            metrics: self.metrics.clone(),
            group_by: if self.by_g { Some(vec![0]) } else { None },
            bucket: self.per,
            tf: 2,
            width: 4,
        }
    }
}

fn json_out(v: &Value) -> OutV {
    match v {
        Value::Null => OutV::Null,
        Value::String(s) => OutV::Str(s.clone()),
        Value::Number(n) => {
            if let Some(i) = n.as_i64() {
                OutV::Int(i)
            } else {
                OutV::Avg(n.as_f64().unwrap_or(f64::NAN).to_bits())
            }
        }
        o => OutV::Str(format!("?{o}")),
    }
}

/// decode the aggregate reply into the canonical table; AVG cells (logical type Float) as bits
fn decode_table(q: &Q, cols: &[String], rows: &[Vec<Value>]) -> Result<Table, String> {
    let mut t = Table::new();
    for r in rows {
        let mut i = 0;
        let mut bucket = None;
        if q.per.is_some() {
            if cols.get(0).map(|s| s.as_str()) != Some("bucket") {
                return Err(format!("no bucket column: {cols:?}"));
            }
            bucket = r[0].as_u64();
            i = 1;
        }
        let mut groups = vec![];
        if q.by_g {
            groups.push(r[i].as_str().unwrap_or("?").to_string());
            i += 1;
        }
        let mut outs = vec![];
        for (m, v) in q.metrics.iter().zip(r[i..].iter()) {
            outs.push(match (m, json_out(v)) {
                (Metric::Avg(_), OutV::Int(x)) => OutV::Avg((x as f64).to_bits()),
                (_, o) => o,
            });
        }
        if outs.len() != q.metrics.len() {
            return Err(format!("row width: {cols:?}"));
        }
        if t.insert((bucket, groups), outs).is_some() {
            return Err("duplicate group in the final table".into());
        }
    }
    Ok(t)
}

/// the reference fold on clean typed rows (g string, x / t / k int)
fn reference(q: &Q, rows: &[Vec<Sc>]) -> Table {
    let mut groups: BTreeMap<(Option<u64>, Vec<String>), Vec<&Vec<Sc>>> = BTreeMap::new();
    for r in rows {
        let b = q.per.map(|g| match &r[2] {
            Sc::Int(t) => crate::oracle::ref_bucket(g, *t) as u64,
            _ => 0,
        });
        let gs = if q.by_g {
            vec![match &r[0] {
                Sc::Str(s) => s.clone(),
                _ => String::new(),
            }]
        } else {
            vec![]
        };
        groups.entry((b, gs)).or_default().push(r);
    }
    let int = |c: &Sc| if let Sc::Int(i) = c { *i } else { 0 };
    let mut t = Table::new();
    for (k, rs) in groups {
        let outs = q
            .metrics
            .iter()
            .map(|m| match m {
                Metric::CountAll | Metric::CountField(_) => OutV::Int(rs.len() as i64),
                Metric::CountUnique(f) => {
                    let mut v: Vec<String> = rs.iter().map(|r| r[*f].token()).collect();
                    v.sort();
                    v.dedup();
                    OutV::Int(v.len() as i64)
                }
                Metric::Total(f) => OutV::Int(rs.iter().map(|r| int(&r[*f])).sum()),
                Metric::Avg(f) => {
                    let s: i64 = rs.iter().map(|r| int(&r[*f])).sum();
                    OutV::Avg((s as f64 / rs.len() as f64).to_bits())
                }
                Metric::Min(f) | Metric::Max(f) => {
                    let is_min = matches!(m, Metric::Min(_));
                    if *f == 0 {
                        let it = rs.iter().map(|r| if let Sc::Str(s) = &r[0] { s.clone() } else { String::new() });
                        OutV::Str(if is_min { it.min().unwrap() } else { it.max().unwrap() })
                    } else {
                        let it = rs.iter().map(|r| int(&r[*f]));
                        OutV::Int(if is_min { it.min().unwrap() } else { it.max().unwrap() })
                    }
                }
            })
            .collect();
        t.insert(k, outs);
    }
    t
}

fn gen_query(r: &mut Rng) -> Q {
    let n = 1 + r.below(3);
    let mut metrics = vec![];
    for _ in 0..n {
        metrics.push(match r.below(12) {
            0 | 1 => Metric::CountAll,
            2 => Metric::CountField(1),
            3 => Metric::Total(1),
            4 => Metric::Avg(1),
            5 => Metric::Min(1),
            6 => Metric::Max(1),
            7 => Metric::Min(0),
            8 => Metric::Max(0),
            9 => Metric::CountUnique(0),
            10 => Metric::Max(2),
            _ => {
                if r.chance(1, 3) {
                    Metric::CountUnique(3) // integers: finding count-unique-typed-int-column
                } else {
                    Metric::Total(1)
                }
            }
        });
    }
    Q {
        metrics,
        by_g: r.chance(1, 2),
        per: if r.chance(1, 3) { Some(*r.pick(&Gran::ALL)) } else { None },
        wh: if r.chance(1, 3) { Some(r.range(-2, 6)) } else { None },
        ctx: if r.chance(1, 4) { Some(r.below(3) as usize) } else { None },
        limit: if r.chance(1, 5) { Some(1 + r.below(3) as usize) } else { None },
    }
}

/// The rows the query selects without its aggregate clause: membership comes from the real
/// engine (`RETURN [k]`, de-duplicated on the unique key k), the other cells from the store log
/// (value round trip is C07's subject; RETURN with two payload fields has an unspecified column
/// order).
fn select_rows(s: &mut Session, q: &Q, ty: &str, evs: &[Ev]) -> Option<Vec<Vec<Sc>>> {
    let rep = s.cmd(&q.text(ty, false, Some("k")))?;
    if !rep.ok() {
        return None;
    }
    let mut ks: Vec<i64> = rep.col("k").iter().filter_map(|v| v.as_i64()).collect();
    ks.sort();
    ks.dedup();
    let mut out = vec![];
    for k in ks {
        let e = evs.iter().find(|e| e.k == k && e.ty == 0)?;
        out.push(vec![Sc::Str(e.g.clone()), Sc::Int(e.x), Sc::Int(e.t), Sc::Int(e.k)]);
    }
    Some(out)
}

pub fn stream_e2e(a: &Args) {
    let mut s = Stream::create(&a.out, "e2e");
    let per_session = 12u64;
    let mut sess: Option<Session> = None;
    for i in 0..a.cases {
        if a.only.is_some_and(|o| o != i) {
            continue;
        }
        let mut r = Rng::for_case(a.seed, "e2e", i);
        if sess.is_none() || i % per_session == 0 || sess.as_ref().is_some_and(|x| x.dead) {
            let mut cr = Rng::for_case(a.seed, "e2e-cfg", i / per_session);
            let cfg = SysCfg {
                shards: 1 + cr.below(3) as usize,
                event_per_zone: 1 + cr.below(3) as usize,
                fill_factor: 1 + cr.below(2) as usize,
                streaming_batch_size: None,
                ..SysCfg::default()
            };
            let root = a.out.join(format!("e2e-{}-{}", a.seed, i / per_session));
            let _ = std::fs::remove_dir_all(&root);
            s.tally(&format!("cfg:shards={}", cfg.shards));
            sess = Some(Session::start(&root, &cfg));
        }
        let se = sess.as_mut().unwrap();
        // Barrier: nothing of an earlier case may still be in a memtable or passive buffer — an
        // aggregate does not check the event type of memory rows (finding agg-ignores-for-since-type),
        // which also makes `QUERY <sentinel type> COUNT` a probe for "memory is empty".
        let sentinel = format!("zs{}", a.seed);
        if i % per_session == 0 || a.only.is_some() {
            se.cmd(&format!("DEFINE {sentinel} FIELDS {{ k: \"int\" }}"));
        }
        let mut clean = false;
        for _ in 0..50 {
            se.cmd("FLUSH");
            se.ctl(serde_json::json!({"ctl": "await_flush"}));
            if se.cmd(&format!("QUERY {sentinel} COUNT")).is_some_and(|x| x.ok() && x.rows.is_empty()) {
                clean = true;
                break;
            }
            std::thread::sleep(std::time::Duration::from_millis(20));
        }
        if !clean {
            s.tally("memory-not-clean-at-start");
        }
        let ty = format!("e{}x{}", a.seed, i);
        let oty = format!("o{}x{}", a.seed, i);
        let with_other = r.chance(1, 4);
        let fields = r#"{ k: "int", g: "string", x: "int", t: "int" }"#;
        if !se.cmd(&format!("DEFINE {ty} FIELDS {fields}")).is_some_and(|x| x.ok()) {
            s.oracle_fail(i, "-", "DEFINE failed");
            continue;
        }
        if with_other {
            se.cmd(&format!("DEFINE {oty} FIELDS {fields}"));
        }
        let n = r.below(11) as usize;
        let base = *r.pick(&[1_700_000_000i64, 1_709_164_800, 951_782_400]);
        let mut evs: Vec<Ev> = vec![];
        let mut flushes = 0;
        for j in 0..n {
            let e = Ev {
                ty: if with_other && r.chance(1, 3) { 1 } else { 0 },
                ctx: r.below(3) as usize,
                k: j as i64,
                g: r.pick(GS).to_string(),
                x: r.range(-3, 9),
                t: base + r.below(5 * 86_400) as i64,
            };
            let name = if e.ty == 0 { &ty } else { &oty };
            let ok = se
                .cmd(&format!(
                    "STORE {name} FOR c{} PAYLOAD {{\"k\":{},\"g\":\"{}\",\"x\":{},\"t\":{}}}",
                    e.ctx, e.k, e.g, e.x, e.t
                ))
                .is_some_and(|x| x.ok());
            if !ok {
                s.oracle_fail(i, "-", "STORE failed");
            }
            evs.push(e);
            if r.chance(1, 5) {
                std::thread::sleep(std::time::Duration::from_millis(30));
                se.cmd("FLUSH");
                flushes += 1;
            }
        }
        // wait until every stored event of both types is visible
        let want0 = evs.iter().filter(|e| e.ty == 0).count();
        for _ in 0..100 {
            let seen = se.cmd(&format!("QUERY {ty} RETURN [k]")).map(|x| {
                let mut ids: Vec<u64> = x.col("event_id").iter().filter_map(|v| v.as_u64()).collect();
                ids.sort();
                ids.dedup();
                ids.len()
            });
            if seen == Some(want0) {
                break;
            }
            std::thread::sleep(std::time::Duration::from_millis(20));
        }
        // no flush in flight while the queries run (rows of a segment that is being published are
        // visible twice, and aggregates do not de-duplicate: C03's subject)
        se.ctl(serde_json::json!({"ctl": "await_flush"}));
        std::thread::sleep(std::time::Duration::from_millis(20));
        s.tally_n("events", n as u64);
        s.tally_n("flushes", flushes);
        if with_other {
            s.tally("other-type-stored");
        }
        for _ in 0..4 {
            let q = gen_query(&mut r);
            let Some(sel) = select_rows(se, &q, &ty, &evs) else {
                s.oracle_fail(i, "-", "selection failed");
                continue;
            };
            let Some(rep) = se.cmd(&q.text(&ty, true, None)) else {
                s.oracle_fail(i, "-", "child died on the aggregate query");
                break;
            };
            let qtext = q.text(&ty, true, None);
            if !rep.ok() {
                s.oracle_fail(i, "-", &format!("aggregate query failed: {qtext}: {}", rep.raw));
                continue;
            }
            let got = match decode_table(&q, &rep.columns, &rep.rows) {
                Ok(t) => t,
                Err(e) => {
                    s.oracle_fail(i, "-", &format!("{qtext}: {e}"));
                    continue;
                }
            };
            let exp = reference(&q, &sel);
            // what the selection should have returned according to the store log
            let log_sel: Vec<Vec<Sc>> = evs
                .iter()
                .filter(|e| e.ty == 0 && q.wh.map_or(true, |v| e.x >= v) && q.ctx.map_or(true, |c| c == e.ctx))
                .map(|e| vec![Sc::Str(e.g.clone()), Sc::Int(e.x), Sc::Int(e.t), Sc::Int(e.k)])
                .collect();
            let selection_short = sel.len() < log_sel.len() && sel.iter().all(|r| log_sel.contains(r));
            if selection_short {
                s.tally("selection-misses-stored-rows");
            }
            // the aggregate evaluator checks WHERE only: which stored events pass it but are not selected?
            let passes = |e: &Ev| q.wh.map_or(true, |v| e.x >= v);
            let leaked: Vec<&Ev> = evs.iter().filter(|e| passes(e) && (e.ty != 0 || q.ctx.is_some_and(|c| c != e.ctx))).collect();
            let uniq_int = q.metrics.iter().any(|m| matches!(m, Metric::CountUnique(3)));
            for m in &q.metrics {
                s.tally(&format!("metric:{}", m.kind()));
            }
            s.tally(if q.ctx.is_some() { "FOR" } else { "no-FOR" });
            s.tally(if q.limit.is_some() { "LIMIT" } else { "no-LIMIT" });
            // exact tie with the model where the rows fed to the aggregators are exactly the type's rows
            if clean && q.ctx.is_none() && q.limit.is_none() && !with_other && {
                let mut a1 = sel.clone();
                let mut b1: Vec<Vec<Sc>> = evs.iter().filter(|e| e.ty == 0 && passes(e)).map(|e| vec![Sc::Str(e.g.clone()), Sc::Int(e.x), Sc::Int(e.t), Sc::Int(e.k)]).collect();
                a1.sort_by_key(|r| r[3].token());
                b1.sort_by_key(|r| r[3].token());
                a1 == b1
            } {
                let flows: Flows = vec![vec![sel.clone()]];
                s.case(&format!("flow {}{}", q.plan().header(), body_tokens(&flows)), &table_line(&got), !got.is_empty());
            }
            let ok = match q.limit {
                None => got == exp,
                // LIMIT only caps the number of groups (since a6114e9 the rows are no longer
                // truncated): without ORDER BY the merger sorts by (bucket, group values) and keeps
                // the first `l` groups, cells untouched
                Some(l) => got == exp.iter().take(l).map(|(k, v)| (k.clone(), v.clone())).collect::<Table>(),
            };
            if ok {
                s.oracle_ok();
            } else {
                let class = if !clean && q.ctx.is_none() {
                    // rows of an earlier history were still in memory
                    "agg-ignores-for-since-type"
                } else if selection_short && q.limit.is_none() && got == reference(&q, &log_sel) {
                    // the aggregate is right about the stored rows; the *selection* lost some
                    "selection-misses-rows"
                } else if uniq_int {
                    "count-unique-typed-int-column"
                } else if !leaked.is_empty() {
                    "agg-ignores-for-since-type"
                } else {
                    "-"
                };
                s.tally(&format!("departure:{class}"));
                s.oracle_fail(
                    i,
                    class,
                    &format!(
                        "{qtext} -> {} but the fold over the {} selected rows (store log: {}) gives {} ({} non-selected events pass the WHERE clause; stored {:?})",
                        table_line(&got),
                        sel.len(),
                        log_sel.len(),
                        table_line(&exp),
                        leaked.len(),
                        evs.iter().map(|e| format!("{}:c{}:{}:{}:{}", e.ty, e.ctx, e.g, e.x, e.t)).collect::<Vec<_>>()
                    ),
                );
            }
        }
        // leave nothing of this case in memory for the next one
        se.cmd("FLUSH");
    }
    s.finish();
}
