//! End-to-end stream: the real engine (DEFINE / STORE / FLUSH / QUERY through parse_command +
//! dispatch_command in a child process), clean typed data split over shards, memtable and
//! segments. Oracle: the aggregate table must equal the reference fold over the rows that the
//! same query *without* the aggregate clause returns (with LIMIT n: the first n groups of that
//! table in (bucket, group) order). Where the query has no FOR / LIMIT and no
//! other event type is stored, the table is also compared for equality with the model (fed the
//! stored rows as one flow — for such data the table does not depend on the split,
//! `C09_partition_independent_partial`).
use crate::types::*;
use serde_json::Value;
use snel_harness::out::{Args, Stream};
use snel_harness::rng::Rng;
use snel_harness::sys::{Session, SysCfg};
use std::collections::BTreeMap;

#[derive(Clone, Debug)]
struct Ev {
    ty: usize, // 0 = the queried type, 1 = another type stored next to it
    ctx: usize,
    k: i64,
    g: String,
    x: i64,
    t: i64,
}

const GS: &[&str] = &["a", "b", "zz"];
const XS: &[i64] = &[-11, -10, -9, -1, 0, 1, 8, 9, 10, 11, 99, 100, 101];

struct Q {
    metrics: Vec<Metric>, // over columns: 0 = g, 1 = x, 2 = t, 3 = k
    by: Option<usize>, // BY g (0) or BY x (1, an int field: group values "9" < "10" numerically only)
    per: Option<Gran>,
    wh: Option<i64>, // WHERE x >= v
    ctx: Option<usize>,
    limit: Option<usize>,
    offset: Option<usize>,
}

fn col_name(f: usize) -> &'static str {
    ["g", "x", "t", "k"][f]
}

impl Q {
    fn text(&self, ty: &str, agg: bool, ret: Option<&str>) -> String {
        let mut s = format!("QUERY {ty}");
        if let Some(c) = self.ctx {
            s.push_str(&format!(" FOR c{c}"));
        }
        if let Some(v) = self.wh {
            s.push_str(&format!(" WHERE x >= {v}"));
        }
        if agg {
            let ms: Vec<String> = self
                .metrics
                .iter()
                .map(|m| match m {
                    Metric::CountAll => "COUNT".to_string(),
                    Metric::CountField(f) => format!("COUNT {}", col_name(*f)),
                    Metric::CountUnique(f) => format!("COUNT UNIQUE {}", col_name(*f)),
                    Metric::Total(f) => format!("TOTAL {}", col_name(*f)),
                    Metric::Avg(f) => format!("AVG {}", col_name(*f)),
                    Metric::Min(f) => format!("MIN {}", col_name(*f)),
                    Metric::Max(f) => format!("MAX {}", col_name(*f)),
                })
                .collect();
            s.push_str(&format!(" {}", ms.join(", ")));
            if let Some(g) = self.per {
                s.push_str(&format!(" PER {} USING t", g.word()));
            }
            if let Some(f) = self.by {
                s.push_str(&format!(" BY {}", col_name(f)));
            }
            if let Some(l) = self.limit {
                s.push_str(&format!(" LIMIT {l}"));
            }
            if let Some(o) = self.offset {
                s.push_str(&format!(" OFFSET {o}"));
            }
        } else if let Some(r) = ret {
            s.push_str(&format!(" RETURN [{r}]"));
        }
        s
    }
    fn plan(&self) -> PlanSpec {
        PlanSpec {
            metrics: self.metrics.clone(),
            group_by: self.by.map(|f| vec![f]),
            bucket: self.per,
            tf: 2,
            width: 4,
            limit: None,
            offset: None,
        }
    }
}

fn json_out(v: &Value) -> OutV {
    match v {
        Value::Null => OutV::Null,
        Value::String(s) => OutV::Str(s.clone()),
        Value::Number(n) => {
            if let Some(i) = n.as_i64() {
                OutV::Int(i)
            } else {
                OutV::Avg(n.as_f64().unwrap_or(f64::NAN).to_bits())
            }
        }
        o => OutV::Str(format!("?{o}")),
    }
}

/// The rows of the reply's batch frames, re-read from the raw JSON text with `str::parse::<f64>`
/// for non-integer numbers: serde_json's default float parser may be one ulp off, and AVG cells are
/// compared by bit pattern.
fn exact_rows(raw: &str) -> Option<Vec<Vec<Value>>> {
    fn scalar(b: &[u8], i: &mut usize) -> Option<Value> {
        match b.get(*i)? {
            b'"' => {
                let start = *i;
                *i += 1;
                while *i < b.len() && b[*i] != b'"' {
                    if b[*i] == b'\\' {
                        *i += 1;
                    }
                    *i += 1;
                }
                *i += 1;
                serde_json::from_slice(&b[start..*i]).ok()
            }
            b'n' => {
                *i += 4;
                Some(Value::Null)
            }
            b't' => {
                *i += 4;
                Some(Value::Bool(true))
            }
            b'f' => {
                *i += 5;
                Some(Value::Bool(false))
            }
            _ => {
                let start = *i;
                while *i < b.len() && !matches!(b[*i], b',' | b']') {
                    *i += 1;
                }
                let txt = std::str::from_utf8(&b[start..*i]).ok()?.trim();
                if let Ok(v) = txt.parse::<i64>() {
                    Some(Value::from(v))
                } else if let Ok(v) = txt.parse::<u64>() {
                    Some(Value::from(v))
                } else {
                    serde_json::Number::from_f64(txt.parse::<f64>().ok()?).map(Value::Number)
                }
            }
        }
    }
    let mut out = vec![];
    for line in raw.lines() {
        if !line.contains("\"type\":\"batch\"") {
            continue;
        }
        let b = line.as_bytes();
        let mut i = line.find("\"rows\":[")? + 8;
        // b[i-1] == '[' of the outer array
        loop {
            match b.get(i)? {
                b']' => break,
                b',' => i += 1,
                b'[' => {
                    i += 1;
                    let mut row = vec![];
                    loop {
                        match b.get(i)? {
                            b']' => {
                                i += 1;
                                break;
                            }
                            b',' => i += 1,
                            _ => row.push(scalar(b, &mut i)?),
                        }
                    }
                    out.push(row);
                }
                _ => return None,
            }
        }
    }
    Some(out)
}

/// decode the aggregate reply into the canonical table; AVG cells (logical type Float) as bits
fn decode_table(q: &Q, cols: &[String], rows: &[Vec<Value>]) -> Result<Table, String> {
    let mut t = Table::new();
    for r in rows {
        let mut i = 0;
        let mut bucket = None;
        if q.per.is_some() {
            if cols.get(0).map(|s| s.as_str()) != Some("bucket") {
                return Err(format!("no bucket column: {cols:?}"));
            }
            bucket = r[0].as_u64();
            i = 1;
        }
        let mut groups = vec![];
        if q.by.is_some() {
            groups.push(match &r[i] {
                Value::String(x) => x.clone(),
                Value::Number(n) => n.to_string(),
                _ => "?".to_string(),
            });
            i += 1;
        }
        let mut outs = vec![];
        for (m, v) in q.metrics.iter().zip(r[i..].iter()) {
            outs.push(match (m, json_out(v)) {
                (Metric::Avg(_), OutV::Int(x)) => OutV::Avg((x as f64).to_bits()),
                (_, o) => o,
            });
        }
        if outs.len() != q.metrics.len() {
            return Err(format!("row width: {cols:?}"));
        }
        if t.insert((bucket, groups), outs).is_some() {
            return Err("duplicate group in the final table".into());
        }
    }
    Ok(t)
}

/// the reference fold on clean typed rows (g string, x / t / k int)
fn reference(q: &Q, rows: &[Vec<Sc>]) -> Table {
    let mut groups: BTreeMap<(Option<u64>, Vec<String>), Vec<&Vec<Sc>>> = BTreeMap::new();
    for r in rows {
        let b = q.per.map(|g| match &r[2] {
            Sc::Int(t) => crate::oracle::ref_bucket(g, *t) as u64,
            _ => 0,
        });
        let gs = match q.by {
            Some(f) => vec![match &r[f] {
                Sc::Str(s) => s.clone(),
                Sc::Int(i) => i.to_string(),
                _ => String::new(),
            }],
            None => vec![],
        };
        groups.entry((b, gs)).or_default().push(r);
    }
    let int = |c: &Sc| if let Sc::Int(i) = c { *i } else { 0 };
    let mut t = Table::new();
    for (k, rs) in groups {
        let outs = q
            .metrics
            .iter()
            .map(|m| match m {
                Metric::CountAll | Metric::CountField(_) => OutV::Int(rs.len() as i64),
                Metric::CountUnique(f) => {
                    let mut v: Vec<String> = rs.iter().map(|r| r[*f].token()).collect();
                    v.sort();
                    v.dedup();
                    OutV::Int(v.len() as i64)
                }
                Metric::Total(f) => OutV::Int(rs.iter().map(|r| int(&r[*f])).sum()),
                Metric::Avg(f) => {
                    let s: i64 = rs.iter().map(|r| int(&r[*f])).sum();
                    OutV::Avg((s as f64 / rs.len() as f64).to_bits())
                }
                Metric::Min(f) | Metric::Max(f) => {
                    let is_min = matches!(m, Metric::Min(_));
                    if *f == 0 {
                        let it = rs.iter().map(|r| if let Sc::Str(s) = &r[0] { s.clone() } else { String::new() });
                        OutV::Str(if is_min { it.min().unwrap() } else { it.max().unwrap() })
                    } else {
                        let it = rs.iter().map(|r| int(&r[*f]));
                        OutV::Int(if is_min { it.min().unwrap() } else { it.max().unwrap() })
                    }
                }
            })
            .collect();
        t.insert(k, outs);
    }
    t
}

/// OFFSET > 0 on an un-ordered aggregate is skipped twice by the unchanged tree (merger and
/// response writer: finding C09-agg-offset-twice). Such queries are asked only once that finding is
/// listed (or in the builders' dev mode), so that the check stays quiet until it is reviewed.
fn offset_enabled() -> bool {
    if std::env::var("VERIF_DEV_KNOWN").as_deref() == Ok("1") {
        return true;
    }
    std::fs::read_to_string("/verif/known_findings.json").map(|t| t.contains("C09-agg-offset-twice")).unwrap_or(false)
}

fn gen_query(r: &mut Rng) -> Q {
    let n = 1 + r.below(3);
    let mut metrics = vec![];
    for _ in 0..n {
        metrics.push(match r.below(12) {
            0 | 1 => Metric::CountAll,
            2 => Metric::CountField(1),
            3 => Metric::Total(1),
            4 => Metric::Avg(1),
            5 => Metric::Min(1),
            6 => Metric::Max(1),
            7 => Metric::Min(0),
            8 => Metric::Max(0),
            9 => Metric::CountUnique(0),
            10 => Metric::Max(2),
            _ => {
                if r.chance(1, 3) {
                    Metric::CountUnique(3) // integers: finding count-unique-typed-int-column
                } else {
                    Metric::Total(1)
                }
            }
        });
    }
    Q {
        metrics,
        by: match r.below(6) {
            0 | 1 => None,
            2 => Some(0),
            _ => Some(1),
        },
        per: if r.chance(1, 3) { Some(*r.pick(&Gran::ALL)) } else { None },
        wh: if r.chance(1, 3) { Some(*r.pick(&[-10, -2, 0, 1, 5, 9, 10, 50])) } else { None },
        ctx: if r.chance(1, 4) { Some(r.below(3) as usize) } else { None },
        // LIMIT from 1 up to about the number of groups, with and without OFFSET, no ORDER BY
        limit: if r.chance(2, 5) { Some(if r.chance(2, 3) { 1 + r.below(3) } else { 1 + r.below(6) } as usize) } else { None },
        offset: None,
    }
}

/// The rows the query selects without its aggregate clause: membership comes from the real
/// engine (`RETURN [k]`, de-duplicated on the unique key k), the other cells from the store log
/// (value round trip is C07's subject; RETURN with two payload fields has an unspecified column
/// order).
fn select_rows(s: &mut Session, q: &Q, ty: &str, evs: &[Ev]) -> Option<Vec<Vec<Sc>>> {
    let rep = s.cmd(&q.text(ty, false, Some("k")))?;
    if !rep.ok() {
        return None;
    }
    let mut ks: Vec<i64> = rep.col("k").iter().filter_map(|v| v.as_i64()).collect();
    ks.sort();
    ks.dedup();
    let mut out = vec![];
    for k in ks {
        let e = evs.iter().find(|e| e.k == k && e.ty == 0)?;
        out.push(vec![Sc::Str(e.g.clone()), Sc::Int(e.x), Sc::Int(e.t), Sc::Int(e.k)]);
    }
    Some(out)
}

/// Why did the selection lose stored rows? For up to three missing keys: the event id the engine
/// reports for the row when asked for it alone, and the key of a *returned* row that carries the
/// same event id (the response writer de-duplicates on event_id).
fn diagnose_missing(s: &mut Session, q: &Q, ty: &str, missing: &[i64]) -> String {
    let Some(all) = s.cmd(&q.text(ty, false, Some("k"))) else { return "child died".into() };
    let ids = all.col("event_id");
    let ks = all.col("k");
    let mut out = vec![];
    for k in missing.iter().take(3) {
        let one = s.cmd(&format!("QUERY {ty} WHERE k = {k} RETURN [k]"));
        let id = one.as_ref().and_then(|r| r.col("event_id").first().cloned());
        let twin = id.as_ref().and_then(|id| ids.iter().zip(ks.iter()).find(|(i, kk)| *i == id && kk.as_i64() != Some(*k)).map(|(_, kk)| kk.clone()));
        let cnt = s.cmd(&format!("QUERY {ty} WHERE k = {k} COUNT")).map(|r| format!("{:?}", r.rows)).unwrap_or_default();
        let cnt_by = s.cmd(&format!("QUERY {ty} COUNT BY k")).map(|r| r.rows.iter().any(|row| row.first().and_then(|v| v.as_str()) == Some(&k.to_string()))).unwrap_or(false);
        out.push(format!(
            "k={k}: alone {} row(s), event_id {:?}, returned row with the same event_id: k={:?}, `WHERE k = {k} COUNT` -> {cnt}, group {k} in `COUNT BY k`: {cnt_by}",
            one.map(|r| r.rows.len()).unwrap_or(0),
            id,
            twin
        ));
    }
    // does a FLUSH change what the selection sees? (were the rows sitting in a memtable / passive buffer?)
    s.cmd("FLUSH");
    s.ctl(serde_json::json!({"ctl": "await_flush"}));
    let after = s.cmd(&q.text(ty, false, Some("k"))).map(|r| r.rows.len()).unwrap_or(0);
    format!("selection now returns {} rows, after FLUSH {} rows; {}", ks.len(), after, out.join("; "))
}

pub fn stream_e2e(a: &Args) {
    let offsets = offset_enabled();
    let mut s = Stream::create(&a.out, "e2e");
    let per_session = 12u64;
    let mut sess: Option<Session> = None;
    // `--range A B` (extra args): replay the cases A..=B in one session chain (a history's session is
    // shared by 12 consecutive cases, so a case may depend on what its predecessors left behind)
    let range: Option<(u64, u64)> = a
        .extra
        .iter()
        .position(|x| x == "--range")
        .and_then(|p| Some((a.extra.get(p + 1)?.parse().ok()?, a.extra.get(p + 2)?.parse().ok()?)));
    for i in 0..a.cases {
        if a.only.is_some_and(|o| o != i) || range.is_some_and(|(lo, hi)| i < lo || i > hi) {
            continue;
        }
        let mut r = Rng::for_case(a.seed, "e2e", i);
        if sess.is_none() || i % per_session == 0 || sess.as_ref().is_some_and(|x| x.dead) {
            let mut cr = Rng::for_case(a.seed, "e2e-cfg", i / per_session);
            let cfg = SysCfg {
                shards: 1 + cr.below(3) as usize,
                event_per_zone: 1 + cr.below(3) as usize,
                fill_factor: 1 + cr.below(2) as usize,
                streaming_batch_size: None,
                ..SysCfg::default()
            };
            let root = a.out.join(format!("e2e-{}-{}", a.seed, i / per_session));
            let _ = std::fs::remove_dir_all(&root);
            s.tally(&format!("cfg:shards={}", cfg.shards));
            sess = Some(Session::start(&root, &cfg));
        }
        let se = sess.as_mut().unwrap();
        // Barrier: nothing of an earlier case may still be in a memtable or passive buffer — an
        // aggregate does not check the event type of memory rows (finding agg-ignores-for-since-type),
        // which also makes `QUERY <sentinel type> COUNT` a probe for "memory is empty".
        let sentinel = format!("zs{}", a.seed);
        if i % per_session == 0 || a.only.is_some() {
            se.cmd(&format!("DEFINE {sentinel} FIELDS {{ k: \"int\" }}"));
        }
        let mut clean = false;
        for _ in 0..50 {
            se.cmd("FLUSH");
            se.ctl(serde_json::json!({"ctl": "await_flush"}));
            if se.cmd(&format!("QUERY {sentinel} COUNT")).is_some_and(|x| x.ok() && x.rows.is_empty()) {
                clean = true;
                break;
            }
            std::thread::sleep(std::time::Duration::from_millis(20));
        }
        if !clean {
            s.tally("memory-not-clean-at-start");
        }
        let ty = format!("e{}x{}", a.seed, i);
        let oty = format!("o{}x{}", a.seed, i);
        let with_other = r.chance(1, 4);
        let fields = r#"{ k: "int", g: "string", x: "int", t: "int" }"#;
        if !se.cmd(&format!("DEFINE {ty} FIELDS {fields}")).is_some_and(|x| x.ok()) {
            s.oracle_fail(i, "-", "DEFINE failed");
            continue;
        }
        if with_other {
            se.cmd(&format!("DEFINE {oty} FIELDS {fields}"));
        }
        let n = r.below(25) as usize;
        // a history keeps to a few x values (so that a group has events in several flows), taken
        // from both sides of digit boundaries (BY x: string order ≠ numeric order)
        let xpool: Vec<i64> = (0..3 + r.below(4)).map(|_| *r.pick(XS)).collect();
        let base = *r.pick(&[1_700_000_000i64, 1_709_164_800, 951_782_400]);
        let mut evs: Vec<Ev> = vec![];
        let mut flushes = 0;
        for j in 0..n {
            let e = Ev {
                ty: if with_other && r.chance(1, 3) { 1 } else { 0 },
                ctx: r.below(3) as usize,
                k: j as i64,
                g: r.pick(GS).to_string(),
                // values on both sides of digit boundaries (BY x: string order ≠ numeric order)
                x: if r.chance(5, 6) { *r.pick(&xpool) } else { r.range(-12, 120) },
                t: base + r.below(5 * 86_400) as i64,
            };
            let name = if e.ty == 0 { &ty } else { &oty };
            let ok = se
                .cmd(&format!(
                    "STORE {name} FOR c{} PAYLOAD {{\"k\":{},\"g\":\"{}\",\"x\":{},\"t\":{}}}",
                    e.ctx, e.k, e.g, e.x, e.t
                ))
                .is_some_and(|x| x.ok());
            if !ok {
                s.oracle_fail(i, "-", "STORE failed");
            }
            evs.push(e);
            if r.chance(1, 5) {
                std::thread::sleep(std::time::Duration::from_millis(30));
                se.cmd("FLUSH");
                flushes += 1;
            }
        }
        // wait until every stored event of both types is visible
        let want0 = evs.iter().filter(|e| e.ty == 0).count();
        for _ in 0..100 {
            let seen = se.cmd(&format!("QUERY {ty} RETURN [k]")).map(|x| {
                let mut ids: Vec<u64> = x.col("event_id").iter().filter_map(|v| v.as_u64()).collect();
                ids.sort();
                ids.dedup();
                ids.len()
            });
            if seen == Some(want0) {
                break;
            }
            std::thread::sleep(std::time::Duration::from_millis(20));
        }
        // no flush in flight while the queries run (rows of a segment that is being published are
        // visible twice, and aggregates do not de-duplicate: C03's subject)
        se.ctl(serde_json::json!({"ctl": "await_flush"}));
        std::thread::sleep(std::time::Duration::from_millis(20));
        // … and every stored event of the type is visible in two consecutive reads
        let mut stable = 0;
        for _ in 0..100 {
            let seen = se.cmd(&format!("QUERY {ty} RETURN [k]")).map(|x| {
                let mut ks: Vec<i64> = x.col("k").iter().filter_map(|v| v.as_i64()).collect();
                ks.sort();
                ks.dedup();
                ks.len()
            });
            if seen == Some(want0) {
                stable += 1;
                if stable == 2 {
                    break;
                }
            } else {
                stable = 0;
                std::thread::sleep(std::time::Duration::from_millis(20));
                se.ctl(serde_json::json!({"ctl": "await_flush"}));
            }
        }
        if stable < 2 {
            s.tally("stored-events-never-all-visible");
        }
        s.tally_n("events", n as u64);
        s.tally_n("flushes", flushes);
        if with_other {
            s.tally("other-type-stored");
        }
        for qi in 0..4 {
            let mut q = gen_query(&mut r);
            // one query per history aims at the merge of per-flow partials under a group cap: BY the
            // int field, LIMIT from 1 to (groups − 1), nothing else
            let xs_distinct = {
                let mut v: Vec<i64> = evs.iter().filter(|e| e.ty == 0).map(|e| e.x).collect();
                v.sort();
                v.dedup();
                v.len()
            };
            if qi == 0 && xs_distinct >= 2 {
                q.by = Some(1);
                q.per = None;
                q.ctx = None;
                q.wh = None;
                q.limit = Some(1 + r.below(xs_distinct as u64 - 1) as usize);
                q.metrics.retain(|m| !matches!(m, Metric::CountUnique(3)));
                q.metrics.push(Metric::CountAll);
                s.tally("targeted:BY-int-LIMIT<groups");
            }
            // OFFSET needs LIMIT (the handler rejects it otherwise)
            let want_offset = r.chance(1, 3);
            let off = r.below(3) as usize;
            if q.limit.is_some() && want_offset && (off == 0 || offsets) {
                q.offset = Some(off);
            }
            // The property compares two answers on ONE state: the aggregate query is bracketed by
            // two reads of the selection; if they differ (rows still becoming visible / a flush still
            // settling under load) the three reads are repeated, and a state that never settles is
            // not judged.
            let qtext = q.text(&ty, true, None);
            let mut bracket = None;
            for attempt in 0..4 {
                if attempt > 0 {
                    s.tally("state-unsettled:retry");
                    std::thread::sleep(std::time::Duration::from_millis(100));
                    se.ctl(serde_json::json!({"ctl": "await_flush"}));
                }
                let Some(before) = select_rows(se, &q, &ty, &evs) else { break };
                let Some(rep) = se.cmd(&qtext) else { break };
                let Some(after) = select_rows(se, &q, &ty, &evs) else { break };
                if before == after {
                    bracket = Some((before, rep));
                    break;
                }
            }
            if se.dead {
                s.oracle_fail(i, "-", "child died on the aggregate query");
                break;
            }
            let Some((sel, rep)) = bracket else {
                s.tally("state-unsettled:not-judged");
                continue;
            };
            if !rep.ok() {
                s.oracle_fail(i, "-", &format!("aggregate query failed: {qtext}: {}", rep.raw));
                continue;
            }
            let exact = exact_rows(&rep.raw).filter(|r| r.len() == rep.rows.len()).unwrap_or_else(|| rep.rows.clone());
            let got = match decode_table(&q, &rep.columns, &exact) {
                Ok(t) => t,
                Err(e) => {
                    s.oracle_fail(i, "-", &format!("{qtext}: {e}"));
                    continue;
                }
            };
            let exp = reference(&q, &sel);
            // what the selection should have returned according to the store log
            let log_sel: Vec<Vec<Sc>> = evs
                .iter()
                .filter(|e| e.ty == 0 && q.wh.map_or(true, |v| e.x >= v) && q.ctx.map_or(true, |c| c == e.ctx))
                .map(|e| vec![Sc::Str(e.g.clone()), Sc::Int(e.x), Sc::Int(e.t), Sc::Int(e.k)])
                .collect();
            let selection_short = sel.len() < log_sel.len() && sel.iter().all(|r| log_sel.contains(r));
            if selection_short {
                s.tally("selection-misses-stored-rows");
            }
            // the aggregate evaluator checks WHERE only: which stored events pass it but are not selected?
            let passes = |e: &Ev| q.wh.map_or(true, |v| e.x >= v);
            let leaked: Vec<&Ev> = evs.iter().filter(|e| passes(e) && (e.ty != 0 || q.ctx.is_some_and(|c| c != e.ctx))).collect();
            let uniq_int = q.metrics.iter().any(|m| matches!(m, Metric::CountUnique(3)));
            for m in &q.metrics {
                s.tally(&format!("metric:{}", m.kind()));
            }
            s.tally(if q.ctx.is_some() { "FOR" } else { "no-FOR" });
            s.tally(if q.limit.is_some() { "LIMIT" } else { "no-LIMIT" });
            if q.offset.is_some() {
                s.tally("OFFSET");
            }
            if q.by == Some(1) {
                s.tally("BY-int");
                if q.limit.is_some_and(|l| l + q.offset.unwrap_or(0) < exp.len()) {
                    s.tally("BY-int:LIMIT+OFFSET<groups");
                }
            }
            // exact tie with the model where the rows fed to the aggregators are exactly the type's rows
            if clean && q.ctx.is_none() && q.limit.is_none() && q.offset.is_none() && !with_other && {
                let mut a1 = sel.clone();
                let mut b1: Vec<Vec<Sc>> = evs.iter().filter(|e| e.ty == 0 && passes(e)).map(|e| vec![Sc::Str(e.g.clone()), Sc::Int(e.x), Sc::Int(e.t), Sc::Int(e.k)]).collect();
                a1.sort_by_key(|r| r[3].token());
                b1.sort_by_key(|r| r[3].token());
                a1 == b1
            } {
                let flows: Flows = vec![vec![sel.clone()]];
                s.case(&format!("flow {}{}", q.plan().header(), body_tokens(&flows)), &table_line(&got), !got.is_empty());
            }
            // LIMIT / OFFSET only cap the number of groups: which groups are reported is the
            // merger's business, but every reported group must carry the fold over ALL selected rows
            // of that group, and there must be min(LIMIT, groups − OFFSET) of them
            let limited = q.limit.is_some() || q.offset.is_some();
            let limited_ok = |full: &Table| {
                let want = full.len().saturating_sub(q.offset.unwrap_or(0)).min(q.limit.unwrap_or(usize::MAX));
                got.len() == want && got.iter().all(|(k, v)| full.get(k) == Some(v))
            };
            let ok = if limited { limited_ok(&exp) } else { got == exp };
            if ok {
                s.oracle_ok();
            } else {
                // OFFSET m skipped twice (finding C09-agg-offset-twice): every reported group is right
                // w.r.t. `full`, but only max(0, min(LIMIT, groups − m) − m) groups come back
                let offset_twice = |full: &Table| {
                    let m = q.offset.unwrap_or(0);
                    m > 0
                        && got.iter().all(|(k, v)| full.get(k) == Some(v))
                        && got.len() == full.len().saturating_sub(m).min(q.limit.unwrap_or(usize::MAX)).saturating_sub(m)
                };
                let log_ref = reference(&q, &log_sel);
                let class = if !clean && q.ctx.is_none() {
                    // rows of an earlier history were still in memory
                    "agg-ignores-for-since-type"
                } else if selection_short
                    && (if limited { limited_ok(&log_ref) || offset_twice(&log_ref) } else { got == log_ref })
                {
                    // the aggregate is right about the stored rows (up to the OFFSET finding); the
                    // *selection* lost some
                    "selection-misses-rows"
                } else if uniq_int {
                    "count-unique-typed-int-column"
                } else if leaked.is_empty() && offset_twice(&exp) {
                    "agg-offset-applied-twice"
                } else if !leaked.is_empty() {
                    "agg-ignores-for-since-type"
                } else {
                    "-"
                };
                let diag = if selection_short {
                    let missing: Vec<i64> = log_sel
                        .iter()
                        .filter(|r| !sel.contains(r))
                        .filter_map(|r| if let Sc::Int(k) = r[3] { Some(k) } else { None })
                        .collect();
                    format!(" | missing from the selection: k={:?}: {}", missing, diagnose_missing(se, &q, &ty, &missing))
                } else {
                    String::new()
                };
                s.tally(&format!("departure:{class}"));
                s.oracle_fail(
                    i,
                    class,
                    &format!(
                        "{qtext} -> {} but the fold over the {} selected rows (store log: {}) gives {} ({} non-selected events pass the WHERE clause; stored {:?}){diag}",
                        table_line(&got),
                        sel.len(),
                        log_sel.len(),
                        table_line(&exp),
                        leaked.len(),
                        evs.iter().map(|e| format!("{}:c{}:{}:{}:{}", e.ty, e.ctx, e.g, e.x, e.t)).collect::<Vec<_>>()
                    ),
                );
            }
        }
        // leave nothing of this case in memory for the next one
        se.cmd("FLUSH");
    }
    s.finish();
}
