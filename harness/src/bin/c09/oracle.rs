//! Reference fold (executable spec of C09, written independently of the model) and the
//! classification of departures into finding classes.
//!
//! Spec used (lenient wherever the property text leaves room, so that a failure is a real one):
//! * groups = distinct (bucket, BY values) of the rows; a null BY value is a group of its own;
//! * COUNT = rows; COUNT f = rows with non-null f; COUNT UNIQUE f = distinct non-null values
//!   (one more is accepted when nulls are present);
//! * TOTAL f = exact sum (integer column) / float sum (float column); AVG f = mean of the
//!   non-null values (0 or null accepted for none); MIN/MAX f = numeric on numeric columns,
//!   byte-lexicographic on string columns, nulls ignored (""/null accepted for none);
//! * TOTAL/AVG of string or bool columns, mixed-type columns, NaN/inf, and timestamps outside
//!   chrono's range are left unspecified (oracle skipped, the exact correspondence still runs).
use crate::cases::Case;
use crate::types::*;
use crate::col_typed;
use snel_harness::out::Stream;
use std::collections::BTreeMap;

#[derive(Clone, Copy, PartialEq, Eq, Debug)]
enum Kind {
    Empty,
    Int,
    Float,
    Str,
    Bool,
    Mixed,
}

fn col_kind(rows: &[Vec<Sc>], f: usize) -> Kind {
    let mut k = Kind::Empty;
    for r in rows {
        let c = match r.get(f) {
            Some(Sc::Null) | None => continue,
            Some(Sc::Int(_)) => Kind::Int,
            Some(Sc::Float(_)) => Kind::Float,
            Some(Sc::Str(_)) => Kind::Str,
            Some(Sc::Bool(_)) => Kind::Bool,
            Some(Sc::Ts(_)) | Some(Sc::Bin) => Kind::Mixed,
        };
        k = if k == Kind::Empty || k == c { c } else { Kind::Mixed };
    }
    k
}

fn is_leap(y: i64) -> bool {
    (y % 4 == 0 && y % 100 != 0) || y % 400 == 0
}

/// start of the bucket of `t` (seconds, UTC, weeks start on Monday) — by walking the calendar
pub fn ref_bucket(g: Gran, t: i64) -> i64 {
    let day = t.div_euclid(86_400);
    match g {
        Gran::Hour => t.div_euclid(3600) * 3600,
        Gran::Day => day * 86_400,
        Gran::Week => {
            // 1970-01-01 was a Thursday
            let dow = (day + 3).rem_euclid(7);
            (day - dow) * 86_400
        }
        Gran::Month | Gran::Year => {
            let cyc = day.div_euclid(146_097);
            let mut d = day - cyc * 146_097;
            let mut y = 1970 + cyc * 400;
            loop {
                let len = if is_leap(y) { 366 } else { 365 };
                if d >= len {
                    d -= len;
                    y += 1;
                } else {
                    break;
                }
            }
            if g == Gran::Year {
                return (day - d) * 86_400;
            }
            let ml = [31, if is_leap(y) { 29 } else { 28 }, 31, 30, 31, 30, 31, 31, 30, 31, 30, 31];
            for len in ml {
                if d >= len {
                    d -= len;
                } else {
                    break;
                }
            }
            (day - d) * 86_400
        }
    }
}

const CHRONO_MIN: i64 = -8_334_601_228_800;
const CHRONO_MAX: i64 = 8_210_266_876_799;

#[derive(Clone, Debug, PartialEq, Eq, PartialOrd, Ord)]
enum BRef {
    NoPer,
    NoTime,
    At(i64),
}

type EKey = (BRef, Vec<Option<String>>);

fn group_val(c: &Sc) -> Option<String> {
    match c {
        Sc::Null => None,
        Sc::Int(i) => Some(i.to_string()),
        Sc::Float(f) => Some(f.to_string()),
        Sc::Str(s) => Some(s.clone()),
        Sc::Bool(b) => Some(b.to_string()),
        Sc::Ts(t) => Some(t.to_string()),
        Sc::Bin => None,
    }
}

fn cell<'a>(r: &'a [Sc], f: usize) -> &'a Sc {
    static NULL: Sc = Sc::Null;
    r.get(f).unwrap_or(&NULL)
}

fn canon_int_like(s: &str) -> Option<String> {
    s.parse::<i64>().ok().map(|i| i.to_string())
}

struct Mismatch {
    class: &'static str,
    detail: String,
}

/// The key the code reports the expected group under, and why it may differ.
fn impl_key(k: &EKey) -> (Option<(Option<u64>, Vec<String>)>, Option<&'static str>) {
    let mut why = None;
    let b = match &k.0 {
        BRef::NoPer => None,
        BRef::NoTime => Some(0u64),
        BRef::At(b) if *b >= 0 => Some(*b as u64),
        BRef::At(_) => {
            why = Some("bucket-negative-collapsed");
            None
        }
    };
    let mut gs = vec![];
    for g in &k.1 {
        match g {
            None => return (None, Some("group-null-or-empty-dropped")),
            Some(s) if s.is_empty() => return (None, Some("group-null-or-empty-dropped")),
            Some(s) => match canon_int_like(s) {
                Some(c) if &c != s => {
                    why = Some("group-int-like-string-canonicalised");
                    gs.push(c)
                }
                _ => gs.push(s.clone()),
            },
        }
    }
    (Some((b, gs)), why)
}

fn ulps_close(a: f64, b: f64) -> bool {
    if a == b {
        return true;
    }
    let d = (a - b).abs();
    d <= 1e-12 * a.abs().max(b.abs()).max(1e-300)
}

/// None = unspecified (skip); Some(Ok) / Some(Err(class))
fn check_metric(
    m: &Metric,
    case: &Case,
    rows: &[&Vec<Sc>],
    flows: &Flows,
    got: &OutV,
) -> Option<Result<(), Mismatch>> {
    let all = &case.rows;
    let bad = |class: &'static str, exp: String| {
        Some(Err(Mismatch { class, detail: format!("{} expected {} got {}", m.tok(), exp, got.tok()) }))
    };
    let f = m.field().unwrap_or(usize::MAX);
    let kind = if f == usize::MAX { Kind::Empty } else { col_kind(all, f) };
    if kind == Kind::Mixed {
        return None;
    }
    let cells: Vec<&Sc> = rows.iter().map(|r| cell(r, f)).collect();
    let nonnull: Vec<&Sc> = cells.iter().copied().filter(|c| !c.is_null()).collect();
    let has_null = nonnull.len() < cells.len();
    // does some batch hold a null of this group's field in a column that is not typed i64?
    let null_in_string_col = || {
        flows.iter().flatten().any(|b| !col_typed(b, f) && b.iter().any(|r| cell(r, f).is_null()))
    };
    match m {
        Metric::CountAll => {
            if *got == OutV::Int(rows.len() as i64) {
                Some(Ok(()))
            } else {
                bad("-", rows.len().to_string())
            }
        }
        Metric::CountField(_) => {
            if *got == OutV::Int(nonnull.len() as i64) {
                Some(Ok(()))
            } else if has_null && null_in_string_col() {
                bad("count-field-null-in-string-column", nonnull.len().to_string())
            } else {
                bad("-", nonnull.len().to_string())
            }
        }
        Metric::CountUnique(_) => {
            let mut d: Vec<String> = nonnull.iter().map(|c| c.token()).collect();
            d.sort();
            d.dedup();
            let lo = d.len() as i64;
            let hi = lo + has_null as i64;
            // with no non-null value at all the code's single "" is also fine
            let ok = matches!(got, OutV::Int(v) if (*v >= lo && *v <= hi) || (lo == 0 && *v == 1));
            if ok {
                Some(Ok(()))
            } else if flows.iter().flatten().any(|b| col_typed(b, f) && b.iter().any(|r| matches!(cell(r, f), Sc::Int(_)))) {
                bad("count-unique-typed-int-column", format!("{lo}..{hi}"))
            } else {
                bad("-", format!("{lo}..{hi}"))
            }
        }
        Metric::Total(_) | Metric::Avg(_) => {
            let is_avg = matches!(m, Metric::Avg(_));
            match kind {
                Kind::Str | Kind::Bool => None,
                Kind::Int | Kind::Empty => {
                    let sum: i128 = nonnull.iter().map(|c| if let Sc::Int(i) = c { *i as i128 } else { 0 }).sum();
                    let n = nonnull.len();
                    let fits = sum >= i64::MIN as i128 && sum <= i64::MAX as i128;
                    let ok = if is_avg {
                        if n == 0 {
                            matches!(got, OutV::Null) || *got == OutV::Avg(0f64.to_bits())
                        } else {
                            matches!(got, OutV::Avg(b) if ulps_close(f64::from_bits(*b), sum as f64 / n as f64))
                        }
                    } else {
                        fits && *got == OutV::Int(sum as i64)
                    };
                    if ok {
                        Some(Ok(()))
                    } else if !fits {
                        bad("total-avg-i64-wrap", sum.to_string())
                    } else {
                        bad("-", format!("sum {sum} n {n}"))
                    }
                }
                Kind::Float => {
                    let vals: Vec<f64> = nonnull.iter().map(|c| if let Sc::Float(x) = c { *x } else { 0.0 }).collect();
                    if vals.iter().any(|v| !v.is_finite()) {
                        return None;
                    }
                    let sum: f64 = vals.iter().sum();
                    let ok = if is_avg {
                        if vals.is_empty() {
                            matches!(got, OutV::Null) || *got == OutV::Avg(0f64.to_bits())
                        } else {
                            matches!(got, OutV::Avg(b) if ulps_close(f64::from_bits(*b), sum / vals.len() as f64))
                        }
                    } else {
                        matches!(got, OutV::Int(v) if ulps_close(*v as f64, sum))
                    };
                    if ok {
                        Some(Ok(()))
                    } else if vals.iter().any(|v| v.to_string().parse::<i64>().is_err()) {
                        bad("total-avg-nonint-ignored", format!("sum {sum} n {}", vals.len()))
                    } else {
                        bad("-", format!("sum {sum}"))
                    }
                }
                Kind::Mixed => None,
            }
        }
        Metric::Min(_) | Metric::Max(_) => {
            let is_min = matches!(m, Metric::Min(_));
            if nonnull.is_empty() {
                return if matches!(got, OutV::Null) || *got == OutV::Str(String::new()) {
                    Some(Ok(()))
                } else {
                    bad("-", "none".into())
                };
            }
            let null_class = if is_min && has_null { Some("minmax-null-as-empty") } else { None };
            match kind {
                Kind::Int => {
                    let it = nonnull.iter().map(|c| if let Sc::Int(i) = c { *i } else { 0 });
                    let e = if is_min { it.min().unwrap() } else { it.max().unwrap() };
                    if *got == OutV::Int(e) {
                        Some(Ok(()))
                    } else {
                        bad("-", e.to_string())
                    }
                }
                Kind::Float => {
                    let vals: Vec<f64> = nonnull.iter().map(|c| if let Sc::Float(x) = c { *x } else { 0.0 }).collect();
                    if vals.iter().any(|v| v.is_nan()) {
                        return None;
                    }
                    let e = if is_min {
                        vals.iter().cloned().fold(f64::INFINITY, f64::min)
                    } else {
                        vals.iter().cloned().fold(f64::NEG_INFINITY, f64::max)
                    };
                    let ok = match got {
                        OutV::Int(i) => *i as f64 == e,
                        OutV::Str(s) => s.parse::<f64>().map(|v| v == e).unwrap_or(false),
                        _ => false,
                    };
                    if ok {
                        Some(Ok(()))
                    } else if null_class.is_some() && *got == OutV::Str(String::new()) {
                        bad("minmax-null-as-empty", e.to_string())
                    } else {
                        bad("minmax-float-as-string", e.to_string())
                    }
                }
                Kind::Str | Kind::Bool => {
                    let strs: Vec<String> = nonnull.iter().map(|c| group_val(c).unwrap_or_default()).collect();
                    let e = if is_min { strs.iter().min().unwrap() } else { strs.iter().max().unwrap() };
                    let ok = match got {
                        OutV::Str(s) => s == e,
                        OutV::Int(i) => &i.to_string() == e,
                        _ => false,
                    };
                    if ok {
                        Some(Ok(()))
                    } else if null_class.is_some() && *got == OutV::Str(String::new()) {
                        bad("minmax-null-as-empty", hexq(e))
                    } else if strs.iter().any(|s| s.parse::<i64>().is_ok()) {
                        bad("minmax-int-like-string", hexq(e))
                    } else {
                        bad("-", hexq(e))
                    }
                }
                _ => None,
            }
        }
    }
}

fn hexq(s: &str) -> String {
    format!("\"{}\"", s.escape_default())
}

/// Compare one implementation table with the reference fold. `None` = unspecified case.
/// With LIMIT / OFFSET (`case.plan.limit/offset`) `t` is what the coordinator reports of the merged
/// table; which groups those are is not determined by the property — every *reported* group must
/// equal the fold over all rows of that group, and their number must be
/// min(LIMIT, groups − OFFSET).
fn check_table(case: &Case, flows: &Flows, t: &Table) -> Option<Result<(), Mismatch>> {
    let limited = case.plan.limit.is_some() || case.plan.offset.is_some();
    let p = &case.plan;
    let rows = &case.rows;
    // applicability
    let mut used: Vec<usize> = p.metrics.iter().filter_map(|m| m.field()).collect();
    if let Some(g) = &p.group_by {
        used.extend(g.iter().copied());
    }
    for f in &used {
        if col_kind(rows, *f) == Kind::Mixed {
            return None;
        }
    }
    if p.bucket.is_some() {
        for r in rows {
            match cell(r, p.tf) {
                Sc::Int(t) if *t < CHRONO_MIN + 8 * 86_400 || *t > CHRONO_MAX => return None,
                Sc::Int(_) | Sc::Null => {}
                // PER … USING a field that holds strings / floats / other things: unspecified
                _ => return None,
            }
        }
    }
    // expected groups
    let mut exp: BTreeMap<EKey, Vec<&Vec<Sc>>> = BTreeMap::new();
    for r in rows {
        let b = match p.bucket {
            None => BRef::NoPer,
            Some(g) => match cell(r, p.tf) {
                Sc::Int(t) => BRef::At(ref_bucket(g, *t)),
                _ => BRef::NoTime,
            },
        };
        let gs: Vec<Option<String>> = match &p.group_by {
            None => vec![],
            Some(g) => g.iter().map(|f| group_val(cell(r, *f))).collect(),
        };
        exp.entry((b, gs)).or_default().push(r);
    }
    // where the code puts them
    let mut by_impl: BTreeMap<(Option<u64>, Vec<String>), Vec<(&EKey, Option<&'static str>)>> = BTreeMap::new();
    for k in exp.keys() {
        match impl_key(k) {
            (None, why) => {
                // a group the code never reports
                return Some(Err(Mismatch {
                    class: why.unwrap_or("-"),
                    detail: format!("group {:?} is not reported", k),
                }));
            }
            (Some(ik), why) => by_impl.entry(ik).or_default().push((k, why)),
        }
    }
    for (ik, eks) in &by_impl {
        if eks.len() > 1 {
            let why = eks.iter().find_map(|(_, w)| *w).unwrap_or_else(|| {
                if eks.iter().any(|(k, _)| k.0 == BRef::NoTime) {
                    "bucket-no-time-as-epoch"
                } else {
                    "-"
                }
            });
            return Some(Err(Mismatch { class: why, detail: format!("groups {:?} are reported as one ({:?})", eks, ik) }));
        }
        let (ek, why) = eks[0];
        let got = match t.get(ik) {
            Some(g) => g,
            None if limited && !(ek.0 == BRef::NoTime && t.contains_key(&(None, ik.1.clone()))) => continue,
            None => {
                // NoTime rows may also sit under a null bucket
                let alt = (None, ik.1.clone());
                match (ek.0 == BRef::NoTime, t.get(&alt)) {
                    (true, Some(g)) => g,
                    _ => {
                        return Some(Err(Mismatch {
                            class: why.unwrap_or("-"),
                            detail: format!("group {:?} missing from the table", ek),
                        }))
                    }
                }
            }
        };
        if why == Some("bucket-negative-collapsed") {
            return Some(Err(Mismatch { class: "bucket-negative-collapsed", detail: format!("bucket of {:?} reported as null", ek) }));
        }
        let grows = &exp[ek];
        for (m, o) in p.metrics.iter().zip(got.iter()) {
            match check_metric(m, case, grows, flows, o) {
                None => {}
                Some(Ok(())) => {}
                Some(Err(mut mm)) => {
                    mm.detail = format!("group {:?}: {}", ek, mm.detail);
                    return Some(Err(mm));
                }
            }
        }
    }
    // the empty input: an un-grouped aggregate over nothing reports nothing (accepted) — and
    // nothing else may appear
    let expected_keys = by_impl.len();
    if limited {
        let off = case.plan.offset.unwrap_or(0) as usize;
        let want = expected_keys.saturating_sub(off).min(case.plan.limit.map(|l| l as usize).unwrap_or(usize::MAX));
        // groups whose bucket the code reports as null (negative) were judged above
        if t.len() != want {
            return Some(Err(Mismatch {
                class: "-",
                detail: format!("LIMIT {:?} OFFSET {:?}: {} groups reported, {} exist: expected {}", case.plan.limit, case.plan.offset, t.len(), expected_keys, want),
            }));
        }
        if let Some(k) = t.keys().find(|k| !by_impl.contains_key(*k) && !(k.0.is_none() && by_impl.contains_key(&(Some(0), k.1.clone())))) {
            return Some(Err(Mismatch { class: "-", detail: format!("reported group {:?} does not exist in the selection", k) }));
        }
        return Some(Ok(()));
    }
    if t.len() > expected_keys {
        return Some(Err(Mismatch {
            class: "-",
            detail: format!("table has {} groups, reference {}", t.len(), expected_keys),
        }));
    }
    Some(Ok(()))
}

/// class of the departure of one table from the reference fold (None = it agrees or is unspecified)
pub fn classify(case: &Case, flows: &Flows, t: &Table) -> Option<String> {
    match check_table(case, flows, &crate::real::reported(&case.plan, t)) {
        Some(Err(m)) => Some(m.class.to_string()),
        _ => None,
    }
}

/// typedness of the batch column each row's cell of `f` lives in, keyed by row content
fn typing_signature(flows: &Flows, f: usize) -> Vec<(String, bool)> {
    let mut v: Vec<(String, bool)> = vec![];
    for b in flows.iter().flatten() {
        let t = col_typed(b, f);
        for r in b {
            v.push((r.iter().map(|c| c.token()).collect::<Vec<_>>().join(","), t));
        }
    }
    v.sort();
    v
}

pub fn check(s: &mut Stream, i: u64, case: &Case, parts: &[Flows; 3], tables: &[(Option<Table>, bool)]) {
    // 1. each table against the reference fold
    for (pi, (flows, (t, _))) in parts.iter().zip(tables.iter()).enumerate() {
        let Some(t) = t else {
            s.oracle_fail(i, "-", &format!("partition {pi}: implementation error"));
            continue;
        };
        let rep = crate::real::reported(&case.plan, t);
        match check_table(case, flows, &rep) {
            None => s.tally("oracle:unspecified"),
            Some(Ok(())) => s.oracle_ok(),
            Some(Err(m)) => {
                s.tally(&format!("departure:{}", m.class));
                s.oracle_fail(i, m.class, &format!("partition {pi}: {} | plan {} rows {}", m.detail, case.plan.header(), body_tokens(&parts[2])));
            }
        }
    }
    // 2. the same rows split differently must agree
    let limited = case.plan.limit.is_some() || case.plan.offset.is_some();
    let reps: Vec<Table> = tables.iter().filter_map(|(t, _)| t.as_ref()).map(|t| crate::real::reported(&case.plan, t)).collect();
    let ts: Vec<&Table> = reps.iter().collect();
    if ts.len() == 3 {
        // with LIMIT / OFFSET only the groups reported by both runs must agree
        let agree = |a: &Table, b: &Table| {
            if limited {
                a.len() == b.len() && a.iter().all(|(k, v)| b.get(k).map_or(true, |w| w == v))
            } else {
                a == b
            }
        };
        if agree(ts[0], ts[1]) && agree(ts[1], ts[2]) && agree(ts[0], ts[2]) {
            s.oracle_ok();
        } else {
            let p = &case.plan;
            let class = {
                let mut c = "-";
                for m in &p.metrics {
                    let Some(f) = m.field() else { continue };
                    let sigs: Vec<_> = parts.iter().map(|fl| typing_signature(fl, f)).collect();
                    if sigs[0] != sigs[1] || sigs[1] != sigs[2] {
                        c = match m {
                            Metric::CountField(_) => "count-field-null-in-string-column",
                            Metric::CountUnique(_) => "count-unique-typed-int-column",
                            Metric::Min(_) | Metric::Max(_) => "minmax-null-as-empty",
                            _ => c,
                        };
                        if c != "-" {
                            break;
                        }
                    }
                }
                c
            };
            s.tally(&format!("partition-dependent:{class}"));
            s.oracle_fail(
                i,
                class,
                &format!(
                    "same rows, different splits, different tables: {} / {} / {} | plan {}",
                    table_line(ts[0]),
                    table_line(ts[1]),
                    table_line(ts[2]),
                    p.header()
                ),
            );
        }
    }
}
