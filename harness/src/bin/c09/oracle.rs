//! Reference fold (executable spec of C09) and classification of departures.
use crate::cases::Case;
use crate::types::*;
use snel_harness::out::Stream;

pub fn check(s: &mut Stream, _i: u64, _case: &Case, _parts: &[Flows; 3], _tables: &[(Option<Table>, bool)]) {
    s.oracle_ok();
}
