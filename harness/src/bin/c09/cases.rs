//! Type-directed generators for aggregate cases.
use crate::types::*;
use snel_harness::rng::Rng;

#[derive(Clone, Copy, Debug, PartialEq, Eq)]
pub enum ColTy {
    Int,
    IntWide,
    IntNull,
    BigInt,
    Float,
    FloatNull,
    Str,
    StrNull,
    NumStr,
    Bool,
    BoolNull,
    Time,
    TimeEdge,
    Mixed,
    AllNull,
}

impl ColTy {
    pub fn name(&self) -> &'static str {
        match self {
            ColTy::Int => "int",
            ColTy::IntWide => "int-wide",
            ColTy::IntNull => "int|null",
            ColTy::BigInt => "bigint",
            ColTy::Float => "float",
            ColTy::FloatNull => "float|null",
            ColTy::Str => "str",
            ColTy::StrNull => "str|null",
            ColTy::NumStr => "numstr",
            ColTy::Bool => "bool",
            ColTy::BoolNull => "bool|null",
            ColTy::Time => "time",
            ColTy::TimeEdge => "time-edge",
            ColTy::Mixed => "mixed",
            ColTy::AllNull => "all-null",
        }
    }
}

const WIDE: &[i64] = &[-11, -10, -9, -2, -1, 0, 1, 2, 9, 10, 11, 19, 20, 99, 100, 101, 120];
const STRS: &[&str] = &["a", "b", "ab", "B", "zz", "é", "x y", "a,b", "\"q\""];
const NUMSTRS: &[&str] = &[
    "7", "07", "+7", "-0", "0", "12", "-3", "9223372036854775807", "9223372036854775808", "-9223372036854775808",
    "1e3", "1.0", " 5", "5 ", "a1", "-", "+", "٣", "00", "7",
];
const BIGS: &[i64] = &[
    i64::MAX,
    i64::MIN,
    i64::MAX - 1,
    1 << 62,
    -(1 << 62),
    (1 << 53) + 1,
    3,
    -1,
    4_611_686_018_427_387_905,
];
const YEARS: &[i64] = &[0, 951_782_400, 1_582_934_400, 1_600_000_000, 1_704_067_200, 1_709_164_800, 4_102_444_800, 13_569_465_600];

pub fn gen_value(ty: ColTy, r: &mut Rng) -> Sc {
    match ty {
        ColTy::Int => Sc::Int(r.range(-5, 20)),
        // values on both sides of digit boundaries: string order ≠ numeric order
        ColTy::IntWide => Sc::Int(if r.chance(2, 3) { *r.pick(WIDE) } else { r.range(-12, 120) }),
        ColTy::IntNull => {
            if r.chance(3, 10) {
                Sc::Null
            } else {
                Sc::Int(r.range(-5, 20))
            }
        }
        ColTy::BigInt => Sc::Int(*r.pick(BIGS)),
        ColTy::Float => gen_float(r),
        ColTy::FloatNull => {
            if r.chance(3, 10) {
                Sc::Null
            } else {
                gen_float(r)
            }
        }
        ColTy::Str => Sc::Str(r.pick(STRS).to_string()),
        ColTy::StrNull => match r.below(10) {
            0..=2 => Sc::Null,
            3 => Sc::Str(String::new()),
            _ => Sc::Str(r.pick(STRS).to_string()),
        },
        ColTy::NumStr => {
            if r.chance(1, 4) {
                Sc::Str(r.pick(STRS).to_string())
            } else {
                Sc::Str(r.pick(NUMSTRS).to_string())
            }
        }
        ColTy::Bool => Sc::Bool(r.chance(1, 2)),
        ColTy::BoolNull => {
            if r.chance(3, 10) {
                Sc::Null
            } else {
                Sc::Bool(r.chance(1, 2))
            }
        }
        ColTy::Time => {
            let base = *r.pick(YEARS);
            let span = match r.below(4) {
                0 => 7200,
                1 => 3 * 86_400,
                2 => 40 * 86_400,
                _ => 800 * 86_400,
            };
            Sc::Int(base + r.below(span) as i64)
        }
        ColTy::TimeEdge => match r.below(12) {
            0 => Sc::Null,
            1 => Sc::Int(-1),
            2 => Sc::Int(-(r.below(4_000_000_000) as i64)),
            3 => Sc::Int(0),
            4 => Sc::Int(4_000_000_000_000),
            5 => Sc::Int(*r.pick(&[i64::MAX, i64::MIN, 8_210_266_876_799, 8_210_266_876_800, -8_334_600_624_000, -8_334_601_228_801])),
            6 => Sc::Str("1700000000".into()),
            7 => Sc::Float(1_700_000_000.0 + r.below(100_000) as f64),
            8 => Sc::Ts(1_700_000_000 + r.below(10_000_000) as i64),
            9 => Sc::Int(-(r.below(200_000) as i64) - 1),
            _ => Sc::Int(*r.pick(YEARS) + r.below(100 * 86_400) as i64),
        },
        ColTy::Mixed => match r.below(9) {
            0 => Sc::Null,
            1 => Sc::Int(r.range(-3, 9)),
            2 => gen_float(r),
            3 => Sc::Str(r.pick(STRS).to_string()),
            4 => Sc::Str(r.pick(NUMSTRS).to_string()),
            5 => Sc::Bool(r.chance(1, 2)),
            6 => Sc::Ts(r.range(0, 2_000_000_000)),
            7 => Sc::Bin,
            _ => Sc::Int(*r.pick(BIGS)),
        },
        ColTy::AllNull => Sc::Null,
    }
}

fn gen_float(r: &mut Rng) -> Sc {
    match r.below(14) {
        0 => Sc::Float(1e21),
        1 => Sc::Float(1e-7),
        2 => Sc::Float(-0.0),
        3 => Sc::Float(f64::NAN),
        4 => Sc::Float(f64::INFINITY),
        5 => Sc::Float(1e15 + 0.5),
        _ => Sc::Float(r.range(-8, 40) as f64 / 4.0),
    }
}

#[derive(Clone, Debug)]
pub struct Case {
    pub plan: PlanSpec,
    pub tys: Vec<ColTy>,
    pub rows: Vec<Vec<Sc>>,
    pub clean: bool,
}

const CLEAN_TYS: &[ColTy] = &[ColTy::Int, ColTy::Str, ColTy::Bool, ColTy::Time, ColTy::Int, ColTy::Str, ColTy::IntWide];
const EDGE_TYS: &[ColTy] = &[
    ColTy::Int,
    ColTy::IntWide,
    ColTy::IntNull,
    ColTy::BigInt,
    ColTy::Float,
    ColTy::FloatNull,
    ColTy::Str,
    ColTy::StrNull,
    ColTy::NumStr,
    ColTy::Bool,
    ColTy::BoolNull,
    ColTy::Time,
    ColTy::TimeEdge,
    ColTy::Mixed,
    ColTy::AllNull,
    ColTy::IntNull,
    ColTy::StrNull,
    ColTy::FloatNull,
];

fn pick_col(r: &mut Rng, tys: &[ColTy], ok: &[ColTy]) -> Option<usize> {
    let c: Vec<usize> = (0..tys.len()).filter(|j| ok.contains(&tys[*j])).collect();
    if c.is_empty() {
        None
    } else {
        Some(*r.pick(&c))
    }
}

pub fn gen_case(r: &mut Rng) -> Case {
    let clean = r.chance(2, 5);
    let width = 1 + r.below(5) as usize;
    let tys: Vec<ColTy> = (0..width).map(|_| if clean { *r.pick(CLEAN_TYS) } else { *r.pick(EDGE_TYS) }).collect();
    let any = |r: &mut Rng| -> usize {
        if !clean && r.chance(1, 20) {
            width // no such column
        } else {
            r.below(width as u64) as usize
        }
    };
    let nm = 1 + r.below(3) as usize;
    let mut metrics = vec![];
    for _ in 0..nm {
        let k = r.below(7);
        let m = if clean {
            match k {
                0 => Metric::CountAll,
                1 => Metric::CountField(any(r)),
                2 => pick_col(r, &tys, &[ColTy::Str, ColTy::Bool]).map(Metric::CountUnique).unwrap_or(Metric::CountAll),
                3 => pick_col(r, &tys, &[ColTy::Int, ColTy::IntWide]).map(Metric::Total).unwrap_or(Metric::CountAll),
                4 => pick_col(r, &tys, &[ColTy::Int, ColTy::IntWide]).map(Metric::Avg).unwrap_or(Metric::CountAll),
                5 => pick_col(r, &tys, &[ColTy::Int, ColTy::Str, ColTy::Time]).map(Metric::Min).unwrap_or(Metric::CountAll),
                _ => pick_col(r, &tys, &[ColTy::Int, ColTy::Str, ColTy::Time]).map(Metric::Max).unwrap_or(Metric::CountAll),
            }
        } else {
            match k {
                0 => Metric::CountAll,
                1 => Metric::CountField(any(r)),
                2 => Metric::CountUnique(any(r)),
                3 => Metric::Total(any(r)),
                4 => Metric::Avg(any(r)),
                5 => Metric::Min(any(r)),
                _ => Metric::Max(any(r)),
            }
        };
        metrics.push(m);
    }
    let group_by = if r.chance(1, 2) {
        None
    } else {
        let n = 1 + r.below(2) as usize;
        let mut g = vec![];
        for _ in 0..n {
            let f = if clean {
                pick_col(r, &tys, &[ColTy::Str, ColTy::Bool, ColTy::Int, ColTy::IntWide, ColTy::IntWide])
            } else {
                Some(any(r))
            };
            if let Some(f) = f {
                g.push(f);
            }
        }
        if g.is_empty() {
            None
        } else {
            Some(g)
        }
    };
    let mut bucket = None;
    let mut tf = any(r);
    if r.chance(7, 20) {
        let g = *r.pick(&Gran::ALL);
        if clean {
            if let Some(j) = pick_col(r, &tys, &[ColTy::Time]) {
                bucket = Some(g);
                tf = j;
            }
        } else {
            bucket = Some(g);
            if let Some(j) = pick_col(r, &tys, &[ColTy::Time, ColTy::TimeEdge]) {
                if r.chance(4, 5) {
                    tf = j;
                }
            }
        }
    }
    let n = match r.below(10) {
        0 => 0,
        1 => 1,
        2..=6 => 2 + r.below(6),
        _ => 6 + r.below(12),
    } as usize;
    // a column keeps to a small pool of values so that groups and duplicates actually occur
    let mut rows = vec![];
    let pools: Vec<Vec<Sc>> = tys
        .iter()
        .map(|t| {
            let k = 1 + r.below(4) as usize;
            (0..k).map(|_| gen_value(*t, r)).collect()
        })
        .collect();
    for _ in 0..n {
        let row: Vec<Sc> = (0..width)
            .map(|j| if r.chance(3, 5) { r.pick(&pools[j]).clone() } else { gen_value(tys[j], r) })
            .collect();
        rows.push(row);
    }
    // LIMIT / OFFSET without ORDER BY: from 1 up to about the number of groups, so that a flow
    // often holds more groups than OFFSET + LIMIT
    let (limit, offset) = if (group_by.is_some() || bucket.is_some()) && r.chance(2, 5) {
        // OFFSET only together with LIMIT (the query handler rejects it otherwise)
        (Some(1 + r.below(5) as u32), if r.chance(1, 3) { Some(r.below(3) as u32) } else { None })
    } else {
        (None, None)
    };
    Case { plan: PlanSpec { metrics, group_by, bucket, tf, width, limit, offset }, tys, rows, clean }
}

/// split the rows over 1–3 flows and each flow over 1–3 batches (contiguous or scattered)
pub fn partition(r: &mut Rng, rows: &[Vec<Sc>]) -> Flows {
    let nf = 1 + r.below(3) as usize;
    let mut flows: Vec<Vec<Vec<Sc>>> = vec![vec![]; nf];
    let scatter = r.chance(1, 2);
    for (i, row) in rows.iter().enumerate() {
        let f = if scatter { r.below(nf as u64) as usize } else { i * nf / rows.len().max(1) };
        flows[f].push(row.clone());
    }
    let mut out: Flows = vec![];
    for fl in flows {
        let nb = 1 + r.below(3) as usize;
        let mut bs: Vec<Vec<Vec<Sc>>> = vec![vec![]; nb];
        let scatter_b = r.chance(1, 2);
        for (i, row) in fl.iter().enumerate() {
            let b = if scatter_b { r.below(nb as u64) as usize } else { i * nb / fl.len().max(1) };
            bs[b].push(row.clone());
        }
        // mostly drop empty batches (the sources never send them), sometimes keep one
        let keep_empty = r.chance(1, 10);
        let bs: Vec<_> = bs.into_iter().filter(|b| keep_empty || !b.is_empty()).collect();
        out.push(bs);
    }
    out
}

pub fn single_flow(rows: &[Vec<Sc>]) -> Flows {
    vec![vec![rows.to_vec()]]
}
