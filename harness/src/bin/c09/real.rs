//! Driving the real aggregate code: `AggregateOp` (ColumnConverter → AggregateSink →
//! into_partial → PartialConverter) per flow, then the coordinator's `parse_aggregate_row`,
//! `AggState::merge`, `agg_state_to_scalar`.
use crate::types::*;
use snel_db::command::handlers::query::merge::aggregate_stream::AggregateStreamMerger;
use snel_db::command::types::{AggSpec, Command};
use snel_db::engine::core::read::aggregate::partial::{AggState, GroupKey};
use snel_db::engine::core::read::aggregate::plan::{AggregateOpSpec, AggregatePlan};
use snel_db::engine::core::read::flow::operators::{aggregate_output_schema, AggregateOp, AggregateOpConfig};
use snel_db::engine::core::read::flow::{
    BatchPool, BatchSchema, ColumnBatch, FlowChannel, FlowContext, FlowMetrics, FlowOperator, FlowTelemetry,
};
use snel_db::engine::core::read::result::ColumnSpec;
use snel_db::engine::core::QueryPlan;
use snel_db::engine::schema::SchemaRegistry;
use snel_db::engine::types::ScalarValue;
use std::collections::HashMap;
use std::path::Path;
use std::sync::Arc;
use tokio::sync::RwLock;

pub fn field_name(j: usize) -> String {
    format!("f{j}")
}

pub fn build_command(p: &PlanSpec) -> Command {
    let aggs: Vec<AggSpec> = p
        .metrics
        .iter()
        .map(|m| match m {
            Metric::CountAll => AggSpec::Count { unique_field: None },
            Metric::CountField(f) => AggSpec::CountField { field: field_name(*f) },
            Metric::CountUnique(f) => AggSpec::Count { unique_field: Some(field_name(*f)) },
            Metric::Total(f) => AggSpec::Total { field: field_name(*f) },
            Metric::Avg(f) => AggSpec::Avg { field: field_name(*f) },
            Metric::Min(f) => AggSpec::Min { field: field_name(*f) },
            Metric::Max(f) => AggSpec::Max { field: field_name(*f) },
        })
        .collect();
    Command::Query {
        event_type: "ev".into(),
        context_id: None,
        since: None,
        time_field: Some(field_name(p.tf)),
        sequence_time_field: None,
        where_clause: None,
        limit: p.limit,
        offset: p.offset,
        order_by: None,
        picked_zones: None,
        return_fields: None,
        link_field: None,
        aggs: Some(aggs),
        time_bucket: p.bucket.map(|g| g.to_real()),
        group_by: p.group_by.as_ref().map(|g| g.iter().map(|f| field_name(*f)).collect()),
        event_sequence: None,
    }
}

/// The same query as text, through the real parser (used to tie the plan construction).
pub fn query_text(p: &PlanSpec) -> String {
    let mut s = String::from("QUERY ev ");
    let ms: Vec<String> = p
        .metrics
        .iter()
        .map(|m| match m {
            Metric::CountAll => "COUNT".to_string(),
            Metric::CountField(f) => format!("COUNT {}", field_name(*f)),
            Metric::CountUnique(f) => format!("COUNT UNIQUE {}", field_name(*f)),
            Metric::Total(f) => format!("TOTAL {}", field_name(*f)),
            Metric::Avg(f) => format!("AVG {}", field_name(*f)),
            Metric::Min(f) => format!("MIN {}", field_name(*f)),
            Metric::Max(f) => format!("MAX {}", field_name(*f)),
        })
        .collect();
    s.push_str(&ms.join(", "));
    if let Some(g) = p.bucket {
        s.push_str(&format!(" PER {}", g.word()));
    }
    if let Some(gb) = &p.group_by {
        s.push_str(&format!(" BY {}", gb.iter().map(|f| field_name(*f)).collect::<Vec<_>>().join(", ")));
    }
    s.push_str(&format!(" USING {}", field_name(p.tf)));
    if let Some(l) = p.limit {
        s.push_str(&format!(" LIMIT {l}"));
    }
    if let Some(o) = p.offset {
        s.push_str(&format!(" OFFSET {o}"));
    }
    s
}

/// `compare_scalar_values` of the aggregate merger (private there): numeric when both values
/// read as u64 (a numeric-looking group string does), else `ScalarValue::compare`.
fn merger_cmp(a: &ScalarValue, b: &ScalarValue) -> std::cmp::Ordering {
    if let (Some(x), Some(y)) = (a.as_u64(), b.as_u64()) {
        return x.cmp(&y);
    }
    a.compare(b)
}

/// What `emit_merged_groups` reports of the merged table for LIMIT / OFFSET without ORDER BY:
/// rows sorted by (bucket, group values) with the merger's comparison, OFFSET dropped, LIMIT kept.
/// Restated (the function is pub(crate)); only used to decide *which* groups the oracle looks at.
pub fn reported(p: &PlanSpec, t: &Table) -> Table {
    if p.limit.is_none() && p.offset.is_none() {
        return t.clone();
    }
    let mut keys: Vec<&(Option<u64>, Vec<String>)> = t.keys().collect();
    keys.sort_by(|a, b| {
        if p.bucket.is_some() {
            let sa = a.0.map(|x| ScalarValue::Int64(x as i64)).unwrap_or(ScalarValue::Null);
            let sb = b.0.map(|x| ScalarValue::Int64(x as i64)).unwrap_or(ScalarValue::Null);
            let c = merger_cmp(&sa, &sb);
            if c != std::cmp::Ordering::Equal {
                return c;
            }
        }
        for (x, y) in a.1.iter().zip(b.1.iter()) {
            let c = merger_cmp(&ScalarValue::Utf8(x.clone()), &ScalarValue::Utf8(y.clone()));
            if c != std::cmp::Ordering::Equal {
                return c;
            }
        }
        std::cmp::Ordering::Equal
    });
    let off = p.offset.unwrap_or(0) as usize;
    let it = keys.into_iter().skip(off);
    let kept: Vec<_> = match p.limit {
        Some(l) => it.take(l as usize).collect(),
        None => it.collect(),
    };
    kept.into_iter().map(|k| (k.clone(), t[k].clone())).collect()
}

pub struct Env {
    pub registry: Arc<RwLock<SchemaRegistry>>,
    pub base: std::path::PathBuf,
}

impl Env {
    pub fn new(root: &Path) -> Env {
        let reg = SchemaRegistry::new_with_path(root.join("schemas.bin")).expect("schema registry");
        Env { registry: Arc::new(RwLock::new(reg)), base: root.join("segs") }
    }
}

fn input_schema(width: usize) -> Arc<BatchSchema> {
    // width 0 is not generated (BatchSchema needs ≥ 1 column)
    let cols: Vec<ColumnSpec> = (0..width)
        .map(|j| ColumnSpec { name: field_name(j), logical_type: "String".into() })
        .collect();
    Arc::new(BatchSchema::new(cols).expect("schema"))
}

/// One flow: the batches go through a real `AggregateOp`; returns the partial batches it emits.
async fn run_flow(
    plan: Arc<QueryPlan>,
    agg: AggregatePlan,
    width: usize,
    batches: &[Vec<Vec<Sc>>],
) -> Result<Vec<Arc<ColumnBatch>>, String> {
    let schema = input_schema(width);
    let bsize = 64usize;
    let pool = BatchPool::new(bsize).map_err(|e| e.to_string())?;
    let metrics = FlowMetrics::new();
    let ctx = Arc::new(FlowContext::new(bsize, pool.clone(), Arc::clone(&metrics), None::<&str>, FlowTelemetry::default()));
    let (in_tx, in_rx) = FlowChannel::bounded(batches.len() + 2, Arc::clone(&metrics));
    let (out_tx, mut out_rx) = FlowChannel::bounded(4, Arc::clone(&metrics));
    for b in batches {
        let mut builder = pool.acquire(Arc::clone(&schema));
        for r in b {
            let row: Vec<ScalarValue> = r.iter().map(|c| c.to_scalar()).collect();
            builder.push_row(&row).map_err(|e| e.to_string())?;
        }
        let batch = builder.finish().map_err(|e| e.to_string())?;
        in_tx.send(Arc::new(batch)).await.map_err(|_| "send".to_string())?;
    }
    drop(in_tx);
    let op = AggregateOp::new(AggregateOpConfig { plan, aggregate: agg });
    let h = tokio::spawn(async move { op.run(in_rx, out_tx, ctx).await });
    let mut out = vec![];
    while let Some(b) = out_rx.recv().await {
        out.push(b);
    }
    match h.await {
        Ok(Ok(())) => Ok(out),
        Ok(Err(e)) => Err(format!("op: {e}")),
        Err(e) => Err(format!("join: {e}")),
    }
}

fn scalar_out(v: &ScalarValue) -> OutV {
    match v {
        ScalarValue::Int64(i) => OutV::Int(*i),
        ScalarValue::Utf8(s) => OutV::Str(s.clone()),
        ScalarValue::Float64(f) => OutV::Avg(f.to_bits()),
        ScalarValue::Null => OutV::Null,
        other => OutV::Str(format!("?{other:?}")),
    }
}

/// The whole pipeline on the real code. The loop over partial rows, the `retain` of
/// `emit_merged_groups` and the canonical sort are re-stated here (those functions are
/// `pub(crate)`); everything else is the crate's own code.
pub async fn run_real(env: &Env, p: &PlanSpec, flows: &Flows) -> Result<Table, String> {
    let cmd = build_command(p);
    // the same query as text through the real parser must give the same aggregate plan
    match snel_db::command::parser::parse_command(&query_text(p)) {
        Ok(parsed) => {
            if AggregatePlan::from_command(&parsed) != AggregatePlan::from_command(&cmd) || parsed != cmd {
                return Err(format!("parser: plan of {:?} differs", query_text(p)));
            }
        }
        Err(e) => return Err(format!("parser: {:?} rejected: {e:?}", query_text(p))),
    }
    let segs = Arc::new(std::sync::RwLock::new(Vec::<String>::new()));
    let plan = QueryPlan::new(cmd.clone(), &env.registry, &env.base, &segs, None)
        .await
        .ok_or("no plan")?;
    let agg = plan.aggregate_plan.clone().ok_or("no aggregate plan")?;
    let plan = Arc::new(plan);
    let out_schema = BatchSchema::new(aggregate_output_schema(&agg)).map_err(|e| e.to_string())?;
    let names: Vec<String> = out_schema.columns().iter().map(|c| c.name.clone()).collect();
    let mut merged: HashMap<GroupKey, Vec<AggState>> = HashMap::new();
    for fl in flows {
        let parts = run_flow(Arc::clone(&plan), agg.clone(), p.width, fl).await?;
        for b in parts {
            let cols: Vec<Vec<ScalarValue>> =
                (0..names.len()).map(|i| b.column(i).map_err(|e| e.to_string())).collect::<Result<_, _>>()?;
            let views: Vec<&[ScalarValue]> = cols.iter().map(|v| v.as_slice()).collect();
            for row in 0..b.len() {
                let (k, states) = AggregateStreamMerger::parse_aggregate_row(&views, &names, row, &agg)?;
                match merged.entry(k) {
                    std::collections::hash_map::Entry::Vacant(e) => {
                        e.insert(states);
                    }
                    std::collections::hash_map::Entry::Occupied(mut e) => {
                        let ex = e.get_mut();
                        if ex.len() == states.len() {
                            for (a, b) in ex.iter_mut().zip(states.iter()) {
                                a.merge(b);
                            }
                        }
                    }
                }
            }
        }
    }
    finalize(&agg, merged)
}

pub fn finalize(agg: &AggregatePlan, mut merged: HashMap<GroupKey, Vec<AggState>>) -> Result<Table, String> {
    if agg.group_by.is_some() {
        merged.retain(|k, _| !k.groups.is_empty() && !k.groups.iter().any(|g| g.is_empty()));
    }
    let mut t = Table::new();
    for (k, states) in merged {
        let mut outs = vec![];
        for (spec, st) in agg.ops.iter().zip(states.iter()) {
            let v = AggregateStreamMerger::agg_state_to_scalar(st, spec)?;
            outs.push(scalar_out(&v));
        }
        let _ = AggregateOpSpec::CountAll;
        t.insert((k.bucket, k.groups.clone()), outs);
    }
    Ok(t)
}
