//! Minimal witnesses of every finding class, run on the real code and compared with the model
//! (stream `witness`); the oracle must flag each with exactly its class.
use crate::cases::{Case, ColTy};
use crate::types::*;

pub struct Witness {
    pub class: &'static str,
    pub plan: PlanSpec,
    pub flows: Flows,
}

fn plan(metrics: Vec<Metric>, group_by: Option<Vec<usize>>, bucket: Option<Gran>, tf: usize, width: usize) -> PlanSpec {
    PlanSpec { metrics, group_by, bucket, tf, width, limit: None, offset: None }
}
fn s(x: &str) -> Sc {
    Sc::Str(x.into())
}

pub fn all() -> Vec<Witness> {
    use Metric::*;
    use Sc::*;
    vec![
        // BY s: the row with a null s is in no reported group
        Witness {
            class: "group-null-or-empty-dropped",
            plan: plan(vec![CountAll], Some(vec![0]), None, 9, 1),
            flows: vec![vec![vec![vec![s("a")], vec![Null]]]],
        },
        // BY s: "7" and "07" are one group "7"
        Witness {
            class: "group-int-like-string-canonicalised",
            plan: plan(vec![CountAll], Some(vec![0]), None, 9, 1),
            flows: vec![vec![vec![vec![s("7")], vec![s("07")]]]],
        },
        // PER HOUR USING f0: two different hours before 1970 are one group with a null bucket
        Witness {
            class: "bucket-negative-collapsed",
            plan: plan(vec![CountAll], None, Some(Gran::Hour), 0, 1),
            flows: vec![vec![vec![vec![Int(-1)], vec![Int(-7200)]]]],
        },
        // PER DAY USING f0: a row without a time value is counted in the 1970-01-01 bucket
        Witness {
            class: "bucket-no-time-as-epoch",
            plan: plan(vec![CountAll], None, Some(Gran::Day), 0, 1),
            flows: vec![vec![vec![vec![Int(5)], vec![Null]]]],
        },
        // COUNT f0: float 1.5 and a null in one batch → 2
        Witness {
            class: "count-field-null-in-string-column",
            plan: plan(vec![CountField(0)], None, None, 9, 1),
            flows: vec![vec![vec![vec![Float(1.5)], vec![Null]]]],
        },
        // COUNT UNIQUE f0 over the integers 1, 2, 3 → 1
        Witness {
            class: "count-unique-typed-int-column",
            plan: plan(vec![CountUnique(0)], None, None, 9, 1),
            flows: vec![vec![vec![vec![Int(1)], vec![Int(2)], vec![Int(3)]]]],
        },
        // TOTAL f0 over 1.5 and 2.0 → 2; AVG → 2.0
        Witness {
            class: "total-avg-nonint-ignored",
            plan: plan(vec![Total(0), Avg(0)], None, None, 9, 1),
            flows: vec![vec![vec![vec![Float(1.5)], vec![Float(2.0)]]]],
        },
        // TOTAL f0 over i64::MAX and 1 → i64::MIN
        Witness {
            class: "total-avg-i64-wrap",
            plan: plan(vec![Total(0)], None, None, 9, 1),
            flows: vec![vec![vec![vec![Int(i64::MAX)], vec![Int(1)]]]],
        },
        // MIN f0 over 10.5 and 9.5 → "10.5" (string order)
        Witness {
            class: "minmax-float-as-string",
            plan: plan(vec![Min(0)], None, None, 9, 1),
            flows: vec![vec![vec![vec![Float(10.5)], vec![Float(9.5)]]]],
        },
        // MAX f0 over "abc" and "12" → 12 (integer readings win over strings)
        Witness {
            class: "minmax-int-like-string",
            plan: plan(vec![Max(0)], None, None, 9, 1),
            flows: vec![vec![vec![vec![s("abc")], vec![s("12")]]]],
        },
        // MIN f0 over "abc" and a null in one batch → ""
        Witness {
            class: "minmax-null-as-empty",
            plan: plan(vec![Min(0)], None, None, 9, 1),
            flows: vec![vec![vec![vec![s("abc")], vec![Null]]]],
        },
        // … and the same two rows in two batches of one flow → "abc": the split decides
        Witness {
            class: "",
            plan: plan(vec![Min(0)], None, None, 9, 1),
            flows: vec![vec![vec![vec![s("abc")]], vec![vec![Null]]]],
        },
        // … in two flows → "" again
        Witness {
            class: "minmax-null-as-empty",
            plan: plan(vec![Min(0)], None, None, 9, 1),
            flows: vec![vec![vec![vec![s("abc")]]], vec![vec![vec![Null]]]],
        },
        // REGRESSION of C09-columnar-split (fixed by 829ebe3): COUNT, TOTAL f0 without grouping on a
        // nullable float field: batch 1 is all null (typed ⇒ columnar path), batch 2 holds a float
        // (row path); the two sink groups must be merged: count 3, total 2
        Witness {
            class: "",
            plan: plan(vec![CountAll, Total(0)], None, None, 9, 1),
            flows: vec![vec![vec![vec![Null], vec![Null]], vec![vec![Float(2.0)]]]],
        },
        // same, three batches alternating the path, and AVG
        Witness {
            class: "",
            plan: plan(vec![CountAll, Avg(0)], None, None, 9, 1),
            flows: vec![vec![vec![vec![Null]], vec![vec![Float(6.0)]], vec![vec![Null], vec![Null]]]],
        },
    ]
}

pub fn as_case(w: &Witness) -> Case {
    let rows: Vec<Vec<Sc>> = w.flows.iter().flatten().flatten().cloned().collect();
    Case { plan: w.plan.clone(), tys: vec![ColTy::Mixed; w.plan.width], rows, clean: false }
}
