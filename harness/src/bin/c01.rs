//! C01: crash/restart histories (same machinery as c03.rs, plus X = kill -9 + restart and D = clean stop + restart).
//! C03: reads at every stage of a flush. Histories of STORE / ADV / RUN / FLUSH / READ on one
//! shard with the flush worker stepped through its hook points; every read is compared with
//! the shard-machine model (exact) and with the property oracle (each applied event exactly
//! once in the selection; COUNT = number of applied events).
use snel_harness::out::{parse_args, Stream};
use snel_harness::rng::Rng;
use snel_harness::sys::{self, SysCfg};
use snel_harness::sysops::{history_line, Exec, Op};

fn gen_history(r: &mut Rng, cfg: &SysCfg, ntypes: u64, len: usize, crashes: bool) -> Vec<Op> {
    let mut ops = vec![];
    let mut k = 0u64;
    let nctx = 1 + r.below(3);
    for _ in 0..len {
        let x = r.below(100);
        let op = if x < 50 {
            k += 1;
            Op::S { k, ctx: r.below(nctx), ty: r.below(ntypes) }
        } else if x < 72 {
            Op::Adv
        } else if x < 90 {
            Op::R
        } else if x < 94 {
            Op::Run
        } else if x < 97 {
            Op::F
        } else if crashes {
            match r.below(8) {
                0 | 1 => Op::D,
                2 | 3 => Op::Xm,
                _ => Op::X,
            }
        } else {
            Op::Ls
        };
        ops.push(op);
    }
    let _ = cfg;
    ops.push(Op::R);
    ops.push(Op::Run);
    ops.push(Op::R);
    ops.push(Op::Ls);
    ops
}

/// Histories around a kill INSIDE a segment write (`XM`): 0-2 completed segments, a rotation
/// (possibly with more stores queued behind it), the kill, then further stores, flush-worker
/// steps, reads and plain kills.
fn gen_mid_history(r: &mut Rng, cfg: &SysCfg, ntypes: u64) -> Vec<Op> {
    let cap = cfg.capacity() as u64;
    let mut ops = vec![];
    let mut k = 0u64;
    let nctx = 1 + r.below(3);
    let mut store = |ops: &mut Vec<Op>, n: u64, r: &mut Rng| {
        for _ in 0..n {
            k += 1;
            ops.push(Op::S { k, ctx: r.below(nctx), ty: r.below(ntypes) });
        }
    };
    let pre = if r.below(6) == 0 { 0 } else { 1 + r.below(2) };
    for _ in 0..pre {
        store(&mut ops, cap, r);
        ops.push(Op::Run);
    }
    store(&mut ops, cap + r.below(cap + 1), r);
    ops.push(Op::Xm);
    ops.push(Op::R);
    ops.push(Op::Ls);
    for _ in 0..(1 + r.below(3)) {
        store(&mut ops, 1 + r.below(2 * cap), r);
        match r.below(4) {
            0 => ops.push(Op::Run),
            1 => ops.push(Op::Adv),
            2 => ops.push(Op::Xm),
            _ => {}
        }
        ops.push(Op::R);
        if r.below(2) == 0 {
            ops.push(Op::X);
            ops.push(Op::R);
        }
    }
    ops.push(Op::Run);
    ops.push(Op::R);
    ops.push(Op::Ls);
    ops
}

fn witnesses() -> Vec<(SysCfg, u64, Vec<Op>)> {
    let c4 = SysCfg { event_per_zone: 2, fill_factor: 2, ..Default::default() };
    let c2 = SysCfg { event_per_zone: 1, fill_factor: 2, ..Default::default() };
    let s = |k: u64| Op::S { k, ctx: 0, ty: 0 };
    vec![
        // C01-wal-segment-id-skew: manual FLUSH advances the segment id but not the WAL id; its
        // cleanup unlinks the open WAL file; the next acknowledged STORE is lost by a crash
        (c4.clone(), 1, vec![s(1), s(2), s(3), Op::F, s(4), Op::R, Op::X, Op::R, Op::Ls]),
        // the same through a clean restart: D, then a full buffer, then a store, then a crash
        (c2.clone(), 1, vec![s(1), Op::D, s(2), s(3), Op::Run, s(4), Op::R, Op::X, Op::R, Op::Ls]),
        // kill inside the second segment write (index file exists): the incomplete directory is not
        // served, the WAL replays its events
        (c2.clone(), 1, vec![s(1), s(2), Op::Run, s(3), s(4), s(5), Op::Xm, Op::R, Op::Ls, s(6), Op::Run, Op::R, Op::X, Op::R, Op::Ls]),
        // kill inside the first segment write ever (no index file yet)
        (c2.clone(), 1, vec![s(1), s(2), Op::Xm, Op::R, Op::Ls]),
        // C01-wal-replay-duplicates: crash after publication, before WAL cleanup
        (c2.clone(), 1, vec![s(1), s(2), Op::Adv, Op::Adv, Op::Adv, Op::X, Op::R, Op::Ls]),
        // the skew again, through a FAILED flush: job 0 cannot create its directory and keeps its rows
        // in the retained passive buffer; the cleanup of job 1 (`cleanup_up_to(1 + 1)`) deletes the
        // log that holds them; a crash then loses two acknowledged events
        (c2.clone(), 1, vec![s(1), s(2), Op::Ff, s(3), s(4), Op::Run, Op::R, Op::Ls, Op::X, Op::R, Op::Ls]),
    ]
}

fn main() {
    sys::maybe_child();
    let a = parse_args();
    if a.stream == "walbuf" {
        walbuf_stream(&a);
        return;
    }
    if a.stream == "crashshards" {
        crashshards_stream(&a);
        return;
    }
    if a.stream == "walstop" {
        walstop_stream(&a);
        return;
    }
    let crashes = match a.stream.as_str() {
        "crash" | "crashmid" => true,
        other => {
            eprintln!("unknown stream {other}");
            std::process::exit(2);
        }
    };
    let mut st = Stream::create(&a.out, &a.stream);
    let wits = if a.stream == "crashmid" { vec![] } else { witnesses() };
    let nw = wits.len() as u64;
    for i in 0..(a.cases + nw) {
        if a.only.is_some_and(|o| o != i) {
            continue;
        }
        let (cfg, ntypes, ops) = if i < nw {
            st.tally("witness_histories");
            wits[i as usize].clone()
        } else {
            let mut r = Rng::for_case(a.seed, &a.stream, i - nw);
            let cfg = SysCfg {
                event_per_zone: 1 + r.below(3) as usize,
                fill_factor: 1 + r.below(3) as usize,
                ..Default::default()
            };
            let ntypes = if r.chance(7, 10) { 1 } else { 2 };
            let len = 8 + r.below(30) as usize;
            let ops = if a.stream == "crashmid" { gen_mid_history(&mut r, &cfg, ntypes) } else { gen_history(&mut r, &cfg, ntypes, len, crashes) };
            (cfg, ntypes, ops)
        };
        let root = a.out.join(format!("{}-{i}", a.stream));
        let _ = std::fs::remove_dir_all(&root);
        let mut ex = Exec::start(&root, &cfg, ntypes);
        let mut obs = vec![];
        let mut applied: Vec<u64> = vec![];
        let mut stage_seen = std::collections::BTreeSet::new();
        let mut fail: Option<String> = None;
        let mut restarts = 0u32;
        let mut _skew_ops = 0u32;
        for (n, op) in ops.iter().enumerate() {
            if let Op::S { k, .. } = op {
                applied.push(*k);
            }
            if matches!(op, Op::X | Op::D | Op::Xm) { restarts += 1; }
            if matches!(op, Op::F | Op::D) { _skew_ops += 1; }
            if let Some(mut line) = ex.exec(op) {
                let racy = *op == Op::R && ex.last_read_racy;
                if racy { line = ex.last_real_read.clone(); }
                if *op == Op::R && ex.poisoned {
                    // not compared with the model; judged by the oracle under its own class
                    st.tally("poisoned_reads");
                    let real = ex.last_real_read.clone();
                    let want_keys = if applied.is_empty() { "-".to_string() } else { applied.iter().map(|k| k.to_string()).collect::<Vec<_>>().join(",") };
                    let gk = real.split(' ').next().unwrap().trim_start_matches("keys=").to_string();
                    let gc: usize = real.split("count=").nth(1).and_then(|x| x.parse().ok()).unwrap_or(0);
                    if fail.is_none() && !ex.last_read_racy && !ex.flush_window() && (gk != want_keys || (ntypes == 1 && gc != applied.len())) {
                        fail = Some(format!("kill-in-first-segment-write\top#{n}: want keys [{want_keys}] count {} got [{real}] in {}", applied.len(), history_line(&cfg, ntypes, &ops)));
                    }
                    line = "poisoned".to_string();
                } else if racy {
                    st.tally("racy_reads");
                    line = "racy".to_string();
                } else if *op == Op::R && restarts > 0 {
                    // oracle (after at least one restart): every applied event exactly once
                    st.tally("reads_after_restart");
                    let want_keys = if applied.is_empty() { "-".to_string() } else { applied.iter().map(|k| k.to_string()).collect::<Vec<_>>().join(",") };
                    let gk = line.split(' ').next().unwrap().trim_start_matches("keys=").to_string();
                    let gc: usize = line.split("count=").nth(1).unwrap().parse().unwrap();
                    let in_window = ex.flush_window();
                    if fail.is_none() {
                        if gk != want_keys {
                            let got: std::collections::BTreeSet<&str> = gk.split(',').collect();
                            let lost = applied.iter().any(|k| !got.contains(k.to_string().as_str()));
                            // class: every lost key was written to an unlinked WAL file (observed on the
                            // real engine when it was stored)
                            let lost_keys: Vec<u64> = applied.iter().copied().filter(|k| !got.contains(k.to_string().as_str())).collect();
                            let all_orphaned = lost_keys.iter().all(|k| ex.orphaned.contains(k));
                            let class = if lost && all_orphaned { "wal-segment-id-skew-loses-acknowledged" } else { "-" };
                            fail = Some(format!("{class}\top#{n}: want keys [{want_keys}] got [{line}] in {}", history_line(&cfg, ntypes, &ops)));
                        } else if ntypes == 1 && gc != applied.len() && !in_window {
                            let class = if gc > applied.len() { "wal-replay-duplicates-flushed-events" } else { "-" };
                            fail = Some(format!("{class}\top#{n}: want count {} got [{line}] in {}", applied.len(), history_line(&cfg, ntypes, &ops)));
                        }
                    }
                }
                obs.push(line);
            }
            if *op == Op::Adv { stage_seen.insert("adv"); }
        }
        drop(ex);
        let _ = std::fs::remove_dir_all(&root);
        st.tally(&format!("cap={}", cfg.capacity()));
        st.tally_n("ops", ops.len() as u64);
        st.tally_n("stores", applied.len() as u64);
        st.tally_n("reads", ops.iter().filter(|o| **o == Op::R).count() as u64);
        st.tally_n("adv", ops.iter().filter(|o| **o == Op::Adv).count() as u64);
        st.case(&history_line(&cfg, ntypes, &ops), &obs.join(" ; "), applied.len() >= cfg.capacity());
        match fail {
            None => st.oracle_ok(),
            Some(f) => {
                let (class, detail) = f.split_once('\t').unwrap();
                st.oracle_fail(i, class, detail)
            }
        }
    }
    st.finish();
}


/// The WAL file at byte level. Buffered and unbuffered writers, with and without
/// `flush_each_write`, buffer capacities placed around multiples of the entry length so that
/// buffer boundaries fall inside entries, exactly at their end, and between the JSON text and its
/// newline. Several lifetimes, each ended by SIGKILL once the WAL task has taken every entry; the
/// flush threshold is never reached, so everything lives in `wal-00000.log`.
///
/// Compared with the model: the line lengths the file holds at every kill. Oracle (the buffered
/// clause of the property): what a restart serves is, per lifetime, a prefix of that lifetime's
/// acknowledged events (all of them with `flush_each_write`), and an event that survived one
/// restart survives the next.
fn walbuf_stream(a: &snel_harness::out::Args) {
    use serde_json::json;
    use snel_harness::sys::Session;
    let mut st = Stream::create(&a.out, "walbuf");
    for i in 0..a.cases {
        if a.only.is_some_and(|o| o != i) {
            continue;
        }
        let mut r = Rng::for_case(a.seed, "walbuf", i);
        // the length of an entry's JSON for a one-digit key and context "c0"
        const L: usize = 109;
        let buffered = r.below(5) != 0;
        let fe = r.below(4) == 0;
        let bufsz: usize = if !buffered {
            100 * 1024
        } else {
            let m = 1 + r.below(3) as usize;
            match r.below(8) {
                0 => m * (L + 1),          // boundary exactly after a newline
                1 => m * (L + 1) - 1,      // boundary between JSON and newline
                2 => m * (L + 1) + 1,
                3 => m * (L + 1) - 2,
                4 => L,                    // one JSON, newline does not fit
                5 => 1 + r.below(40) as usize,   // smaller than any entry: written through
                6 => 100 + r.below(300) as usize,
                _ => 64 + r.below(1000) as usize,
            }
        };
        let cfg = SysCfg {
            event_per_zone: 50,
            fill_factor: 2,
            wal_buffered: buffered,
            wal_flush_each_write: fe,
            wal_buffer_size: bufsz.to_string(),
            ..Default::default()
        };
        let root = a.out.join(format!("walbuf-{i}"));
        let _ = std::fs::remove_dir_all(&root);
        let mut s = Session::start(&root, &cfg);
        assert!(s.cmd("DEFINE ev0 FIELDS { k: \"int\" }").map(|x| x.ok()).unwrap_or(false));
        let lifetimes = 2 + r.below(3);
        let mut toks: Vec<String> = vec![];
        let mut obs: Vec<String> = vec![];
        let mut k = 0u64;
        let mut lives: Vec<Vec<u64>> = vec![]; // keys acknowledged per lifetime
        let mut served: Vec<Vec<u64>> = vec![]; // keys served after each restart
        let mut fail: Option<String> = None;
        let read_keys = |s: &mut Session| -> Vec<u64> {
            let q = s.cmd("QUERY ev0 RETURN [k]").expect("query");
            let mut keys: Vec<u64> = q.col("k").iter().filter_map(|v| v.as_u64()).collect();
            keys.sort();
            keys
        };
        for _life in 0..lifetimes {
            let n = r.below(7);
            let mut mine = vec![];
            for _ in 0..n {
                k += 1;
                // contexts of different lengths vary the entry length
                let ctx = format!("c{}", "0".repeat(1 + r.below(3) as usize));
                assert!(s.cmd(&format!("STORE ev0 FOR {ctx} PAYLOAD {{\"k\":{k}}}")).map(|x| x.ok()).unwrap_or(false));
                mine.push(k);
                // the entry exactly as the WAL task serialises it
                let q = s.cmd(&format!("QUERY ev0 WHERE k = {k}")).expect("query");
                let ts = q.col("timestamp").first().and_then(|v| v.as_u64()).expect("timestamp");
                let id = q.col("event_id").first().and_then(|v| v.as_u64()).expect("event id");
                let json = format!("{{\"timestamp\":{ts},\"context_id\":\"{ctx}\",\"event_type\":\"ev0\",\"payload\":{{\"k\":{k}}},\"event_id\":{id}}}");
                toks.push(format!("A {}", json.len()));
            }
            // every entry has been handed to the writer
            let t0 = std::time::Instant::now();
            loop {
                let h = s.ctl(json!({"ctl": "hits", "point": "wal.appended"})).and_then(|v| v["hits"].as_u64()).unwrap_or(0);
                if h >= n || t0.elapsed().as_secs() > 20 {
                    break;
                }
                std::thread::sleep(std::time::Duration::from_millis(2));
            }
            s.kill();
            toks.push("K".into());
            let bytes = std::fs::read(s.shard_wal_dir(0).join("wal-00000.log")).unwrap_or_default();
            let mut lens: Vec<usize> = bytes.split(|b| *b == b'\n').map(|l| l.len()).collect();
            if lens.last() == Some(&0) {
                lens.pop(); // `lines()` does not report an empty piece after the last newline
            }
            obs.push(if lens.is_empty() { "-".to_string() } else { lens.iter().map(|x| x.to_string()).collect::<Vec<_>>().join(",") });
            lives.push(mine);
            s = Session::start(&root, &cfg);
            let got = read_keys(&mut s);
            // oracle
            let mut want_max: Vec<u64> = vec![];
            for (j, life) in lives.iter().enumerate() {
                let surv: Vec<u64> = life.iter().copied().filter(|x| got.contains(x)).collect();
                if surv != life[..surv.len()].to_vec() {
                    fail.get_or_insert(format!("after restart {} the events of lifetime {j} served are {surv:?}, not a prefix of {life:?}", lives.len()));
                }
                if fe && surv.len() != life.len() {
                    fail.get_or_insert(format!("flush_each_write: lifetime {j} stored {life:?}, served {surv:?} after restart {}", lives.len()));
                }
                want_max.extend(life.iter());
            }
            if got.iter().any(|x| !want_max.contains(x)) || got.windows(2).any(|w| w[0] == w[1]) {
                fail.get_or_insert(format!("restart {} serves {got:?}: unknown or repeated keys", lives.len()));
            }
            if let Some(prev) = served.last() {
                if prev.iter().any(|x| !got.contains(x)) {
                    fail.get_or_insert(format!("served after restart {}: {prev:?}; after restart {}: {got:?} - an event that had survived is gone", lives.len() - 1, lives.len()));
                }
            }
            served.push(got);
        }
        drop(s);
        let _ = std::fs::remove_dir_all(&root);
        let op = format!("walbuf cap={} fe={} | {}", if buffered { bufsz } else { 0 }, if fe { 1 } else { 0 }, toks.join(" | "));
        st.tally(if !buffered { "unbuffered" } else if bufsz < L { "cap_below_entry" } else { "cap_holds_entries" });
        st.tally(if fe { "flush_each_write" } else { "no_flush_each_write" });
        let lost: usize = lives.iter().map(|l| l.len()).sum::<usize>() - served.last().map(|s| s.len()).unwrap_or(0);
        st.tally_n("entries_lost_in_buffer", lost as u64);
        st.tally_n("entries", k);
        st.case(&op, &obs.join(" ; "), k > 0);
        match fail {
            None => st.oracle_ok(),
            Some(d) => st.oracle_fail(i, "-", &format!("{d}; {op}")),
        }
    }
    st.finish();
}


/// Oracle-only: several shards, free-running flushes (nothing parked), one process lifetime per
/// round, SIGKILL at an arbitrary moment once the WAL tasks have taken every entry, restart.
/// In a lifetime without manual FLUSH the WAL log ids and the level-0 segment ids of a shard
/// advance together (`C01_durable_partial`), so every acknowledged event must be served after the
/// restart — whatever the flush workers of the shards were doing when the kill came.
fn crashshards_stream(a: &snel_harness::out::Args) {
    use serde_json::json;
    use snel_harness::sys::Session;
    let mut st = Stream::create(&a.out, "crashshards");
    for i in 0..a.cases {
        if a.only.is_some_and(|o| o != i) {
            continue;
        }
        let mut r = Rng::for_case(a.seed, "crashshards", i);
        let shards = 2 + r.below(3) as usize;
        let cfg = SysCfg { shards, event_per_zone: 1 + r.below(3) as usize, fill_factor: 1 + r.below(3) as usize, ..Default::default() };
        let root = a.out.join(format!("crashshards-{i}"));
        let _ = std::fs::remove_dir_all(&root);
        let mut s = Session::start(&root, &cfg);
        assert!(s.cmd("DEFINE ev0 FIELDS { k: \"int\" }").map(|x| x.ok()).unwrap_or(false));
        let nctx = 2 + r.below(6);
        let n = 5 + r.below(40);
        for k in 1..=n {
            assert!(s.cmd(&format!("STORE ev0 FOR c{} PAYLOAD {{\"k\":{k}}}", r.below(nctx))).map(|x| x.ok()).unwrap_or(false));
            if r.below(12) == 0 {
                std::thread::sleep(std::time::Duration::from_millis(r.below(30)));
            }
        }
        // every entry has been handed to a WAL writer (flush_each_write: it is in the file)
        let t0 = std::time::Instant::now();
        loop {
            let h = s.ctl(json!({"ctl": "hits", "point": "wal.appended"})).and_then(|v| v["hits"].as_u64()).unwrap_or(0);
            if h >= n || t0.elapsed().as_secs() > 20 {
                break;
            }
            std::thread::sleep(std::time::Duration::from_millis(1));
        }
        std::thread::sleep(std::time::Duration::from_micros(r.below(40_000)));
        s.kill();
        // state of the disk at the kill: a shard with a segment directory but no index file is the
        // known corner (finding C01-kill-in-first-segment-write)
        let mut first_write = false;
        let mut dirs_total = 0;
        for sh in 0..shards {
            let d = s.shard_data_dir(sh);
            let has_dir = std::fs::read_dir(&d).map(|rd| rd.flatten().any(|e| e.file_name().to_string_lossy().chars().all(|c| c.is_ascii_digit()) && e.path().is_dir())).unwrap_or(false);
            dirs_total += std::fs::read_dir(&d).map(|rd| rd.flatten().filter(|e| e.path().is_dir() && e.file_name().to_string_lossy().chars().all(|c| c.is_ascii_digit())).count()).unwrap_or(0);
            if has_dir && !d.join("segments.idx").exists() {
                first_write = true;
            }
        }
        let mut s = Session::start(&root, &cfg);
        let q = s.cmd("QUERY ev0 RETURN [k]").expect("query");
        let mut keys: Vec<u64> = q.col("k").iter().filter_map(|v| v.as_u64()).collect();
        keys.sort();
        let c = s.cmd("QUERY ev0 COUNT").expect("count");
        let count = c.rows.first().and_then(|r| r.first()).and_then(|v| v.as_u64()).unwrap_or(0);
        drop(s);
        let _ = std::fs::remove_dir_all(&root);
        let want: Vec<u64> = (1..=n).collect();
        let desc = format!("crashshards shards={shards} cap={} stores={n} dirs_at_kill={dirs_total}", cfg.capacity());
        st.tally(&format!("shards={shards}"));
        st.tally_n("segment_dirs_at_kill", dirs_total as u64);
        st.tally(if first_write { "kill_with_dir_without_index" } else { "kill_other" });
        st.case(&desc, "-", dirs_total > 0);
        if keys != want {
            let class = if first_write { "kill-in-first-segment-write" } else { "-" };
            st.oracle_fail(i, class, &format!("after the restart the selection is {keys:?}, acknowledged 1..={n}; {desc}"));
        } else if count != n {
            let class = if first_write { "kill-in-first-segment-write" } else if count > n { "wal-replay-duplicates-flushed-events" } else { "-" };
            st.oracle_fail(i, class, &format!("after the restart COUNT is {count}, acknowledged {n}; {desc}"));
        } else {
            st.oracle_ok();
        }
    }
    st.finish();
}


/// Oracle-only: the clean-shutdown clause under every WAL buffering. 1-3 shards, buffered or
/// unbuffered writer with or without `flush_each_write`, several lifetimes each ended by a graceful
/// stop (`flush_all`, WAL writers stopped): after every restart every acknowledged event of every
/// lifetime is served (`C01_clean_shutdown`, `C01_wal_clean_stop_keeps_all`).
fn walstop_stream(a: &snel_harness::out::Args) {
    use snel_harness::sys::Session;
    let mut st = Stream::create(&a.out, "walstop");
    for i in 0..a.cases {
        if a.only.is_some_and(|o| o != i) {
            continue;
        }
        let mut r = Rng::for_case(a.seed, "walstop", i);
        let shards = 1 + r.below(3) as usize;
        let buffered = r.below(4) != 0;
        let fe = r.below(3) == 0;
        let bufsz = match r.below(4) { 0 => 64, 1 => 110, 2 => 333, _ => 100 * 1024 };
        let cfg = SysCfg {
            shards,
            event_per_zone: 1 + r.below(3) as usize,
            fill_factor: 1 + r.below(3) as usize,
            wal_buffered: buffered,
            wal_flush_each_write: fe,
            wal_buffer_size: bufsz.to_string(),
            ..Default::default()
        };
        let root = a.out.join(format!("walstop-{i}"));
        let _ = std::fs::remove_dir_all(&root);
        let mut s = Session::start(&root, &cfg);
        let ntypes = 1 + r.below(2);
        for t in 0..ntypes {
            assert!(s.cmd(&format!("DEFINE ev{t} FIELDS {{ k: \"int\" }}")).map(|x| x.ok()).unwrap_or(false));
        }
        let mut k = 0u64;
        let mut placed: Vec<(u64, u64)> = vec![]; // (key, type)
        let mut fail: Option<String> = None;
        let lifetimes = 2 + r.below(3);
        let mut desc = format!("walstop shards={shards} cap={} buffered={buffered} fe={fe} bufsz={bufsz} types={ntypes}:", cfg.capacity());
        for life in 0..lifetimes {
            let n = r.below(14);
            for _ in 0..n {
                k += 1;
                let ty = r.below(ntypes);
                assert!(s.cmd(&format!("STORE ev{ty} FOR c{} PAYLOAD {{\"k\":{k}}}", r.below(5))).map(|x| x.ok()).unwrap_or(false));
                placed.push((k, ty));
            }
            desc.push_str(&format!(" S{n} STOP"));
            let ok = s.shutdown();
            if !ok {
                fail.get_or_insert(format!("lifetime {life}: the graceful stop reported errors"));
            }
            s = Session::start(&root, &cfg);
            for t in 0..ntypes {
                let q = s.cmd(&format!("QUERY ev{t} RETURN [k]")).expect("query");
                let mut got: Vec<u64> = q.col("k").iter().filter_map(|v| v.as_u64()).collect();
                got.sort();
                let want: Vec<u64> = placed.iter().filter(|p| p.1 == t).map(|p| p.0).collect();
                if got != want {
                    fail.get_or_insert(format!("after the restart that follows stop {life}: QUERY ev{t} serves {got:?}, acknowledged {want:?}"));
                }
            }
        }
        drop(s);
        let _ = std::fs::remove_dir_all(&root);
        st.tally(&format!("shards={shards}"));
        st.tally(if !buffered { "unbuffered" } else if fe { "buffered_flush_each" } else { "buffered" });
        st.tally_n("stores", k);
        st.case(&desc, "-", k > 0);
        match fail {
            None => st.oracle_ok(),
            Some(d) => st.oracle_fail(i, "-", &format!("{d}; {desc}")),
        }
    }
    st.finish();
}
