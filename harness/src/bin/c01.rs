//! C01: crash/restart histories (same machinery as c03.rs, plus X = kill -9 + restart and D = clean stop + restart).
//! C03: reads at every stage of a flush. Histories of STORE / ADV / RUN / FLUSH / READ on one
//! shard with the flush worker stepped through its hook points; every read is compared with
//! the shard-machine model (exact) and with the property oracle (each applied event exactly
//! once in the selection; COUNT = number of applied events).
use snel_harness::out::{parse_args, Stream};
use snel_harness::rng::Rng;
use snel_harness::sys::{self, SysCfg};
use snel_harness::sysops::{history_line, Exec, Op};

fn gen_history(r: &mut Rng, cfg: &SysCfg, ntypes: u64, len: usize, crashes: bool) -> Vec<Op> {
    let mut ops = vec![];
    let mut k = 0u64;
    let nctx = 1 + r.below(3);
    for _ in 0..len {
        let x = r.below(100);
        let op = if x < 50 {
            k += 1;
            Op::S { k, ctx: r.below(nctx), ty: r.below(ntypes) }
        } else if x < 72 {
            Op::Adv
        } else if x < 90 {
            Op::R
        } else if x < 94 {
            Op::Run
        } else if x < 97 {
            Op::F
        } else if crashes {
            if r.chance(1, 4) { Op::D } else { Op::X }
        } else {
            Op::Ls
        };
        ops.push(op);
    }
    let _ = cfg;
    ops.push(Op::R);
    ops.push(Op::Run);
    ops.push(Op::R);
    ops.push(Op::Ls);
    ops
}

fn witnesses() -> Vec<(SysCfg, u64, Vec<Op>)> {
    let c4 = SysCfg { event_per_zone: 2, fill_factor: 2, ..Default::default() };
    let c2 = SysCfg { event_per_zone: 1, fill_factor: 2, ..Default::default() };
    let s = |k: u64| Op::S { k, ctx: 0, ty: 0 };
    vec![
        // C01-wal-segment-id-skew: manual FLUSH advances the segment id but not the WAL id; its
        // cleanup unlinks the open WAL file; the next acknowledged STORE is lost by a crash
        (c4.clone(), 1, vec![s(1), s(2), s(3), Op::F, s(4), Op::R, Op::X, Op::R, Op::Ls]),
        // the same through a clean restart: D, then a full buffer, then a store, then a crash
        (c2.clone(), 1, vec![s(1), Op::D, s(2), s(3), Op::Run, s(4), Op::R, Op::X, Op::R, Op::Ls]),
        // C01-wal-replay-duplicates: crash after publication, before WAL cleanup
        (c2.clone(), 1, vec![s(1), s(2), Op::Adv, Op::Adv, Op::Adv, Op::X, Op::R, Op::Ls]),
    ]
}

fn main() {
    sys::maybe_child();
    let a = parse_args();
    let crashes = match a.stream.as_str() {
        "crash" => true,
        other => {
            eprintln!("unknown stream {other}");
            std::process::exit(2);
        }
    };
    let mut st = Stream::create(&a.out, &a.stream);
    let wits = witnesses();
    let nw = wits.len() as u64;
    for i in 0..(a.cases + nw) {
        if a.only.is_some_and(|o| o != i) {
            continue;
        }
        let (cfg, ntypes, ops) = if i < nw {
            st.tally("witness_histories");
            wits[i as usize].clone()
        } else {
            let mut r = Rng::for_case(a.seed, &a.stream, i - nw);
            let cfg = SysCfg {
                event_per_zone: 1 + r.below(3) as usize,
                fill_factor: 1 + r.below(3) as usize,
                ..Default::default()
            };
            let ntypes = if r.chance(7, 10) { 1 } else { 2 };
            let len = 8 + r.below(30) as usize;
            let ops = gen_history(&mut r, &cfg, ntypes, len, crashes);
            (cfg, ntypes, ops)
        };
        let root = a.out.join(format!("{}-{i}", a.stream));
        let _ = std::fs::remove_dir_all(&root);
        let mut ex = Exec::start(&root, &cfg, ntypes);
        let mut obs = vec![];
        let mut applied: Vec<u64> = vec![];
        let mut stage_seen = std::collections::BTreeSet::new();
        let mut fail: Option<String> = None;
        let mut restarts = 0u32;
        let mut skew_ops = 0u32;
        for (n, op) in ops.iter().enumerate() {
            if let Op::S { k, .. } = op {
                applied.push(*k);
            }
            if matches!(op, Op::X | Op::D) { restarts += 1; }
            if matches!(op, Op::F | Op::D) { skew_ops += 1; }
            if let Some(mut line) = ex.exec(op) {
                let racy = *op == Op::R && ex.last_read_racy;
                if racy { line = ex.last_real_read.clone(); }
                if racy {
                    st.tally("racy_reads");
                    line = "racy".to_string();
                } else if *op == Op::R && restarts > 0 {
                    // oracle (after at least one restart): every applied event exactly once
                    st.tally("reads_after_restart");
                    let want_keys = if applied.is_empty() { "-".to_string() } else { applied.iter().map(|k| k.to_string()).collect::<Vec<_>>().join(",") };
                    let gk = line.split(' ').next().unwrap().trim_start_matches("keys=").to_string();
                    let gc: usize = line.split("count=").nth(1).unwrap().parse().unwrap();
                    let in_window = ex.flush_window();
                    if fail.is_none() {
                        if gk != want_keys {
                            let got: std::collections::BTreeSet<&str> = gk.split(',').collect();
                            let lost = applied.iter().any(|k| !got.contains(k.to_string().as_str()));
                            // class: every lost key was written to an unlinked WAL file (observed on the
                            // real engine when it was stored)
                            let lost_keys: Vec<u64> = applied.iter().copied().filter(|k| !got.contains(k.to_string().as_str())).collect();
                            let all_orphaned = lost_keys.iter().all(|k| ex.orphaned.contains(k));
                            let class = if lost && all_orphaned { "wal-segment-id-skew-loses-acknowledged" } else { "-" };
                            fail = Some(format!("{class}\top#{n}: want keys [{want_keys}] got [{line}] in {}", history_line(&cfg, ntypes, &ops)));
                        } else if ntypes == 1 && gc != applied.len() && !in_window {
                            let class = if gc > applied.len() { "wal-replay-duplicates-flushed-events" } else { "-" };
                            fail = Some(format!("{class}\top#{n}: want count {} got [{line}] in {}", applied.len(), history_line(&cfg, ntypes, &ops)));
                        }
                    }
                }
                obs.push(line);
            }
            if *op == Op::Adv { stage_seen.insert("adv"); }
        }
        drop(ex);
        let _ = std::fs::remove_dir_all(&root);
        st.tally(&format!("cap={}", cfg.capacity()));
        st.tally_n("ops", ops.len() as u64);
        st.tally_n("stores", applied.len() as u64);
        st.tally_n("reads", ops.iter().filter(|o| **o == Op::R).count() as u64);
        st.tally_n("adv", ops.iter().filter(|o| **o == Op::Adv).count() as u64);
        st.case(&history_line(&cfg, ntypes, &ops), &obs.join(" ; "), applied.len() >= cfg.capacity());
        match fail {
            None => st.oracle_ok(),
            Some(f) => {
                let (class, detail) = f.split_once('\t').unwrap();
                st.oracle_fail(i, class, detail)
            }
        }
    }
    st.finish();
}
