//! Manual probe: `sysprobe <dir> [cfg k=v …] -- cmd1 ;; cmd2 …` prints decoded replies.
use snel_harness::sys::{self, Session, SysCfg};
fn main() {
    sys::maybe_child();
    let args: Vec<String> = std::env::args().skip(1).collect();
    let root = std::path::PathBuf::from(&args[0]);
    let mut cfg = SysCfg::default();
    let mut i = 1;
    while i < args.len() && args[i] != "--" {
        let (k, v) = args[i].split_once('=').unwrap();
        match k {
            "shards" => cfg.shards = v.parse().unwrap(),
            "epz" => cfg.event_per_zone = v.parse().unwrap(),
            "ff" => cfg.fill_factor = v.parse().unwrap(),
            "spm" => cfg.segments_per_merge = v.parse().unwrap(),
            "few" => cfg.wal_flush_each_write = v.parse().unwrap(),
            "buffered" => cfg.wal_buffered = v.parse().unwrap(),
            "bufsz" => cfg.wal_buffer_size = v.to_string(),
            _ => panic!("unknown cfg {k}"),
        }
        i += 1;
    }
    let script = args[i + 1..].join(" ");
    let mut s = Session::start(&root, &cfg);
    for c in script.split(";;") {
        let c = c.trim();
        if c.is_empty() { continue; }
        if let Some(rest) = c.strip_prefix("!") {
            let v: serde_json::Value = serde_json::from_str(rest).unwrap();
            println!("{c} -> {:?}", s.ctl(v));
            continue;
        }
        if c == "RESTART" { s.kill(); s = Session::start(&root, &cfg); println!("restarted"); continue; }
        if c == "SLEEP" { std::thread::sleep(std::time::Duration::from_millis(200)); continue; }
        match s.cmd(c) {
            None => { println!("{c} -> child died"); break; }
            Some(r) => println!("{c} -> [{}] {} cols={:?} rows={:?} count={:?}\n    raw={}", r.status_class(), r.message, r.columns, r.rows, r.row_count, r.raw.replace('\n', "⏎")),
        }
    }
    println!("{:?}", sys::tree(&root).iter().map(|x| x.0.clone()).collect::<Vec<_>>());
}
