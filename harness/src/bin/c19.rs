//! C19 harness: the real `WalCleaner` / `WalArchiver` / `WalArchive` / `WalArchiveRecovery` on
//! generated WAL directories under injected faults, against the Lean model `Snel.WalArchive`.
//!
//! Streams
//! * `clean_cons`  — `wal.conservative_mode = true`  (own process: CONFIG is read once)
//! * `clean_plain` — `wal.conservative_mode = false`
//! * `codec`       — archive byte round trip of arbitrary `ScalarValue`s and archive file names
//! * `clean_wfault` — conservative mode, larger logs (some archives above 8 KiB compressed), and
//!                   most calls run under a file-size limit (`RLIMIT_FSIZE`, `SIGXFSZ` ignored) of 0,
//!                   a few hundred bytes, half an archive, just below an archive's size (only the
//!                   tail fails), between two sizes, or above all: creating / truncating / syncing
//!                   the archive file works, writing its data fails with EFBIG for exactly the
//!                   archives larger than the limit. Sizes come from a fault-free dry run; the ids
//!                   whose write must fail are handed to the model (`Fault.write`), which predicts
//!                   `Err` results, the undecodable leftover file and "nothing deleted".
//! * `witness`     — the fixed witnesses of the `_fails` theorems (cases 0–2, expected to fail the
//!                   oracle with their class) and their positive counterparts (cases 3–5)
//!
//! One case of a `clean_*` stream: an initial archive directory (missing / present / a regular
//! file / a dangling symlink; holding earlier archives, junk, squatting directories, dangling
//! symlinks) and 1–3 steps, each of which adds log files to the shard's WAL directory and runs
//! `WalCleaner::new(shard).cleanup_up_to(bound)` (mostly), `WalArchiver::archive_logs_up_to(bound)`
//! or `WalArchiver::archive_log(id)` (the manual path of `wal_archive_manager archive`). After
//! every step the call's result (Ok / Err counts), both directory listings, `list_archive_info`
//! and `recover_all` are rendered; that line is compared for equality with the model's. Every
//! case uses its own shard number, so its own pair of directories.
//!
//! Oracle (independent of the model, brute force over what was generated): only names below the
//! bound disappear; a fault on an eligible log ⇒ nothing disappears; every deleted log's
//! parseable entries are held by an archive right after the step and are a contiguous block of
//! `recover_all` at the end of the case, as are the entries of archives that existed before;
//! `recover_all` visits log ids in non-decreasing order; non-conservative cleanups leave the
//! archive directory alone; the archiver never deletes. Finding classes: `noncanonical-log-name`,
//! `archive-name-reuse`, `archive-order-wide-id` (predicates at the place they are assigned).
//!
//! The line parser is a parameter of the model: the op line carries, per log line, what
//! `serde_json` (generic `Value`, not `WalEntry`) makes of it; whether `WalEntry`'s own
//! deserialiser agrees on parseability is checked here (`parser-disagrees` otherwise).
use snel_db::engine::core::{
    EventId, WalArchive, WalArchiveBody, WalArchiveHeader, WalArchiveRecovery, WalArchiver, WalCleaner, WalEntry,
};
use snel_db::engine::types::ScalarValue;
use snel_harness::enc::{hex, hexs};
use snel_harness::out::{parse_args, Stream};
use snel_harness::rng::Rng;
use std::collections::{BTreeMap, BTreeSet};
use std::path::{Path, PathBuf};

// ------------------------------------------------------------------ independent spec types

#[derive(Clone, Debug, PartialEq)]
enum JV {
    Null,
    Bool(bool),
    Int(i128),
    Float(u64),
    Str(String),
    Compound(String),
}

#[derive(Clone, Debug, PartialEq)]
enum SV {
    Null,
    Bool(bool),
    Int(i64),
    Float(u64),
    Ts(i64),
    Str(String),
    Bin(Vec<u8>),
}

#[derive(Clone, Debug, PartialEq)]
struct Raw {
    ty: String,
    ctx: String,
    ts: u64,
    eid: u64,
    payload: Vec<(String, JV)>,
}

#[derive(Clone, Debug, PartialEq)]
struct Ent {
    ty: String,
    ctx: String,
    ts: u64,
    eid: u64,
    payload: Vec<(String, SV)>,
}

fn base64(b: &[u8]) -> String {
    const A: &[u8] = b"ABCDEFGHIJKLMNOPQRSTUVWXYZabcdefghijklmnopqrstuvwxyz0123456789+/";
    let mut s = String::new();
    for ch in b.chunks(3) {
        let n = (ch[0] as u32) << 16 | (*ch.get(1).unwrap_or(&0) as u32) << 8 | *ch.get(2).unwrap_or(&0) as u32;
        s.push(A[(n >> 18) as usize] as char);
        s.push(A[(n >> 12 & 63) as usize] as char);
        s.push(if ch.len() > 1 { A[(n >> 6 & 63) as usize] as char } else { '=' });
        s.push(if ch.len() > 2 { A[(n & 63) as usize] as char } else { '=' });
    }
    s
}

/// What the property says a JSON payload value is once it is a `ScalarValue`.
fn of_json(j: &JV) -> SV {
    match j {
        JV::Null => SV::Null,
        JV::Bool(b) => SV::Bool(*b),
        JV::Int(i) => {
            if *i <= i64::MAX as i128 {
                SV::Int(*i as i64)
            } else {
                SV::Str(i.to_string())
            }
        }
        JV::Float(b) => SV::Float(*b),
        JV::Str(s) => SV::Str(s.clone()),
        JV::Compound(t) => SV::Str(t.clone()),
    }
}

/// What an archive hands back for a value it was given (serde data-model round trip).
fn reser(v: &SV) -> SV {
    match v {
        SV::Float(b) => {
            if f64::from_bits(*b).is_finite() {
                SV::Float(*b)
            } else {
                SV::Null
            }
        }
        SV::Ts(i) => SV::Int(*i),
        SV::Bin(b) => SV::Str(base64(b)),
        other => other.clone(),
    }
}

fn ent_of_raw(r: &Raw) -> Ent {
    Ent {
        ty: r.ty.clone(),
        ctx: r.ctx.clone(),
        ts: r.ts,
        eid: r.eid,
        payload: r.payload.iter().map(|(k, v)| (k.clone(), of_json(v))).collect(),
    }
}

fn ent_reser(e: &Ent) -> Ent {
    Ent { payload: e.payload.iter().map(|(k, v)| (k.clone(), reser(v))).collect(), ..e.clone() }
}

fn sv_of_real(v: &ScalarValue) -> SV {
    match v {
        ScalarValue::Null => SV::Null,
        ScalarValue::Boolean(b) => SV::Bool(*b),
        ScalarValue::Int64(i) => SV::Int(*i),
        ScalarValue::Float64(f) => SV::Float(f.to_bits()),
        ScalarValue::Timestamp(t) => SV::Ts(*t),
        ScalarValue::Utf8(s) => SV::Str(s.clone()),
        ScalarValue::Binary(b) => SV::Bin(b.clone()),
    }
}

fn real_of_sv(v: &SV) -> ScalarValue {
    match v {
        SV::Null => ScalarValue::Null,
        SV::Bool(b) => ScalarValue::Boolean(*b),
        SV::Int(i) => ScalarValue::Int64(*i),
        SV::Float(b) => ScalarValue::Float64(f64::from_bits(*b)),
        SV::Ts(t) => ScalarValue::Timestamp(*t),
        SV::Str(s) => ScalarValue::Utf8(s.clone()),
        SV::Bin(b) => ScalarValue::Binary(b.clone()),
    }
}

fn ent_of_real(e: &WalEntry) -> Ent {
    Ent {
        ty: e.event_type.clone(),
        ctx: e.context_id.clone(),
        ts: e.timestamp,
        eid: e.event_id.raw(),
        payload: e.payload.iter().map(|(k, v)| (k.clone(), sv_of_real(v))).collect(),
    }
}

fn real_of_ent(e: &Ent) -> WalEntry {
    let mut payload = BTreeMap::new();
    for (k, v) in &e.payload {
        payload.insert(k.clone(), real_of_sv(v));
    }
    WalEntry {
        timestamp: e.ts,
        context_id: e.ctx.clone(),
        event_type: e.ty.clone(),
        payload,
        event_id: EventId::from_raw(e.eid),
    }
}

// ------------------------------------------------------------------ rendering (shared with the driver)

fn r_sv(v: &SV) -> String {
    match v {
        SV::Null => "n".into(),
        SV::Bool(true) => "t".into(),
        SV::Bool(false) => "f".into(),
        SV::Int(i) => format!("i{i}"),
        SV::Float(b) => format!("d{b:016x}"),
        SV::Ts(i) => format!("T{i}"),
        SV::Str(s) => format!("s{}", hexs(s)),
        SV::Bin(b) => format!("B{}", hex(b)),
    }
}

fn r_jv(v: &JV) -> String {
    match v {
        JV::Null => "n".into(),
        JV::Bool(true) => "t".into(),
        JV::Bool(false) => "f".into(),
        JV::Int(i) => format!("i{i}"),
        JV::Float(b) => format!("d{b:016x}"),
        JV::Str(s) => format!("s{}", hexs(s)),
        JV::Compound(s) => format!("c{}", hexs(s)),
    }
}

fn r_ent(e: &Ent) -> String {
    let mut t = vec![hexs(&e.ty), hexs(&e.ctx), e.ts.to_string(), e.eid.to_string(), e.payload.len().to_string()];
    for (k, v) in &e.payload {
        t.push(hexs(k));
        t.push(r_sv(v));
    }
    t.join(" ")
}

fn r_raw(e: &Raw) -> String {
    let mut t = vec![hexs(&e.ty), hexs(&e.ctx), e.ts.to_string(), e.eid.to_string(), e.payload.len().to_string()];
    for (k, v) in &e.payload {
        t.push(hexs(k));
        t.push(r_jv(v));
    }
    t.join(" ")
}

// ------------------------------------------------------------------ generators

const WORDS: &[&str] = &["a", "b", "k", "amount", "note", "x y", "", "ключ", "n\"q", "日本", "id", "event_id"];
const TYPES: &[&str] = &["order", "login", "e", "", "päy", "a b", "click\\n"];
const CTXS: &[&str] = &["c1", "c2", "user-17", "", "ctx ü", "c\t3"];

fn gen_string(r: &mut Rng) -> String {
    match r.below(12) {
        0 => String::new(),
        1 => "18446744073709551615".into(),
        2 => "[1,2]".into(),
        3 => "{\"a\":1}".into(),
        4 => "true".into(),
        5 => "12".into(),
        6 => "1.5".into(),
        7 => "null".into(),
        8 => "naïve ☃ \u{10348}".into(),
        9 => "tab\there \"quoted\" back\\slash \u{0001}".into(),
        10 => (0..r.below(40)).map(|_| (b'a' + r.below(26) as u8) as char).collect(),
        _ => r.pick(WORDS).to_string(),
    }
}

fn gen_f64_bits(r: &mut Rng, allow_nonfinite: bool) -> u64 {
    let specials: [f64; 12] = [0.0, -0.0, 1.0, -1.0, 1.5, 0.1, 1e300, -1e-300, 5e-324, f64::MAX, 9007199254740993.0, 1e21];
    match r.below(6) {
        0 | 1 => r.pick(&specials).to_bits(),
        2 if allow_nonfinite => *r.pick(&[f64::NAN.to_bits(), f64::INFINITY.to_bits(), f64::NEG_INFINITY.to_bits(), 0x7ff8_0000_dead_beef, 0xfff0_0000_0000_0001]),
        _ => loop {
            let b = r.next();
            if f64::from_bits(b).is_finite() || allow_nonfinite {
                break b;
            }
        },
    }
}

fn gen_i64(r: &mut Rng) -> i64 {
    match r.below(8) {
        0 => 0,
        1 => i64::MAX,
        2 => i64::MIN,
        3 => -1,
        4 => r.next() as i64,
        5 => 1_700_000_000 + r.below(1000) as i64,
        _ => r.range(-300, 300),
    }
}

/// Any `ScalarValue` (for values written through the API and for lines produced the way the
/// WAL writer produces them).
fn gen_sv(r: &mut Rng) -> SV {
    match r.below(10) {
        0 => SV::Null,
        1 => SV::Bool(r.chance(1, 2)),
        2 | 3 => SV::Int(gen_i64(r)),
        4 | 5 => SV::Float(gen_f64_bits(r, true)),
        6 => SV::Ts(gen_i64(r)),
        7 => SV::Bin((0..r.below(9)).map(|_| r.next() as u8).collect()),
        _ => SV::Str(gen_string(r)),
    }
}

fn gen_json(r: &mut Rng, depth: u32) -> serde_json::Value {
    use serde_json::Value as V;
    match r.below(if depth > 2 { 9 } else { 12 }) {
        0 => V::Null,
        1 => V::Bool(r.chance(1, 2)),
        2 | 3 => V::from(gen_i64(r)),
        4 => V::from(match r.below(3) {
            0 => u64::MAX,
            1 => i64::MAX as u64 + 1,
            _ => r.next() | (1 << 63),
        }),
        5 | 6 => serde_json::Number::from_f64(f64::from_bits(gen_f64_bits(r, false))).map(V::Number).unwrap_or(V::Null),
        7 | 8 => V::String(gen_string(r)),
        9 | 10 => V::Array((0..r.below(4)).map(|_| gen_json(r, depth + 1)).collect()),
        _ => {
            let mut m = serde_json::Map::new();
            for _ in 0..r.below(3) {
                m.insert(gen_string(r), gen_json(r, depth + 1));
            }
            V::Object(m)
        }
    }
}

fn gen_ts(r: &mut Rng, base: u64) -> u64 {
    match r.below(14) {
        0 => 0,
        1 => u64::MAX,
        2 => r.next(),
        _ => base + r.below(4),
    }
}

fn gen_eid(r: &mut Rng) -> u64 {
    match r.below(5) {
        0 => 0,
        1 => u64::MAX,
        _ => r.next(),
    }
}

fn gen_ent(r: &mut Rng, base_ts: u64) -> Ent {
    let mut payload = BTreeMap::new();
    for _ in 0..r.below(4) {
        payload.insert(r.pick(WORDS).to_string(), gen_sv(r));
    }
    Ent {
        ty: r.pick(TYPES).to_string(),
        ctx: r.pick(CTXS).to_string(),
        ts: gen_ts(r, base_ts),
        eid: gen_eid(r),
        payload: payload.into_iter().collect(),
    }
}

/// The five fields as `serde`'s derive for `WalEntry` reads them off a generic JSON value;
/// `None` = the derive rejects the line. (Only clear-cut shapes are generated; agreement with the
/// real deserialiser is checked per line.)
fn raw_of_text(text: &str) -> Option<Raw> {
    let v: serde_json::Value = serde_json::from_str(text).ok()?;
    let o = v.as_object()?;
    let ts = o.get("timestamp")?;
    if !ts.is_u64() {
        return None;
    }
    let eid = match o.get("event_id") {
        None => 0,
        Some(x) if x.is_u64() => x.as_u64().unwrap(),
        Some(_) => return None,
    };
    let mut payload = vec![];
    for (k, x) in o.get("payload")?.as_object()? {
        let j = match x {
            serde_json::Value::Null => JV::Null,
            serde_json::Value::Bool(b) => JV::Bool(*b),
            serde_json::Value::Number(n) => {
                if let Some(i) = n.as_i64() {
                    JV::Int(i as i128)
                } else if let Some(u) = n.as_u64() {
                    JV::Int(u as i128)
                } else {
                    JV::Float(n.as_f64().unwrap().to_bits())
                }
            }
            serde_json::Value::String(s) => JV::Str(s.clone()),
            other => JV::Compound(serde_json::to_string(other).unwrap()),
        };
        payload.push((k.clone(), j));
    }
    payload.sort_by(|a, b| a.0.as_bytes().cmp(b.0.as_bytes()));
    Some(Raw {
        ty: o.get("event_type")?.as_str()?.to_string(),
        ctx: o.get("context_id")?.as_str()?.to_string(),
        ts: ts.as_u64().unwrap(),
        eid,
        payload,
    })
}

#[derive(Clone, Debug)]
enum GLine {
    Blank(String),
    Garbage(String),
    Entry(Raw, String),
    /// bytes that are not UTF-8: `BufRead::lines` fails, so does the archive
    BadUtf8(Vec<u8>),
}

/// A line written the way `InnerWalWriter::append_immediate` writes it.
fn writer_line(r: &mut Rng, base_ts: u64) -> String {
    let e = gen_ent(r, base_ts);
    serde_json::to_string(&real_of_ent(&e)).unwrap()
}

/// A hand-written line: any JSON payload values, field order, optional / unknown fields.
fn manual_line(r: &mut Rng, base_ts: u64) -> String {
    let mut fields: Vec<(String, String)> = vec![];
    fields.push(("timestamp".into(), gen_ts(r, base_ts).to_string()));
    fields.push(("context_id".into(), serde_json::to_string(&gen_string(r)).unwrap()));
    fields.push(("event_type".into(), serde_json::to_string(r.pick(TYPES)).unwrap()));
    let mut p = vec![];
    for _ in 0..r.below(4) {
        let k = if r.chance(1, 6) { "dup".to_string() } else { r.pick(WORDS).to_string() };
        let sep = if r.chance(1, 5) { " : " } else { ":" };
        let val = if r.chance(1, 12) { (*r.pick(&["1e2", "-0", "0.10", "1E+2", "123456789012345678901234567890", "-9223372036854775809"])).to_string() } else { serde_json::to_string(&gen_json(r, 0)).unwrap() };
        p.push(format!("{}{}{}", serde_json::to_string(&k).unwrap(), sep, val));
    }
    fields.push(("payload".into(), format!("{{{}}}", p.join(","))));
    if r.chance(3, 4) {
        fields.push(("event_id".into(), gen_eid(r).to_string()));
    }
    if r.chance(1, 6) {
        fields.push(("extra".into(), serde_json::to_string(&gen_json(r, 1)).unwrap()));
    }
    r.shuffle(&mut fields);
    let body: Vec<String> = fields.iter().map(|(k, v)| format!("\"{k}\":{v}")).collect();
    let pad = if r.chance(1, 6) { "  " } else { "" };
    let tail = match r.below(8) {
        0 => " ",
        1 => "\r",
        _ => "",
    };
    format!("{pad}{{{}}}{tail}", body.join(","))
}

fn garbage_line(r: &mut Rng, base_ts: u64) -> String {
    match r.below(10) {
        0 => "not json at all".into(),
        1 => "[1,2,3]".into(),
        2 => "42".into(),
        3 => "{\"foo\":1}".into(),
        4 => format!("{{\"timestamp\":{base_ts},\"context_id\":\"c\",\"event_type\":\"e\"}}"), // no payload
        5 => format!("{{\"timestamp\":\"{base_ts}\",\"context_id\":\"c\",\"event_type\":\"e\",\"payload\":{{}}}}"), // ts is a string
        6 => format!("{{\"timestamp\":-1,\"context_id\":\"c\",\"event_type\":\"e\",\"payload\":{{}}}}"),
        7 => format!("{{\"timestamp\":{base_ts},\"context_id\":\"c\",\"event_type\":\"e\",\"payload\":[1]}}"),
        8 => format!("{{\"timestamp\":1.5,\"context_id\":\"c\",\"event_type\":\"e\",\"payload\":{{}}}}"),
        _ => {
            // a complete line followed by trailing characters
            format!("{} x", writer_line(r, base_ts))
        }
    }
}

fn classify(text: String) -> GLine {
    if text.trim().is_empty() {
        return GLine::Blank(text);
    }
    match raw_of_text(&text) {
        Some(raw) => GLine::Entry(raw, text),
        None => GLine::Garbage(text),
    }
}

fn gen_line(r: &mut Rng, base_ts: u64) -> GLine {
    let text = match r.below(20) {
        0 => (*r.pick(&["", " ", "\t", "  \r"])).to_string(),
        1 | 2 => garbage_line(r, base_ts),
        3..=8 => manual_line(r, base_ts),
        _ => writer_line(r, base_ts),
    };
    classify(text)
}

#[derive(Clone, Debug)]
struct GFile {
    name: String,
    is_dir: bool,
    lines: Vec<GLine>,
    final_newline: bool,
}

impl GFile {
    fn readable(&self) -> bool {
        !self.is_dir && !self.lines.iter().any(|l| matches!(l, GLine::BadUtf8(_)))
    }
    fn entries(&self) -> Vec<Ent> {
        self.lines.iter().filter_map(|l| if let GLine::Entry(raw, _) = l { Some(ent_of_raw(raw)) } else { None }).collect()
    }
    fn bytes(&self) -> Vec<u8> {
        let mut out = vec![];
        for (i, l) in self.lines.iter().enumerate() {
            match l {
                GLine::Blank(t) | GLine::Garbage(t) | GLine::Entry(_, t) => out.extend_from_slice(t.as_bytes()),
                GLine::BadUtf8(b) => out.extend_from_slice(b),
            }
            if i + 1 < self.lines.len() || self.final_newline {
                out.push(b'\n');
            }
        }
        out
    }
}

/// `str::parse::<u64>` as documented: optional `+`, ASCII digits, no overflow.
fn parse_u64_spec(s: &str) -> Option<u64> {
    let d = s.strip_prefix('+').unwrap_or(s);
    if d.is_empty() || !d.bytes().all(|b| b.is_ascii_digit()) {
        return None;
    }
    let mut v: u128 = 0;
    for b in d.bytes() {
        v = v * 10 + (b - b'0') as u128;
        if v > u64::MAX as u128 {
            return None;
        }
    }
    Some(v as u64)
}

fn log_id_spec(name: &str) -> Option<u64> {
    parse_u64_spec(name.strip_prefix("wal-")?.strip_suffix(".log")?)
}

fn canonical(id: u64) -> String {
    format!("wal-{:05}.log", id)
}

fn arch_name_spec(id: u64, es: &[Ent]) -> String {
    let (s, e) = if es.is_empty() { (0, 0) } else { (es.iter().map(|e| e.ts).min().unwrap(), es.iter().map(|e| e.ts).max().unwrap()) };
    format!("wal-{:05}-{}-{}.wal.zst", id, s, e)
}

fn gen_name(r: &mut Rng, ids: &[u64]) -> String {
    let id = *r.pick(ids);
    match r.below(40) {
        0 => format!("wal-{id}.log"),
        1 => format!("wal-+{id}.log"),
        2 => format!("wal-+{:05}.log", id),
        3 => format!("wal-{:07}.log", id),
        4 => format!("wal-{:022}.log", id),
        5 => (*r.pick(&["wal-.log", "wal-abc.log", "wal--1.log", "wal-+.log", "wal-1 .log", "wal-18446744073709551616.log", "wal-18446744073709551615.log", "wal-٣.log"])).to_string(),
        6 => format!("wal-{:05}.log.bak", id),
        7 => format!("xwal-{:05}.log", id),
        8 => format!("wal-{:05}.txt", id),
        _ => canonical(id),
    }
}

/// A log whose archive stays large after zstd: many entries with random (incompressible) text.
fn gen_big_file(r: &mut Rng, name: String, base_ts: u64) -> GFile {
    let n = 20 + r.below(60);
    let lines = (0..n)
        .map(|k| {
            let blob: String = (0..(150 + r.below(400))).map(|_| *r.pick(b"abcdefghijklmnopqrstuvwxyzABCDEFGHIJKLMNOPQRSTUVWXYZ0123456789+/") as char).collect();
            let e = Ent {
                ty: "blob".into(),
                ctx: format!("c{}", r.below(4)),
                ts: base_ts + k / 8,
                eid: r.next(),
                payload: vec![("blob".into(), SV::Str(blob)), ("k".into(), SV::Int(k as i64))],
            };
            classify(serde_json::to_string(&real_of_ent(&e)).unwrap())
        })
        .collect();
    GFile { name, is_dir: false, lines, final_newline: true }
}

fn gen_file(r: &mut Rng, name: String, base_ts: u64) -> GFile {
    if r.chance(1, 30) {
        return GFile { name, is_dir: true, lines: vec![], final_newline: false };
    }
    let n = match r.below(10) {
        0 => 0,
        1 => 1,
        _ => 1 + r.below(6),
    };
    let mut lines: Vec<GLine> = (0..n).map(|_| gen_line(r, base_ts)).collect();
    let mut final_newline = true;
    if r.chance(1, 40) && !lines.is_empty() {
        let at = r.below(lines.len() as u64) as usize;
        lines[at] = GLine::BadUtf8(vec![b'{', 0xff, 0xfe, b'}']);
    }
    if r.chance(1, 5) {
        // torn last line: a strict prefix of a complete line, no newline
        let full = writer_line(r, base_ts).into_bytes();
        let cut = 1 + r.below(full.len() as u64 - 1) as usize;
        let part = full[..cut].to_vec();
        lines.push(match String::from_utf8(part) {
            Ok(t) => classify(t),
            Err(e) => GLine::BadUtf8(e.into_bytes()),
        });
        final_newline = false;
    } else if r.chance(1, 10) {
        final_newline = false;
    }
    GFile { name, is_dir: false, lines, final_newline }
}

#[derive(Clone, Debug)]
enum GNode {
    Dir,
    Dangling,
    Junk(Vec<u8>),
    /// header (shard, log id, start, end, count) and entries handed to the writer
    Archive { shard: usize, id: u64, start: u64, end: u64, count: u64, entries: Vec<Ent> },
}

#[derive(Clone, Debug)]
struct GStep {
    files: Vec<GFile>,
    /// 'C' = `WalCleaner::cleanup_up_to(arg)`, 'P' = `WalArchiver::archive_logs_up_to(arg)`,
    /// 'M' = `WalArchiver::archive_log(arg)` (what `wal_archive_manager archive` calls)
    op: char,
    bound: u64,
    /// 0 = no write fault; otherwise selects the file-size limit the call runs under
    /// (stream `clean_wfault` only; the limit itself depends on the archives' sizes at run time)
    fault_sel: u64,
}

#[derive(Clone, Debug)]
struct GCase {
    root: char, // d m f b
    /// the shard's WAL directory does not exist (then no step adds files)
    wal_missing: bool,
    nodes: Vec<(String, GNode)>,
    steps: Vec<GStep>,
}

fn gen_case(r: &mut Rng, shard: usize, wfault: bool) -> GCase {
    let base_ts = 1_700_000_000 + r.below(50);
    let ids: Vec<u64> = match r.below(12) {
        0 => vec![99_998, 99_999, 100_000, 100_001, 9, 10],
        1 => vec![0, 1, 2, u64::MAX - 1, 1 << 40, 123_456_789],
        2 => vec![0],
        _ => (0..(2 + r.below(5))).collect(),
    };
    let nsteps = match r.below(6) {
        0 | 1 | 2 => 1,
        3 | 4 => 2,
        _ => 3,
    };
    let mut steps: Vec<GStep> = vec![];
    let mut used: BTreeSet<String> = BTreeSet::new();
    for s in 0..nsteps {
        let nfiles = match r.below(8) {
            0 => 0,
            1 => 1,
            _ => 1 + r.below(4),
        };
        let mut files: Vec<GFile> = vec![];
        for _ in 0..nfiles {
            // later steps may reuse the name (and the time range) of an earlier log
            let earlier: Vec<GFile> = steps.iter().flat_map(|st: &GStep| st.files.iter().cloned()).collect();
            if s > 0 && !earlier.is_empty() && r.chance(1, 3) {
                let old = r.pick(&earlier).clone();
                if files.iter().any(|f: &GFile| f.name == old.name) {
                    continue;
                }
                let old_es = old.entries();
                let mut f = gen_file(r, old.name.clone(), base_ts);
                if !f.is_dir && r.chance(3, 4) {
                    // same first / last timestamp, other content
                    let new_es = f.entries();
                    if !old_es.is_empty() && !new_es.is_empty() {
                        let (lo, hi) = (old_es.iter().map(|e| e.ts).min().unwrap(), old_es.iter().map(|e| e.ts).max().unwrap());
                        let mut first = true;
                        for l in f.lines.iter_mut() {
                            if let GLine::Entry(raw, _) = l {
                                // re-render the line with the writer, same fields, other timestamp
                                let mut re = ent_of_raw(raw);
                                re.ts = if first { lo } else { hi };
                                first = false;
                                let text = serde_json::to_string(&real_of_ent(&re)).unwrap();
                                *l = classify(text);
                            }
                        }
                    }
                }
                files.push(f);
                continue;
            }
            let name = gen_name(r, &ids);
            if used.contains(&name) {
                continue;
            }
            used.insert(name.clone());
            if wfault && r.chance(1, 4) {
                files.push(gen_big_file(r, name, base_ts));
            } else {
                files.push(gen_file(r, name, base_ts));
            }
        }
        let eligible_ids: Vec<u64> = steps.iter().flat_map(|st| st.files.iter()).chain(files.iter()).filter_map(|f| log_id_spec(&f.name)).collect();
        let bound = match r.below(12) {
            0 => 0,
            1 => u64::MAX,
            2 => 100_000,
            3 | 4 if !eligible_ids.is_empty() => *r.pick(&eligible_ids),
            5 | 6 | 7 if !eligible_ids.is_empty() => r.pick(&eligible_ids).saturating_add(1),
            _ => eligible_ids.iter().copied().max().unwrap_or(0).saturating_add(1),
        };
        let op = match r.below(9) {
            0 => 'M',
            1 => 'P',
            _ => 'C',
        };
        let bound = if op == 'M' {
            if !eligible_ids.is_empty() && r.chance(4, 5) { *r.pick(&eligible_ids) } else { r.below(8) }
        } else {
            bound
        };
        let fault_sel = if wfault && r.chance(3, 4) { 1 + r.below(1 << 40) } else { 0 };
        steps.push(GStep { files, op, bound, fault_sel });
    }
    let root = match r.below(20) {
        0 => 'f',
        1 => 'b',
        2..=8 => 'm',
        _ => 'd',
    };
    let mut nodes: Vec<(String, GNode)> = vec![];
    if root == 'd' {
        let cands: Vec<(u64, String, Vec<Ent>)> = steps
            .iter()
            .flat_map(|st| st.files.iter())
            .filter_map(|f| log_id_spec(&f.name).map(|id| (id, arch_name_spec(id, &f.entries()), f.entries())))
            .collect();
        for _ in 0..r.below(4) {
            let collide = !cands.is_empty() && r.chance(1, 2);
            let other = |r: &mut Rng| -> String {
                (*r.pick(&["zzz.zst", "aaa.wal.zst", "wal-00001-extra.wal.zst", "wal-00000-0-0.wal.zst", "wal-00002-5-9.wal.zst", "notes.txt", ".zst", "wal-00003-1-2.wal", "x.zst.bak"])).to_string()
            };
            let arch_entries = |r: &mut Rng| -> Vec<Ent> { (0..r.below(4)).map(|_| gen_ent(r, base_ts)).collect() };
            let (name, node) = match r.below(10) {
                0 | 1 | 2 | 3 => {
                    // an earlier archive, standard name
                    let entries = arch_entries(r);
                    if collide {
                        let (id, n, es) = r.pick(&cands).clone();
                        let (s, e) = if es.is_empty() { (0, 0) } else { (es.iter().map(|e| e.ts).min().unwrap(), es.iter().map(|e| e.ts).max().unwrap()) };
                        (n, GNode::Archive { shard, id, start: s, end: e, count: entries.len() as u64, entries })
                    } else {
                        let id = *r.pick(&ids);
                        let id = if r.chance(1, 4) { id.wrapping_add(100_000) } else { id };
                        let (s, e) = (gen_ts(r, base_ts), gen_ts(r, base_ts));
                        (format!("wal-{:05}-{}-{}.wal.zst", id, s, e), GNode::Archive { shard, id, start: s, end: e, count: entries.len() as u64, entries })
                    }
                }
                4 => {
                    // a decodable archive under a foreign name, header unrelated to the name
                    let entries = arch_entries(r);
                    (other(r), GNode::Archive { shard: r.below(5) as usize, id: r.below(9), start: r.below(9), end: r.below(9), count: r.below(9), entries })
                }
                5 | 6 => (if collide { r.pick(&cands).1.clone() } else { other(r) }, GNode::Junk((0..r.below(30)).map(|_| r.next() as u8).collect())),
                7 | 8 => (if collide { r.pick(&cands).1.clone() } else { other(r) }, GNode::Dir),
                _ => (if collide { r.pick(&cands).1.clone() } else { other(r) }, GNode::Dangling),
            };
            if nodes.iter().any(|(n, _)| *n == name) {
                continue;
            }
            nodes.push((name, node));
        }
    }
    let wal_missing = r.chance(1, 40);
    if wal_missing {
        for st in steps.iter_mut() {
            st.files.clear();
        }
    }
    GCase { root, wal_missing, nodes, steps }
}

// ------------------------------------------------------------------ op line

fn op_line(conservative: bool, shard: usize, c: &GCase, steps_done: &[Vec<GFile>], faults_done: &[Vec<u64>]) -> String {
    let mut t: Vec<String> = vec!["clean".into(), (conservative as u8).to_string(), shard.to_string(), c.root.to_string(), c.nodes.len().to_string()];
    for (name, n) in &c.nodes {
        t.push(hexs(name));
        match n {
            GNode::Dir => t.push("D".into()),
            GNode::Dangling => t.push("L".into()),
            GNode::Junk(_) => t.push("J".into()),
            GNode::Archive { shard, id, start, end, count, entries } => {
                t.push("A".into());
                t.push(format!("{shard} {id} {start} {end} {count} {}", entries.len()));
                for e in entries {
                    t.push(r_ent(e));
                }
            }
        }
    }
    t.push(c.steps.len().to_string());
    for ((st, files), wf) in c.steps.iter().zip(steps_done).zip(faults_done) {
        t.push(files.len().to_string());
        for f in files {
            t.push(hexs(&f.name));
            t.push(if f.readable() { "r" } else { "u" }.into());
            t.push(if f.is_dir { "k" } else { "d" }.into());
            t.push(f.lines.len().to_string());
            for l in &f.lines {
                match l {
                    GLine::Blank(_) => t.push("b".into()),
                    GLine::Garbage(_) | GLine::BadUtf8(_) => t.push("g".into()),
                    GLine::Entry(raw, _) => {
                        t.push("e".into());
                        t.push(r_raw(raw));
                    }
                }
            }
        }
        t.push(st.op.to_string());
        t.push(st.bound.to_string());
        t.push(wf.len().to_string());
        t.extend(wf.iter().map(|id| id.to_string()));
    }
    t.join(" ")
}

// ------------------------------------------------------------------ running the real code

struct Dirs {
    wal: PathBuf,
    arch: PathBuf,
    scratch: PathBuf,
}

fn write_archive_as(scratch: &Path, target: &Path, shard: usize, id: u64, start: u64, end: u64, count: u64, entries: &[Ent]) {
    let _ = std::fs::remove_dir_all(scratch);
    std::fs::create_dir_all(scratch).unwrap();
    let header = WalArchiveHeader::new(shard, id, count, start, end, "zstd".to_string(), 3);
    let a = WalArchive { header, body: WalArchiveBody::new(entries.iter().map(real_of_ent).collect()) };
    let p = a.write_to_file(scratch).unwrap();
    std::fs::rename(p, target).unwrap();
}

fn setup(d: &Dirs, c: &GCase, shard: usize) {
    for p in [&d.wal, &d.arch, &d.scratch] {
        if let Ok(m) = std::fs::symlink_metadata(p) {
            if m.is_dir() {
                std::fs::remove_dir_all(p).unwrap();
            } else {
                std::fs::remove_file(p).unwrap();
            }
        }
    }
    std::fs::create_dir_all(d.wal.parent().unwrap()).unwrap();
    std::fs::create_dir_all(d.arch.parent().unwrap()).unwrap();
    if !c.wal_missing {
        std::fs::create_dir_all(&d.wal).unwrap();
    }
    match c.root {
        'm' => {}
        'f' => std::fs::write(&d.arch, b"i am a file").unwrap(),
        'b' => std::os::unix::fs::symlink(d.scratch.join("nowhere").join(format!("shard-{shard}")), &d.arch).unwrap(),
        _ => {
            std::fs::create_dir_all(&d.arch).unwrap();
            for (name, n) in &c.nodes {
                let p = d.arch.join(name);
                match n {
                    GNode::Dir => std::fs::create_dir(&p).unwrap(),
                    GNode::Dangling => std::os::unix::fs::symlink(d.scratch.join("nowhere").join("target"), &p).unwrap(),
                    GNode::Junk(b) => std::fs::write(&p, b).unwrap(),
                    GNode::Archive { shard, id, start, end, count, entries } => {
                        write_archive_as(&d.scratch, &p, *shard, *id, *start, *end, *count, entries)
                    }
                }
            }
            let _ = std::fs::remove_dir_all(&d.scratch);
        }
    }
}

fn list_names(p: &Path) -> Vec<String> {
    let mut v: Vec<String> = match std::fs::read_dir(p) {
        Ok(rd) => rd.flatten().map(|e| e.file_name().to_string_lossy().to_string()).collect(),
        Err(_) => vec![],
    };
    v.sort_by(|a, b| a.as_bytes().cmp(b.as_bytes()));
    v
}

struct Observed {
    wal: Vec<String>,
    root: char,
    arch: Vec<(String, char)>,
    info: Vec<(String, usize, u64, u64, u64, u64)>,
    rec: Option<Vec<Ent>>,
}

fn observe(d: &Dirs, shard: usize) -> Observed {
    let wal = list_names(&d.wal);
    let root = match std::fs::symlink_metadata(&d.arch) {
        Err(_) => 'm',
        Ok(m) if m.file_type().is_symlink() => 'b',
        Ok(m) if m.is_dir() => 'd',
        Ok(_) => 'f',
    };
    let mut arch = vec![];
    if root == 'd' {
        for n in list_names(&d.arch) {
            let m = std::fs::symlink_metadata(d.arch.join(&n)).unwrap();
            let k = if m.file_type().is_symlink() { 'L' } else if m.is_dir() { 'D' } else { 'F' };
            arch.push((n, k));
        }
    }
    let rcv = WalArchiveRecovery::new(shard, d.arch.clone());
    let info = rcv
        .list_archive_info()
        .iter()
        .map(|i| (i.path.file_name().unwrap().to_string_lossy().to_string(), i.shard_id, i.log_id, i.start_timestamp, i.end_timestamp, i.entry_count))
        .collect();
    let rec = rcv.recover_all().ok().map(|v| v.iter().map(ent_of_real).collect());
    Observed { wal, root, arch, info, rec }
}

fn render_obs(o: &Observed) -> String {
    let mut t: Vec<String> = vec!["|".into(), "W".into(), o.wal.len().to_string()];
    t.extend(o.wal.iter().map(|n| hexs(n)));
    t.push(format!("root={}", o.root));
    t.push("A".into());
    t.push(o.arch.len().to_string());
    for (n, k) in &o.arch {
        t.push(format!("{}:{k}", hexs(n)));
    }
    t.push("I".into());
    t.push(o.info.len().to_string());
    for (n, sh, id, s, e, c) in &o.info {
        t.push(format!("{}:{sh}:{id}:{s}:{e}:{c}", hexs(n)));
    }
    t.push("R".into());
    match &o.rec {
        None => t.push("ERR".into()),
        Some(es) => {
            t.push(es.len().to_string());
            for e in es {
                t.push(r_ent(e));
            }
        }
    }
    t.join(" ")
}

/// `needle` occurs in `hay` as a contiguous block.
fn contains_block(hay: &[Ent], needle: &[Ent]) -> bool {
    if needle.is_empty() {
        return true;
    }
    hay.len() >= needle.len() && hay.windows(needle.len()).any(|w| w == needle)
}

/// A log as the WAL writer leaves it: one entry per given timestamp, payload `{"k": ts}`.
fn plain_file(name: &str, tss: &[u64]) -> GFile {
    let lines = tss
        .iter()
        .map(|ts| {
            let e = Ent { ty: "order".into(), ctx: "c1".into(), ts: *ts, eid: 1000 + *ts, payload: vec![("k".into(), SV::Int(*ts as i64))] };
            classify(serde_json::to_string(&real_of_ent(&e)).unwrap())
        })
        .collect();
    GFile { name: name.to_string(), is_dir: false, lines, final_newline: true }
}

/// The witnesses of the `_fails` theorems of `Snel/Props/C19.lean`, replayed on the real code,
/// followed by the positive counterparts (same shape, hypothesis of the `_partial` theorem met).
fn witness_case(i: u64) -> GCase {
    let step = |files: Vec<GFile>, bound: u64| GStep { files, op: 'C', bound, fault_sel: 0 };
    let (root, steps) = match i {
        // C19_delete_implies_archived_fails: two spellings of log id 1
        0 => ('m', vec![step(vec![plain_file("wal-1.log", &[4]), plain_file("wal-00001.log", &[6])], 2)]),
        // C19_reuse_loses_entries_fails: log id 0 twice with the same first / last timestamp
        1 => ('m', vec![step(vec![plain_file("wal-00000.log", &[4, 6, 8])], 1), step(vec![plain_file("wal-00000.log", &[4, 8])], 1)]),
        // C19_recover_order_fails: log ids 99999 and 100000
        2 => ('m', vec![step(vec![plain_file("wal-99999.log", &[4]), plain_file("wal-100000.log", &[2])], 100_001)]),
        // positive: canonical names only
        3 => ('m', vec![step(vec![plain_file("wal-00000.log", &[4]), plain_file("wal-00001.log", &[6]), plain_file("wal-00002.log", &[7])], 2)]),
        // positive: log id reused with another time range
        4 => ('m', vec![step(vec![plain_file("wal-00000.log", &[4, 6])], 1), step(vec![plain_file("wal-00000.log", &[8, 10])], 1)]),
        // positive: ids 9 and 10
        _ => ('m', vec![step(vec![plain_file("wal-00010.log", &[2]), plain_file("wal-00009.log", &[4])], 11)]),
    };
    GCase { root, wal_missing: false, nodes: vec![], steps }
}

fn run_clean(a: &snel_harness::out::Args, conservative: bool) {
    let out = std::fs::canonicalize(&a.out).unwrap_or_else(|_| {
        std::fs::create_dir_all(&a.out).unwrap();
        std::fs::canonicalize(&a.out).unwrap()
    });
    let witness = a.stream == "witness";
    let wfault = a.stream == "clean_wfault";
    let stream_name = if witness {
        "witness"
    } else if wfault {
        "clean_wfault"
    } else if conservative {
        "clean_cons"
    } else {
        "clean_plain"
    };
    if wfault {
        // a write beyond RLIMIT_FSIZE must come back as EFBIG, not kill the process
        unsafe { signal(SIGXFSZ, SIG_IGN) };
    }
    let base = out.join(format!("fs-{stream_name}"));
    let _ = std::fs::remove_dir_all(&base);
    std::fs::create_dir_all(&base).unwrap();
    // configuration: copy of /repo/config/test.toml with our directories and mode
    let cfg = std::fs::read_to_string("/repo/config/test.toml").expect("read /repo/config/test.toml");
    let mut outcfg = String::new();
    for line in cfg.lines() {
        let key = line.split('=').next().unwrap_or("").trim();
        let l = match key {
            "dir" => format!("dir = \"{}\"", base.join("wal").display()),
            "archive_dir" => format!("archive_dir = \"{}\"", base.join("arch").display()),
            "conservative_mode" => format!("conservative_mode = {conservative}"),
            "data_dir" => format!("data_dir = \"{}\"", base.join("cols").display()),
            "index_dir" => format!("index_dir = \"{}\"", base.join("index").display()),
            "def_dir" => format!("def_dir = \"{}\"", base.join("schema").display()),
            "log_dir" => format!("log_dir = \"{}\"", base.join("logs").display()),
            _ => line.to_string(),
        };
        outcfg.push_str(&l);
        outcfg.push('\n');
    }
    let cfg_path = base.join("config.toml");
    std::fs::write(&cfg_path, outcfg).unwrap();
    unsafe { std::env::set_var("SNELDB_CONFIG", &cfg_path) };
    assert_eq!(snel_db::shared::config::CONFIG.wal.conservative_mode, conservative, "CONFIG was initialised before us");
    assert_eq!(snel_db::shared::config::CONFIG.wal.dir, base.join("wal").display().to_string());

    let mut s = Stream::create(&a.out, stream_name);
    for i in 0..a.cases {
        if a.only.is_some_and(|o| o != i) {
            continue;
        }
        let mut r = Rng::for_case(a.seed, stream_name, i);
        let shard = i as usize;
        let c = if witness { witness_case(i % 6) } else { gen_case(&mut r, shard, wfault) };
        let d = Dirs {
            wal: base.join("wal").join(format!("shard-{shard}")),
            arch: base.join("arch").join(format!("shard-{shard}")),
            scratch: base.join(format!("scratch-{shard}")),
        };
        setup(&d, &c, shard);
        let mut imp: Vec<String> = vec![];
        let mut steps_done: Vec<Vec<GFile>> = vec![];
        let mut faults_done: Vec<Vec<u64>> = vec![];
        let mut parser_disagrees: Option<String> = None;
        // oracle bookkeeping
        let mut on_disk: BTreeMap<String, GFile> = BTreeMap::new();
        let mut deleted_logs: Vec<(usize, GFile)> = vec![]; // (step, file)
        let mut fails: Vec<(String, String)> = vec![];
        let mut archive_names_by_step: Vec<BTreeSet<String>> = vec![];
        for (si, st) in c.steps.iter().enumerate() {
            let mut added = vec![];
            for f in &st.files {
                let p = d.wal.join(&f.name);
                if std::fs::symlink_metadata(&p).is_ok() {
                    s.tally("file_skipped_name_still_present");
                    continue;
                }
                if f.is_dir {
                    std::fs::create_dir(&p).unwrap();
                } else {
                    std::fs::write(&p, f.bytes()).unwrap();
                }
                for l in &f.lines {
                    let (text, expect) = match l {
                        GLine::Entry(_, t) => (t, true),
                        GLine::Garbage(t) | GLine::Blank(t) => (t, false),
                        GLine::BadUtf8(_) => continue,
                    };
                    if serde_json::from_str::<WalEntry>(text).is_ok() != expect {
                        parser_disagrees = Some(text.clone());
                    }
                }
                on_disk.insert(f.name.clone(), f.clone());
                added.push(f.clone());
            }
            steps_done.push(added);
            let before: Vec<String> = list_names(&d.wal);
            let arch_before = if conservative { None } else { Some(render_arch_only(&d)) };
            // ---- write faults: a file-size limit chosen against the sizes the archives will have
            let mut wfails: Vec<u64> = vec![];
            let mut limit: Option<u64> = None;
            if st.fault_sel != 0 {
                let mut ids: Vec<u64> = before
                    .iter()
                    .filter_map(|n| log_id_spec(n))
                    .filter(|id| if st.op == 'M' { *id == st.bound } else { *id < st.bound })
                    .collect();
                ids.sort();
                ids.dedup();
                // size of each archive, from a dry run without any fault into a scratch directory
                let mut sizes: Vec<(u64, u64)> = vec![];
                for id in ids {
                    if let Some(cf) = on_disk.get(&canonical(id)).filter(|cf| cf.readable()) {
                        let _ = std::fs::remove_dir_all(&d.scratch);
                        let cfg = &snel_db::shared::config::CONFIG.wal;
                        let a = WalArchive::from_wal_file(&d.wal.join(&cf.name), shard, id, cfg.compression_algorithm.clone(), cfg.compression_level).unwrap();
                        let p = a.write_to_file(&d.scratch).unwrap();
                        sizes.push((id, std::fs::metadata(&p).unwrap().len()));
                        let _ = std::fs::remove_dir_all(&d.scratch);
                    }
                }
                if !sizes.is_empty() {
                    let pick = sizes[(st.fault_sel % sizes.len() as u64) as usize].1;
                    let maxs = sizes.iter().map(|x| x.1).max().unwrap();
                    let mut l = match (st.fault_sel >> 8) % 8 {
                        0 | 1 => 0,
                        2 => 100 + (st.fault_sel >> 16) % 300,
                        3 => pick / 2,
                        4 | 5 => pick.saturating_sub(16 + (st.fault_sel >> 16) % 48), // the tail only
                        6 => pick + 40,                                                // this one fits, larger ones do not
                        _ => maxs + 64,                                                // limit set, nothing fails
                    };
                    // keep clear of every size: the header's `created_at` may move a size by a few bytes
                    if sizes.iter().any(|(_, sz)| sz.abs_diff(l) < 16) {
                        l = 0;
                    }
                    wfails = sizes.iter().filter(|(_, sz)| *sz > l).map(|x| x.0).collect();
                    limit = Some(l);
                    s.tally("wfault_limit_set");
                    s.tally(match l {
                        0 => "wfault_limit_0",
                        x if x > maxs => "wfault_limit_above_all",
                        x if sizes.iter().any(|(_, sz)| *sz > x && *sz - x <= 64) => "wfault_limit_cuts_tail",
                        _ => "wfault_limit_mid",
                    });
                    if sizes.iter().any(|(id, sz)| *sz > 8192 && wfails.contains(id)) {
                        s.tally("wfault_on_archive_over_8KiB");
                    }
                    if sizes.iter().any(|(_, sz)| *sz > 8192) {
                        s.tally("step_with_archive_over_8KiB");
                    }
                }
            }
            faults_done.push(wfails.clone());
            let saved = limit.map(|l| set_fsize_limit(l));
            // ---- the code under test
            let res = match st.op {
                'M' => if WalArchiver::new(shard).archive_log(st.bound).is_ok() { "ok".to_string() } else { "err".to_string() },
                'P' => {
                    let rs = WalArchiver::new(shard).archive_logs_up_to(st.bound);
                    format!("{}:{}", rs.iter().filter(|x| x.is_ok()).count(), rs.iter().filter(|x| x.is_err()).count())
                }
                _ => {
                    WalCleaner::new(shard).cleanup_up_to(st.bound);
                    "-".to_string()
                }
            };
            // ----
            if let Some(old) = saved {
                restore_fsize_limit(old);
            }
            let o = observe(&d, shard);
            imp.push(format!("res={res} {}", render_obs(&o)));
            s.tally(&format!("op_{}", st.op));

            // ---- oracle, per step
            let eligible: Vec<GFile> = before
                .iter()
                .filter_map(|n| on_disk.get(n))
                .cloned()
                .filter(|f| log_id_spec(&f.name).is_some_and(|id| if st.op == 'M' { id == st.bound && canonical(id) == f.name } else { id < st.bound }))
                .collect();
            let deleted: Vec<String> = before.iter().filter(|n| !o.wal.contains(n)).cloned().collect();
            // names an archive may have been written under in this step: per eligible id, the
            // file `archive_log` reads is the one under the canonical name
            archive_names_by_step.push(if conservative || st.op != 'C' {
                eligible
                    .iter()
                    .filter_map(|f| log_id_spec(&f.name))
                    .filter_map(|id| on_disk.get(&canonical(id)).filter(|cf| cf.readable()).map(|cf| arch_name_spec(id, &cf.entries())))
                    .collect()
            } else {
                BTreeSet::new()
            });
            if st.op != 'C' {
                if !wfails.is_empty() {
                    // the archiver must report the failed writes
                    s.tally("step_with_write_fault_PM");
                    let reported = match st.op {
                        'M' => res == "err",
                        _ => res.split(':').nth(1).and_then(|x| x.parse::<usize>().ok()).unwrap_or(0) >= wfails.len(),
                    };
                    if reported {
                        s.tally("write_fault_PM_code_reported_err");
                    } else {
                        fails.push((format!("step {si}: archive data of logs {wfails:?} could not be written (limit {limit:?}) but the archiver returned {res}"), "-".to_string()));
                    }
                }
                if !deleted.is_empty() {
                    fails.push((format!("step {si}: the archiver deleted {deleted:?}"), "-".to_string()));
                }
                if res == "ok" {
                    let want = on_disk.get(&canonical(st.bound)).map(|f| f.entries()).unwrap_or_default();
                    let found = list_names(&d.arch)
                        .iter()
                        .filter_map(|n| WalArchive::read_from_file(&d.arch.join(n)).ok())
                        .any(|a| a.header.log_id == st.bound && a.body.entries.iter().map(ent_of_real).collect::<Vec<_>>() == want);
                    if !found {
                        fails.push((format!("step {si}: archive_log({}) returned Ok but no archive holds the log's entries", st.bound), "-".to_string()));
                    }
                }
                continue;
            }
            // P2: only eligible names disappear
            for n in &deleted {
                if !eligible.iter().any(|f| f.name == *n) {
                    fails.push((format!("step {si}: {n} deleted although not below the bound {}", st.bound), "-".to_string()));
                }
            }
            if conservative {
                // "if archiving any eligible file fails, no log file is deleted"
                let squat = |n: &str| c.root == 'd' && c.nodes.iter().any(|(m, k)| m == n && matches!(k, GNode::Dir | GNode::Dangling));
                // (faults are attributed to logs carrying the name the writer gives them; a log
                // under another spelling of its id is the subject of the `noncanonical` class below)
                let fault = eligible.iter().any(|f| {
                    let id = log_id_spec(&f.name).unwrap();
                    canonical(id) == f.name
                        && (c.root == 'f' || c.root == 'b' || !f.readable() || squat(&arch_name_spec(id, &f.entries())) || wfails.contains(&id))
                });
                if !wfails.is_empty() {
                    s.tally("step_with_write_fault_C");
                    if deleted.is_empty() {
                        s.tally("write_fault_C_code_deleted_nothing");
                    }
                }
                if fault && !deleted.is_empty() {
                    fails.push((format!("step {si}: an eligible log could not be archived, yet {deleted:?} were deleted"), "-".to_string()));
                }
                if fault {
                    s.tally("step_with_archive_fault");
                }
                // deleted ⊆ archived now: some readable archive holds exactly the log's entries
                let archives_now: Vec<Vec<Ent>> = list_names(&d.arch)
                    .iter()
                    .filter_map(|n| WalArchive::read_from_file(&d.arch.join(n)).ok())
                    .map(|a| a.body.entries.iter().map(ent_of_real).collect())
                    .collect();
                for n in &deleted {
                    let f = &on_disk[n];
                    let want = f.entries();
                    if !archives_now.iter().any(|a| *a == want) {
                        let class = if canonical(log_id_spec(n).unwrap_or(0)) != *n { "noncanonical-log-name" } else { "-" };
                        fails.push((format!("step {si}: {n} deleted but no archive holds its {} entries", want.len()), class.to_string()));
                    }
                }
            } else if Some(render_arch_only(&d)) != arch_before {
                fails.push((format!("step {si}: archive directory changed in non-conservative mode"), "-".to_string()));
            }
            for n in &deleted {
                deleted_logs.push((si, on_disk[n].clone()));
                on_disk.remove(n);
            }
            if !deleted.is_empty() {
                s.tally("step_with_deletion");
            }
            s.tally_n("logs_deleted", deleted.len() as u64);
            s.tally_n("logs_eligible", eligible.len() as u64);
        }
        // ---- end-of-case oracle: everything archived-and-deleted is recoverable, in log order
        let last = observe(&d, shard);
        {
            if let Some(rec) = &last.rec {
                for (si, f) in deleted_logs.iter().filter(|_| conservative) {
                    let want = f.entries();
                    if !contains_block(rec, &want) {
                        let id = log_id_spec(&f.name).unwrap_or(0);
                        let my = arch_name_spec(id, &want);
                        let class = if canonical(id) != f.name {
                            "noncanonical-log-name"
                        } else if archive_names_by_step.iter().skip(si + 1).any(|set| set.contains(&my)) {
                            "archive-name-reuse"
                        } else {
                            "-"
                        };
                        fails.push((format!("log {} deleted in step {si}: its {} entries are not in recover_all", f.name, want.len()), class.to_string()));
                    }
                }
                // earlier archives (standard name) must survive as well
                for (name, n) in &c.nodes {
                    if let GNode::Archive { entries, .. } = n {
                        if name.ends_with(".zst") && name.len() > 4 {
                            let want: Vec<Ent> = entries.iter().map(ent_reser).collect();
                            if !contains_block(rec, &want) {
                                let class = if archive_names_by_step.iter().any(|set| set.contains(name)) { "archive-name-reuse" } else { "-" };
                                fails.push((format!("earlier archive {name}: its {} entries are no longer recoverable", want.len()), class.to_string()));
                            }
                        }
                    }
                }
                // log order of recovery (only when every readable archive carries its standard name)
                let standard = last.info.iter().all(|(n, _, id, st, en, _)| *n == format!("wal-{:05}-{}-{}.wal.zst", id, st, en));
                if standard {
                    let idseq: Vec<u64> = last.info.iter().map(|x| x.2).collect();
                    // ids the five-digit padding covers must come out in order whatever else is there
                    let narrow: Vec<u64> = idseq.iter().copied().filter(|id| *id < 100_000).collect();
                    if narrow.windows(2).any(|w| w[0] > w[1]) {
                        fails.push((format!("recover_all visits log ids below 100000 out of order: {idseq:?}"), "-".to_string()));
                    } else if idseq.windows(2).any(|w| w[0] > w[1]) {
                        // class predicate: the only inversions involve an id of six or more digits
                        fails.push((format!("recover_all visits log ids out of order: {idseq:?}"), "archive-order-wide-id".to_string()));
                    }
                    s.tally("order_checked");
                } else {
                    s.tally("order_not_checked_foreign_names");
                }
            } else if conservative && !deleted_logs.is_empty() {
                fails.push(("recover_all failed although logs were deleted".into(), "-".into()));
            }
        }
        let op = op_line(conservative, shard, &c, &steps_done, &faults_done);
        let imp_line = match &parser_disagrees {
            Some(t) => format!("parser-disagrees {}", hexs(t)),
            None => imp.join(" "),
        };
        // distribution
        s.tally(&format!("root_{}", c.root));
        if c.wal_missing {
            s.tally("wal_dir_missing");
        }
        s.tally(&format!("steps_{}", c.steps.len()));
        for (_, n) in &c.nodes {
            s.tally(match n {
                GNode::Dir => "node_dir",
                GNode::Dangling => "node_dangling",
                GNode::Junk(_) => "node_junk",
                GNode::Archive { .. } => "node_archive",
            });
        }
        for f in steps_done.iter().flatten() {
            s.tally("files");
            if f.is_dir {
                s.tally("file_is_dir");
            }
            if !f.readable() && !f.is_dir {
                s.tally("file_bad_utf8");
            }
            if f.lines.is_empty() && !f.is_dir {
                s.tally("file_empty");
            }
            if !f.final_newline && !f.lines.is_empty() {
                s.tally("file_no_final_newline");
            }
            match log_id_spec(&f.name) {
                None => s.tally("name_ineligible"),
                Some(id) if canonical(id) != f.name => s.tally("name_noncanonical"),
                Some(id) if id >= 100_000 => s.tally("name_id_6plus_digits"),
                _ => s.tally("name_canonical"),
            }
            for l in &f.lines {
                s.tally(match l {
                    GLine::Blank(_) => "line_blank",
                    GLine::Garbage(_) => "line_garbage",
                    GLine::BadUtf8(_) => "line_bad_utf8",
                    GLine::Entry(..) => "line_entry",
                });
            }
        }
        let nontrivial = !deleted_logs.is_empty() || last.info.len() > 0;
        s.case(&op, &imp_line, nontrivial);
        if fails.is_empty() {
            s.oracle_ok();
        }
        // every failed check is reported, so a classified failure never hides an unclassified one
        // (one line per distinct class and case)
        let mut seen = BTreeSet::new();
        for (detail, class) in &fails {
            if seen.insert(class.clone()) {
                s.tally(&format!("oracle_fail_{class}"));
                s.oracle_fail(i, class, &format!("{detail} | --seed {} --only {i}", a.seed));
            }
        }
        // tidy
        let _ = std::fs::remove_dir_all(&d.wal);
        if let Ok(m) = std::fs::symlink_metadata(&d.arch) {
            if m.is_dir() {
                let _ = std::fs::remove_dir_all(&d.arch);
            } else {
                let _ = std::fs::remove_file(&d.arch);
            }
        }
        let _ = std::fs::remove_dir_all(&d.scratch);
    }
    s.finish();
    let _ = std::fs::remove_dir_all(&base);
}

fn render_arch_only(d: &Dirs) -> String {
    let mut t = vec![];
    for n in list_names(&d.arch) {
        let m = std::fs::symlink_metadata(d.arch.join(&n)).unwrap();
        t.push(format!("{n}:{}:{}", m.len(), m.is_dir()));
    }
    format!("{:?}|{}", std::fs::symlink_metadata(&d.arch).map(|m| m.is_dir()).ok(), t.join(","))
}

// ------------------------------------------------------------------ file-size limit (write faults)

#[repr(C)]
struct RLimit {
    cur: u64,
    max: u64,
}
const RLIMIT_FSIZE: i32 = 1;
const SIGXFSZ: i32 = 25;
const SIG_IGN: usize = 1;
unsafe extern "C" {
    fn getrlimit(resource: i32, rlim: *mut RLimit) -> i32;
    fn setrlimit(resource: i32, rlim: *const RLimit) -> i32;
    fn signal(signum: i32, handler: usize) -> usize;
}

/// Lowers the soft RLIMIT_FSIZE of this process: every write that would make a regular file
/// larger than `bytes` is cut short / fails with EFBIG, while creating, truncating, syncing and
/// unlinking still work — the shape of ENOSPC / EDQUOT on the archive volume. Returns the old
/// soft limit. Nothing else in this (single-threaded) process writes while the limit is in force.
fn set_fsize_limit(bytes: u64) -> u64 {
    let mut cur = RLimit { cur: 0, max: 0 };
    assert_eq!(unsafe { getrlimit(RLIMIT_FSIZE, &mut cur) }, 0);
    let new = RLimit { cur: bytes.min(cur.max), max: cur.max };
    assert_eq!(unsafe { setrlimit(RLIMIT_FSIZE, &new) }, 0);
    cur.cur
}

fn restore_fsize_limit(old: u64) {
    let mut cur = RLimit { cur: 0, max: 0 };
    assert_eq!(unsafe { getrlimit(RLIMIT_FSIZE, &mut cur) }, 0);
    let new = RLimit { cur: old, max: cur.max };
    assert_eq!(unsafe { setrlimit(RLIMIT_FSIZE, &new) }, 0);
}

// ------------------------------------------------------------------ codec stream

fn run_codec(a: &snel_harness::out::Args) {
    let mut s = Stream::create(&a.out, "codec");
    for i in 0..a.cases {
        if a.only.is_some_and(|o| o != i) {
            continue;
        }
        let mut r = Rng::for_case(a.seed, "codec", i);
        if r.chance(1, 4) {
            // archive file name
            let id = match r.below(6) {
                0 => r.next(),
                1 => 99_990 + r.below(20),
                2 => r.below(10) * 10u64.pow(r.below(8) as u32),
                _ => r.below(100_000),
            };
            let (st, en) = (gen_ts(&mut r, 1_700_000_000), gen_ts(&mut r, 1_700_000_000));
            let arch = WalArchive { header: WalArchiveHeader::new(0, id, 0, st, en, "zstd".into(), 3), body: WalArchiveBody::new(vec![]) };
            let got = arch.generate_filename();
            s.tally("aname");
            s.case(&format!("aname {id} {st} {en}"), &hexs(&got), true);
            // oracle: the name determines the log id (no two logs share an archive name)
            let back = got.strip_prefix("wal-").and_then(|x| x.split('-').next()).and_then(|x| x.parse::<u64>().ok());
            if back == Some(id) {
                s.oracle_ok()
            } else {
                s.oracle_fail(i, "-", &format!("archive name {got} does not carry log id {id}"))
            }
            continue;
        }
        let n = r.below(5);
        let entries: Vec<Ent> = (0..n).map(|_| gen_ent(&mut r, 1_700_000_000)).collect();
        let arch = WalArchive {
            header: WalArchiveHeader::new(1, 2, n, 0, 0, "zstd".into(), (r.below(5) + 1) as i32),
            body: WalArchiveBody::new(entries.iter().map(real_of_ent).collect()),
        };
        let back = arch.to_compressed_bytes().and_then(|b| WalArchive::from_compressed_bytes(&b));
        let mut op = vec!["reser".to_string(), n.to_string()];
        op.extend(entries.iter().map(r_ent));
        let (imp, got) = match back {
            Ok(a2) => {
                let es: Vec<Ent> = a2.body.entries.iter().map(ent_of_real).collect();
                let mut t = vec![es.len().to_string()];
                t.extend(es.iter().map(r_ent));
                (t.join(" "), Some(es))
            }
            Err(_) => ("ERR".to_string(), None),
        };
        for e in &entries {
            for (_, v) in &e.payload {
                s.tally(match v {
                    SV::Null => "v_null",
                    SV::Bool(_) => "v_bool",
                    SV::Int(_) => "v_int",
                    SV::Float(b) if f64::from_bits(*b).is_finite() => "v_float",
                    SV::Float(_) => "v_float_nonfinite",
                    SV::Ts(_) => "v_timestamp",
                    SV::Str(_) => "v_str",
                    SV::Bin(_) => "v_binary",
                });
            }
        }
        s.case(&op.join(" "), &imp, n > 0);
        // oracle: field-wise equal for values a WAL line can hold (JSON-born); the others are
        // expected to change variant exactly as `reser` says
        let want: Vec<Ent> = entries.iter().map(ent_reser).collect();
        if got.as_ref() == Some(&want) {
            s.oracle_ok()
        } else {
            s.oracle_fail(i, "-", &format!("archive round trip changed entries: {}", op.join(" ")))
        }
    }
    s.finish();
}

fn main() {
    let a = parse_args();
    match a.stream.as_str() {
        "clean_cons" | "witness" | "clean_wfault" => run_clean(&a, true),
        "clean_plain" => run_clean(&a, false),
        "codec" => run_codec(&a),
        other => {
            eprintln!("unknown stream {other}");
            std::process::exit(2);
        }
    }
}
