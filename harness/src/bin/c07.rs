//! C07 component streams: the value path of one payload field through the real code.
//!
//! block    real `ColumnGroupBuilder` bytes + real decoders        = `encodeBlock`/`decodeBlock`
//! decode   real `.col`/`.zfc` files holding arbitrary block bytes  = `decodeBlock`
//! scalar   `ScalarValue::from` / `to_json` / WAL line round trip    = `ofJson`/`toJson`/`walTier`
//! f64parse Rust `str::parse::<f64>`                                 = `Snel.F64Parse.parseF64`
//! flush    real `ColumnWriter` segment files, `ColumnReader`, `ConditionEvaluator` rows, recompaction
//!          through `into_scalar_values` + `ZonePlan::from_rows`      = the four tier functions
//! project  real `build_memtable_flow` header / cells                = `ReturnProjection.projection`
//! memrows  real `build_memtable_flow` rows over active + passive memtables, optional keys omitted
//!                                                                  = `MemRows.memRows`
//! e2e      the whole engine in a child process (DEFINE/STORE/QUERY/REPLAY/FLUSH/compaction/restart),
//!          optional keys omitted, every tier; oracle only
use std::collections::{BTreeMap, BTreeSet, HashMap};
use std::path::{Path, PathBuf};
use std::sync::Arc;

use serde_json::{Value as Json, json};
use snel_db::engine::core::column::column_block_snapshot::ColumnBlockSnapshot;
use snel_db::engine::core::column::compression::{CompressedColumnIndex, Lz4Codec};
use snel_db::engine::core::column::format::PhysicalType;
use snel_db::engine::core::column::reader::decoders::decoder_for;
use snel_db::engine::core::column::reader::view::ColumnBlockView;
use snel_db::engine::core::column::type_catalog::ColumnTypeCatalog;
use snel_db::engine::core::read::cache::DecompressedBlock;
use snel_db::engine::core::write::column_block_writer::ColumnBlockWriter;
use snel_db::engine::core::write::column_group_builder::ColumnGroupBuilder;
use snel_db::engine::core::{
    CandidateZone, ColumnReader, ColumnValues, ConditionEvaluator, Event, EventBuilder, EventId,
    ColumnWriter, WalEntry, WriteJob, ZonePlan, ZoneRow,
};
use snel_db::engine::schema::registry::{MiniSchema, SchemaRegistry};
use snel_db::engine::schema::types::{EnumType, FieldType};
use snel_db::engine::types::ScalarValue;
use snel_harness::enc::{hex, hexs};
use snel_harness::out::{Args, Stream, parse_args};
use snel_harness::rng::Rng;
use tokio::sync::RwLock;

const I64_MAX_U: u64 = i64::MAX as u64;

// ------------------------------------------------------------------ tokens

fn json_tok(v: &Json) -> String {
    match v {
        Json::Null => "n".into(),
        Json::Bool(true) => "t".into(),
        Json::Bool(false) => "f".into(),
        Json::Number(n) => {
            if let Some(u) = n.as_u64() {
                format!("p{u}")
            } else if let Some(i) = n.as_i64() {
                format!("m{}", (i as i128).unsigned_abs())
            } else {
                format!("d{:016x}", n.as_f64().unwrap().to_bits())
            }
        }
        Json::String(s) => format!("s{}", hexs(s)),
        Json::Array(_) | Json::Object(_) => format!("c{}", hexs(&serde_json::to_string(v).unwrap())),
    }
}

fn scalar_tok(v: &ScalarValue) -> String {
    match v {
        ScalarValue::Null => "n".into(),
        ScalarValue::Boolean(true) => "t".into(),
        ScalarValue::Boolean(false) => "f".into(),
        ScalarValue::Int64(i) => format!("i{i}"),
        ScalarValue::Timestamp(i) => format!("T{i}"),
        ScalarValue::Float64(f) => format!("d{:016x}", f.to_bits()),
        ScalarValue::Utf8(s) => format!("s{}", hexs(s)),
        ScalarValue::Binary(b) => format!("B{}", hex(b)),
    }
}

fn verdict_tok(s: &str) -> String {
    match serde_json::from_str::<Json>(s) {
        Err(_) => "x".into(),
        Ok(v @ (Json::Array(_) | Json::Object(_))) => format!("c{}", hexs(&serde_json::to_string(&v).unwrap())),
        Ok(Json::Number(n)) => json_tok(&Json::Number(n)),
        Ok(_) => "o".into(),
    }
}

/// Oracle tables for one case: `f64::to_string` for every float the model may format and the
/// `serde_json::from_str` verdict for every string it may render.
#[derive(Default)]
struct Tables {
    floats: BTreeSet<u64>,
    strings: BTreeSet<String>,
}

impl Tables {
    fn add_string(&mut self, s: &str) {
        if self.strings.insert(s.to_string()) {
            let t = s.trim();
            if t != s {
                self.add_string(&t.to_string());
            }
            if let Ok(u) = t.parse::<u64>() {
                self.add_string(&u.to_string());
            }
            if let Ok(f) = s.parse::<f64>() {
                self.add_float(f);
            }
            if let Ok(f) = t.parse::<f64>() {
                self.add_float(f);
            }
        }
    }
    fn add_float(&mut self, f: f64) {
        if self.floats.insert(f.to_bits()) {
            let s = f.to_string();
            self.add_string(&s);
        }
    }
    fn add_scalar(&mut self, v: &ScalarValue) {
        match v {
            ScalarValue::Utf8(s) => self.add_string(s),
            ScalarValue::Float64(f) => self.add_float(*f),
            ScalarValue::Int64(i) | ScalarValue::Timestamp(i) => self.add_string(&i.to_string()),
            _ => {}
        }
    }
    fn add_json(&mut self, v: &Json) {
        self.add_scalar(&ScalarValue::from(v.clone()));
    }
    fn render(&self, with_json: bool) -> String {
        let mut out = String::from(" |");
        for b in &self.floats {
            out.push_str(&format!(" F{:016x}={}", b, hexs(&f64::from_bits(*b).to_string())));
        }
        if with_json {
            for b in &self.floats {
                let f = f64::from_bits(*b);
                if f.is_finite() {
                    let back: f64 = serde_json::from_str(&serde_json::to_string(&f).unwrap()).unwrap();
                    out.push_str(&format!(" W{:016x}={:016x}", b, back.to_bits()));
                }
            }
            for s in &self.strings {
                out.push_str(&format!(" J{}={}", hexs(s), verdict_tok(s)));
            }
        }
        out
    }
}

// ------------------------------------------------------------------ generators

fn gen_string(r: &mut Rng) -> String {
    const FIXED: &[&str] = &[
        "", " ", "a", "hello", "true", "false", "null", "TRUE", "True", " true ", "nan", "NaN", "inf", "-inf",
        "infinity", "0", "-0", "+5", "007", " 7 ", "\t42\n", "1.5", "1e3", ".5", "5.", "-1.25e-3", "1_000",
        "0x10", "9223372036854775807", "9223372036854775808", "-9223372036854775808", "-9223372036854775809",
        "18446744073709551615", "18446744073709551616", "+18446744073709551615", " 18446744073709551615",
        "9007199254740993", "1e400", "1e-400", "[1,2]", "[]", "{}", "{\"a\":1}", " [1] ", "[1,2", "\"x\"",
        "\"[1]\"", "1.0", "12345678901234567890123", "é", "日本語", "\u{a0}12\u{a0}", "\u{2003}true", "a\u{0}b",
        "line\nbreak", "quote\"back\\slash", "😀", "-", "+", ".", "e5", "1e", "١٢٣",
    ];
    match r.below(10) {
        0..=4 => (*r.pick(FIXED)).to_string(),
        5 => {
            // number-looking
            match r.below(5) {
                0 => (r.next() as i64).to_string(),
                1 => r.next().to_string(),
                2 => format!("{}", f64::from_bits(r.next())),
                3 => format!("{:e}", f64::from_bits(r.next())),
                _ => format!("{}.{}", r.below(1000), r.below(1000)),
            }
        }
        6 => {
            let n = r.below(12) as usize;
            (0..n).map(|_| *r.pick(&['a', 'b', 'Z', '0', '9', ' ', '-', '.', 'e', 'é', 'ß', '中', '"', '\\', '[', '{'])).collect()
        }
        7 => {
            // long
            let n = match r.below(12) {
                0..=2 => 255 + r.below(4) as usize,
                3 => 65534 + r.below(4) as usize,
                _ => 20 + r.below(400) as usize,
            };
            let c = *r.pick(&['x', 'é', '7']);
            std::iter::repeat(c).take(n).collect()
        }
        8 => {
            let v = gen_nested(r, 2);
            let s = serde_json::to_string(&v).unwrap();
            if r.chance(1, 3) { format!(" {s}\n") } else { s }
        }
        _ => {
            let n = r.below(6) as usize;
            (0..n).map(|_| char::from_u32(r.below(0x2fff) as u32 + 1).unwrap_or('?')).collect()
        }
    }
}

fn gen_nested(r: &mut Rng, depth: u32) -> Json {
    let leaf = |r: &mut Rng| match r.below(5) {
        0 => Json::Null,
        1 => json!(r.below(100)),
        2 => json!("s"),
        3 => json!(1.5),
        _ => json!(true),
    };
    if r.chance(1, 2) {
        let n = r.below(3);
        Json::Array((0..n).map(|_| if depth > 0 && r.chance(1, 3) { gen_nested(r, depth - 1) } else { leaf(r) }).collect())
    } else {
        let n = r.below(3);
        let mut m = serde_json::Map::new();
        for i in 0..n {
            let v = if depth > 0 && r.chance(1, 3) { gen_nested(r, depth - 1) } else { leaf(r) };
            m.insert(format!("k{}", (i + r.below(3)) % 4), v);
        }
        Json::Object(m)
    }
}

fn gen_i64(r: &mut Rng) -> i64 {
    match r.below(8) {
        0 => *r.pick(&[0, 1, -1, i64::MAX, i64::MIN, i64::MAX - 1, i64::MIN + 1, 1 << 53, (1 << 53) + 1, -(1 << 53) - 1]),
        1 => r.range(-1000, 1000),
        2 => (r.next() >> r.below(64)) as i64,
        3 => -((r.next() >> (1 + r.below(63))) as i64),
        _ => r.next() as i64,
    }
}

fn gen_u64(r: &mut Rng) -> u64 {
    match r.below(6) {
        0 => *r.pick(&[0, 1, I64_MAX_U, I64_MAX_U + 1, u64::MAX, u64::MAX - 1, 1 << 63]),
        1 => r.below(1000),
        2 => r.next() >> r.below(64),
        _ => r.next(),
    }
}

fn gen_f64_any(r: &mut Rng) -> f64 {
    match r.below(10) {
        0 => *r.pick(&[0.0, -0.0, 1.0, -1.0, 1.5, 0.1, 1e300, -1e-300, f64::MIN_POSITIVE, 5e-324, f64::MAX, f64::MIN, 9007199254740992.0, 1e15, 1e16, 1e21, 123456.789]),
        1 => *r.pick(&[f64::NAN, f64::INFINITY, f64::NEG_INFINITY, -f64::NAN]),
        2 => f64::from_bits(0x7ff0_0000_0000_0000 | r.next() >> 12), // NaN payloads
        3 => r.range(-100000, 100000) as f64,
        4 => (r.range(-100000, 100000) as f64) / 100.0,
        5 => f64::from_bits(r.below(1 << 52)), // subnormals
        _ => f64::from_bits(r.next()),
    }
}

fn gen_f64_finite(r: &mut Rng) -> f64 {
    loop {
        let f = gen_f64_any(r);
        if f.is_finite() {
            return f;
        }
    }
}

fn phys_code(p: PhysicalType) -> u8 {
    p.into()
}

/// A scalar for a column of type `phys`: mostly the kind the schema would put there.
fn gen_scalar_for(r: &mut Rng, phys: PhysicalType) -> ScalarValue {
    let matching = !r.chance(1, 5);
    if r.chance(1, 8) {
        return ScalarValue::Null;
    }
    if matching {
        match phys {
            PhysicalType::I64 => {
                if r.chance(1, 10) { ScalarValue::Timestamp(gen_i64(r)) } else { ScalarValue::Int64(gen_i64(r)) }
            }
            PhysicalType::U64 => {
                let u = gen_u64(r);
                ScalarValue::from(json!(u))
            }
            PhysicalType::F64 => {
                if r.chance(1, 6) { ScalarValue::Int64(gen_i64(r)) } else { ScalarValue::Float64(gen_f64_any(r)) }
            }
            PhysicalType::Bool => ScalarValue::Boolean(r.chance(1, 2)),
            _ => ScalarValue::Utf8(gen_string(r)),
        }
    } else {
        match r.below(5) {
            0 => ScalarValue::Int64(gen_i64(r)),
            1 => ScalarValue::Float64(gen_f64_any(r)),
            2 => ScalarValue::Boolean(r.chance(1, 2)),
            3 => ScalarValue::Timestamp(gen_i64(r)),
            _ => ScalarValue::Utf8(gen_string(r)),
        }
    }
}

fn gen_rows(r: &mut Rng) -> usize {
    match r.below(10) {
        0 => *r.pick(&[1usize, 7, 8, 9, 15, 16, 17, 63, 64, 65]),
        1 => 100 + r.below(500) as usize,
        _ => 1 + r.below(24) as usize,
    }
}

// ------------------------------------------------------------------ real decode helpers

fn cell_toks(phys: PhysicalType, v: &ColumnValues) -> Vec<String> {
    (0..v.len())
        .map(|i| match phys {
            PhysicalType::I64 => v.get_i64_at(i).map(|x| format!("i{x}")).unwrap_or("n".into()),
            PhysicalType::U64 => v.get_u64_at(i).map(|x| format!("u{x}")).unwrap_or("n".into()),
            PhysicalType::F64 => v.get_f64_at(i).map(|x| format!("d{:016x}", x.to_bits())).unwrap_or("n".into()),
            PhysicalType::Bool => v.get_bool_at(i).map(|x| if x { "t".into() } else { "f".into() }).unwrap_or("n".into()),
            _ => {
                let (s, l) = v.ranges[i];
                format!("b{}", hex(&v.block.bytes[s..s + l]))
            }
        })
        .collect()
}

fn build_block(phys: PhysicalType, scalars: &[ScalarValue]) -> (Vec<u8>, Vec<String>) {
    let key = ("ev".to_string(), "fld".to_string());
    let mut types = HashMap::new();
    types.insert(key.clone(), phys);
    let mut b = ColumnGroupBuilder::with_types(types);
    for v in scalars {
        b.add(&WriteJob { key: key.clone(), zone_id: 0, path: PathBuf::from("unused"), value: v.clone() });
    }
    let mut out = b.finish();
    let (buf, _lens, strings) = out.remove(&(key, 0)).expect("one group");
    (buf, strings)
}

fn decode_in_memory(buf: &[u8], rows: usize) -> Option<(PhysicalType, ColumnValues)> {
    let block = Arc::new(DecompressedBlock::from_bytes(buf.to_vec()));
    let view = ColumnBlockView::parse(&block.bytes).ok()?;
    let phys = view.phys;
    let vals = decoder_for(phys).build_values(&view, rows, Arc::clone(&block)).ok()?;
    Some((phys, vals))
}

// ------------------------------------------------------------------ stream: block

fn stream_block(a: &Args) {
    let mut s = Stream::create(&a.out, "block");
    for i in 0..a.cases {
        if a.only.is_some_and(|o| o != i) {
            continue;
        }
        let mut r = Rng::for_case(a.seed, "block", i);
        let phys = match r.below(11) {
            0 | 1 => PhysicalType::VarBytes,
            2 | 3 => PhysicalType::I64,
            4 | 5 => PhysicalType::U64,
            6 | 7 => PhysicalType::F64,
            8 | 9 => PhysicalType::Bool,
            _ => PhysicalType::I32Date,
        };
        let n = gen_rows(&mut r);
        let all_valid = r.chance(1, 4); // blocks without any null take the no-bitmap layout
        let scalars: Vec<ScalarValue> = (0..n)
            .map(|_| loop {
                let v = gen_scalar_for(&mut r, phys);
                if !all_valid || !v.is_null() {
                    break v;
                }
            })
            .collect();
        let mut t = Tables::default();
        for v in &scalars {
            t.add_scalar(v);
        }
        let op = format!(
            "block {} {}{}",
            phys_code(phys),
            scalars.iter().map(scalar_tok).collect::<Vec<_>>().join(" "),
            t.render(false)
        );
        let (buf, strings) = build_block(phys, &scalars);
        let dec = decode_in_memory(&buf, n);
        let imp = match &dec {
            None => format!("{} none", hex(&buf)),
            Some((p, vals)) => {
                let cells = cell_toks(*p, vals);
                let sc = ColumnBlockSnapshot::new(*p, vals.clone()).into_scalar_values();
{
                    let mut toks = vec![hex(&buf), phys_code(*p).to_string()];
                    toks.extend(cells);
                    toks.push("#".to_string());
                    toks.extend(sc.iter().map(scalar_tok));
                    toks.join(" ")
                }
            }
        };
        s.tally(&format!("phys={:?}", phys));
        s.tally_n("rows", n as u64);
        if buf.get(1) == Some(&1) {
            s.tally("has_null_bitmap");
        }
        if strings.iter().any(|x| x.len() > 60000) {
            s.tally("string>60000B");
        }
        if strings.iter().any(|x| !x.is_ascii()) {
            s.tally("non_ascii");
        }
        s.case(&op, &imp, dec.is_some());

        // oracle: what the column gives back for a value of the kind the schema puts there
        match &dec {
            None => s.oracle_fail(i, "-", &format!("block written by the builder does not decode: {op}")),
            Some((p, vals)) => {
                let sc = ColumnBlockSnapshot::new(*p, vals.clone()).into_scalar_values();
                let mut bad: Option<(&'static str, String)> = None;
                if sc.len() != scalars.len() {
                    bad = Some(("-", format!("row count {} != {}", sc.len(), scalars.len())));
                }
                for (k, (input, got)) in scalars.iter().zip(sc.iter()).enumerate() {
                    let verdict: Option<&'static str> = match (phys, input) {
                        (PhysicalType::I64, ScalarValue::Int64(x)) | (PhysicalType::I64, ScalarValue::Timestamp(x)) => {
                            if *got == ScalarValue::Int64(*x) { None } else { Some("-") }
                        }
                        (PhysicalType::U64, ScalarValue::Int64(x)) if *x >= 0 => {
                            if *got == ScalarValue::Int64(*x) { None } else { Some("-") }
                        }
                        (PhysicalType::U64, ScalarValue::Utf8(t)) if t.parse::<u64>().is_ok_and(|u| u.to_string() == *t) => {
                            let u = t.parse::<u64>().unwrap();
                            let want = if u <= I64_MAX_U { ScalarValue::Int64(u as i64) } else { ScalarValue::Utf8(t.clone()) };
                            if *got == want { None } else { Some("-") }
                        }
                        (PhysicalType::F64, ScalarValue::Float64(f)) => match got {
                            ScalarValue::Float64(g) if g.to_bits() == f.to_bits() || (g.is_nan() && f.is_nan()) => None,
                            _ => Some("-"),
                        },
                        (PhysicalType::F64, ScalarValue::Int64(x)) => match got {
                            ScalarValue::Float64(g) if (*g as i128) == *x as i128 && g.fract() == 0.0 && *g < 9.3e18 => None,
                            ScalarValue::Float64(_) if x.unsigned_abs() > (1u64 << 53) => Some("int-in-float-column-rounded"),
                            _ => Some("-"),
                        },
                        (PhysicalType::Bool, ScalarValue::Boolean(b)) => {
                            if *got == ScalarValue::Boolean(*b) { None } else { Some("-") }
                        }
                        (PhysicalType::VarBytes | PhysicalType::I32Date, ScalarValue::Utf8(t)) => {
                            if *got == ScalarValue::Utf8(t.clone()) { None } else { Some("-") }
                        }
                        (PhysicalType::VarBytes | PhysicalType::I32Date, ScalarValue::Null) => {
                            if got.is_null() { None } else if *got == ScalarValue::Utf8(String::new()) { Some("null-as-empty-string") } else { Some("-") }
                        }
                        (_, ScalarValue::Null) => {
                            if got.is_null() { None } else { Some("-") }
                        }
                        _ => None, // a kind the schema never puts into this column type
                    };
                    if let Some(c) = verdict {
                        bad = Some((c, format!("row {k}: stored {} read {} in {:?} column", scalar_tok(input), scalar_tok(got), phys)));
                        if c == "-" {
                            break;
                        }
                    }
                }
                match bad {
                    None => s.oracle_ok(),
                    Some((c, d)) => s.oracle_fail(i, c, &d),
                }
            }
        }
    }
    s.finish();
}

// ------------------------------------------------------------------ stream: decode (through real files)

fn read_via_files(dir: &Path, tag: u64, bytes: &[u8], rows: u32) -> Option<(PhysicalType, Vec<String>)> {
    let seg = dir.join(format!("seg{tag}"));
    std::fs::create_dir_all(&seg).unwrap();
    let key = ("uid".to_string(), "fld".to_string());
    let mut index = CompressedColumnIndex::default();
    let mut w = ColumnBlockWriter::new(seg.clone());
    w.append_zone(&mut index, key.clone(), 3, bytes, rows, &Lz4Codec).unwrap();
    w.finish().unwrap();
    index.write_to_path(&CompressedColumnIndex::path_for("uid", "fld", &seg)).unwrap();
    let res = std::panic::catch_unwind(|| {
        let snap = ColumnReader::load_for_zone_snapshot(&seg, "seg", "uid", "fld", 3, None).ok()?;
        let phys = snap.physical_type();
        let scalars = snap.clone().into_scalar_values();
        let vals = snap.into_values();
        let mut toks = cell_toks(phys, &vals);
        toks.push("#".to_string());
        toks.extend(scalars.iter().map(scalar_tok));
        Some((phys, toks))
    });
    let _ = std::fs::remove_dir_all(&seg);
    res.unwrap_or(None)
}

fn stream_decode(a: &Args) {
    let mut s = Stream::create(&a.out, "decode");
    let dir = a.out.join("decode_files");
    std::panic::set_hook(Box::new(|_| {}));
    for i in 0..a.cases {
        if a.only.is_some_and(|o| o != i) {
            continue;
        }
        let mut r = Rng::for_case(a.seed, "decode", i);
        let phys = *r.pick(&[PhysicalType::VarBytes, PhysicalType::I64, PhysicalType::U64, PhysicalType::F64, PhysicalType::Bool]);
        let n = 1 + r.below(20) as usize;
        let scalars: Vec<ScalarValue> = (0..n).map(|_| gen_scalar_for(&mut r, phys)).collect();
        let (mut buf, _) = build_block(phys, &scalars);
        let mut rows = n as u32;
        let kind = r.below(10);
        match kind {
            0 => {}
            1 => {
                let k = r.below(buf.len() as u64) as usize;
                buf.truncate(k.max(1));
            }
            2 => buf[0] = r.below(8) as u8,
            3 => buf[1] ^= 1,
            4 => {
                let v = match r.below(4) { 0 => 0u32, 1 => n as u32 + 1, 2 => (n as u32).saturating_sub(1), _ => r.next() as u32 };
                buf[4..8].copy_from_slice(&v.to_le_bytes());
            }
            5 => {
                let cur = u32::from_le_bytes(buf[8..12].try_into().unwrap());
                let v = match r.below(4) { 0 => cur + 1, 1 => cur.saturating_sub(1), 2 => cur + 8, _ => r.next() as u32 };
                buf[8..12].copy_from_slice(&v.to_le_bytes());
            }
            6 => rows = match r.below(3) { 0 => 0, 1 => rows + 1, _ => r.below(40) as u32 },
            7 => {
                // legacy header-less block
                let cnt = r.below(4) as usize;
                let mut b = vec![];
                for _ in 0..cnt {
                    let l = r.below(4) as usize;
                    b.extend_from_slice(&(l as u16).to_le_bytes());
                    b.extend(std::iter::repeat(b'a' + r.below(20) as u8).take(l));
                }
                if r.chance(1, 3) { b.truncate(b.len().saturating_sub(1)); }
                b.truncate(11);
                if b.is_empty() { b.push(0); }
                buf = b;
                rows = match r.below(3) { 0 => cnt as u32, 1 => cnt as u32 + 1, _ => cnt.saturating_sub(1) as u32 };
            }
            8 => {
                let k = r.below(buf.len() as u64) as usize;
                buf[k] = r.next() as u8;
            }
            _ => {
                let extra = r.below(9) as usize;
                buf.extend(std::iter::repeat(0xAB).take(extra));
            }
        }
        let op = format!("decode {} {}", rows, hex(&buf));
        let got = read_via_files(&dir, i, &buf, rows);
        let imp = match &got {
            None => "none".to_string(),
            Some((p, cells)) => {
                let mut toks = vec![phys_code(*p).to_string()];
                toks.extend(cells.iter().cloned());
                toks.join(" ")
            }
        };
        s.tally(&format!("mutation={kind}"));
        s.tally(if got.is_some() { "decoded" } else { "rejected" });
        s.case(&op, &imp, got.is_some());
        // oracle: the untouched block read back through lz4 + file + mmap equals the in-memory decode
        if kind == 0 {
            let mem = decode_in_memory(&buf, n).map(|(p, v)| {
                let mut toks = cell_toks(p, &v);
                toks.push("#".to_string());
                toks.extend(ColumnBlockSnapshot::new(p, v.clone()).into_scalar_values().iter().map(scalar_tok));
                (p, toks)
            });
            if mem == got && got.is_some() { s.oracle_ok() } else { s.oracle_fail(i, "-", &format!("file round trip differs from in-memory decode: {op}")) }
        }
    }
    let _ = std::fs::remove_dir_all(&dir);
    s.finish();
}

// ------------------------------------------------------------------ stream: scalar

fn gen_json_value(r: &mut Rng) -> Json {
    match r.below(12) {
        0 => Json::Null,
        1 => Json::Bool(r.chance(1, 2)),
        2 | 3 => json!(gen_u64(r)),
        4 => json!(gen_i64(r)),
        5 | 6 => json!(gen_f64_finite(r)),
        7 => gen_nested(r, 2),
        _ => Json::String(gen_string(r)),
    }
}

fn wal_roundtrip(v: &ScalarValue) -> Option<ScalarValue> {
    let mut payload = BTreeMap::new();
    payload.insert("v".to_string(), v.clone());
    let e = WalEntry { timestamp: 1, context_id: "c".into(), event_type: "e".into(), payload, event_id: EventId::from(7u64) };
    let line = serde_json::to_string(&e).ok()?;
    let back: WalEntry = serde_json::from_str(&line).ok()?;
    back.payload.get("v").cloned()
}

/// `≈` of the property: numbers numerically equal, strings byte-identical, null is null.
fn json_same(a: &Json, b: &Json) -> bool {
    match (a, b) {
        (Json::Number(x), Json::Number(y)) => {
            if let (Some(p), Some(q)) = (x.as_i64(), y.as_i64()) { return p == q; }
            if let (Some(p), Some(q)) = (x.as_u64(), y.as_u64()) { return p == q; }
            let as_int = |n: &serde_json::Number| -> Option<i128> {
                if let Some(i) = n.as_i64() { Some(i as i128) } else if let Some(u) = n.as_u64() { Some(u as i128) } else {
                    let f = n.as_f64()?;
                    if f.fract() == 0.0 && f.abs() < 1.0e30 { Some(f as i128) } else { None }
                }
            };
            if x.is_f64() && y.is_f64() { return x.as_f64() == y.as_f64(); }
            match (as_int(x), as_int(y)) { (Some(p), Some(q)) => p == q, _ => false }
        }
        _ => a == b,
    }
}

/// The stored value is a float whose shortest decimal text serde_json reads back as another float.
fn wal_float_class(n: &serde_json::Number) -> bool {
    if !n.is_f64() {
        return false;
    }
    let f = n.as_f64().unwrap();
    let back: f64 = serde_json::from_str(&serde_json::to_string(&f).unwrap()).unwrap();
    back.to_bits() != f.to_bits()
}

fn reparse_class(s: &str) -> bool {
    match serde_json::from_str::<Json>(s) {
        Ok(Json::Array(_)) | Ok(Json::Object(_)) => true,
        Ok(Json::Number(n)) => n.as_u64().is_some_and(|u| u > I64_MAX_U),
        _ => false,
    }
}

fn stream_scalar(a: &Args) {
    let mut s = Stream::create(&a.out, "scalar");
    for i in 0..a.cases {
        if a.only.is_some_and(|o| o != i) {
            continue;
        }
        let mut r = Rng::for_case(a.seed, "scalar", i);
        let j = gen_json_value(&mut r);
        let mut t = Tables::default();
        t.add_json(&j);
        let op = format!("scalar {}{}", json_tok(&j), t.render(true));
        let v = ScalarValue::from(j.clone());
        let out = v.to_json();
        let w = wal_roundtrip(&v);
        let imp = match &w {
            Some(w) => format!("{} {} {} {}", scalar_tok(&v), json_tok(&out), scalar_tok(w), json_tok(&w.to_json())),
            None => format!("{} {} wal-error", scalar_tok(&v), json_tok(&out)),
        };
        s.tally(match &j { Json::Null => "null", Json::Bool(_) => "bool", Json::Number(n) => if n.is_f64() { "float" } else if n.as_i64().is_some() { "int<=i64max" } else { "u64>i64max" }, Json::String(_) => "string", _ => "nested" });
        s.case(&op, &imp, true);
        if matches!(j, Json::Array(_) | Json::Object(_)) {
            continue; // never schema-conforming
        }
        let mut fail: Option<(&'static str, String)> = None;
        for (tier, got) in [("memtable", Some(out.clone())), ("wal", w.as_ref().map(|w| w.to_json()))] {
            match got {
                Some(g) if json_same(&g, &j) => {}
                Some(g) => {
                    let class = match &j {
                        Json::String(x) if reparse_class(x) => "string-reparsed-as-json",
                        Json::Number(n) if tier == "wal" && wal_float_class(n) => "wal-float-text-roundtrip",
                        _ => "-",
                    };
                    fail = Some((class, format!("{tier}: stored {} rendered {}", json_tok(&j), json_tok(&g))));
                }
                None => fail = Some(("-", format!("{tier}: WAL line does not read back for {}", json_tok(&j)))),
            }
        }
        match fail { None => s.oracle_ok(), Some((c, d)) => s.oracle_fail(i, c, &d) }
    }
    s.finish();
}

// ------------------------------------------------------------------ stream: f64parse

fn gen_float_text(r: &mut Rng) -> String {
    match r.below(12) {
        0 | 1 => gen_f64_any(r).to_string(),
        2 => format!("{:e}", gen_f64_any(r)),
        3 => format!("{:E}", gen_f64_finite(r)),
        4 => {
            // exact decimal expansion of a halfway point between two adjacent doubles
            let f = f64::from_bits(r.next() & 0x7fef_ffff_ffff_ffff);
            halfway_decimal(f, r)
        }
        5 => {
            let mut t = String::new();
            if r.chance(1, 3) { t.push(*r.pick(&['+', '-'])); }
            for _ in 0..r.below(25) { t.push((b'0' + r.below(10) as u8) as char); }
            if r.chance(1, 2) { t.push('.'); for _ in 0..r.below(25) { t.push((b'0' + r.below(10) as u8) as char); } }
            if r.chance(1, 2) { t.push(*r.pick(&['e', 'E'])); if r.chance(1, 2) { t.push(*r.pick(&['+', '-'])); } for _ in 0..r.below(4) { t.push((b'0' + r.below(10) as u8) as char); } }
            t
        }
        6 => (*r.pick(&["inf", "INF", "Infinity", "-infinity", "+inf", "nan", "NaN", "-nan", "+NAN", "infinit", "na", "in", "infinityy", "1e309", "1e308", "1.7976931348623157e308", "1.7976931348623158e308", "1.7976931348623159e308", "4.9e-324", "2.4703282292062327e-324", "2.4703282292062328e-324", "2.5e-324", "1e-400", "0e999999", "-0.0", "0.0e-5", "1e99999", "1e-99999", "00001", "1.e5", ".e5", "1e+", "1e-", "--1", "+-1", "1 ", " 1", "1f", "0x1p3", "1,5", "1e5.0", "9007199254740993", "9007199254740992.5", "9007199254740993.000000000000000000000001", "2.2250738585072011e-308", "2.2250738585072014e-308"])).to_string(),
        7 => gen_i64(r).to_string(),
        8 => gen_u64(r).to_string(),
        9 => {
            let d = r.below(40) as usize + 17;
            let mut t = String::new();
            for k in 0..d { t.push((b'0' + if k == 0 { 1 + r.below(9) } else { r.below(10) } as u8) as char); }
            let pos = r.below(d as u64) as usize;
            t.insert(pos, '.');
            if r.chance(1, 2) { t.push_str(&format!("e{}", r.range(-340, 310))); }
            t
        }
        _ => gen_string(r),
    }
}

/// Decimal text of `(f + next_up(f)) / 2` (exactly), optionally nudged in the last place.
fn halfway_decimal(f: f64, r: &mut Rng) -> String {
    let bits = f.to_bits();
    let e = ((bits >> 52) & 0x7ff) as i64;
    let frac = bits & ((1u64 << 52) - 1);
    let (m, ex) = if e == 0 { (frac, -1074i64) } else { (frac | (1 << 52), e - 1075) };
    // halfway = (2m + 1) * 2^(ex - 1)
    let num = 2 * m as u128 + 1;
    let ex = ex - 1;
    let mut digits: Vec<u8> = num.to_string().bytes().map(|b| b - b'0').collect();
    let mut point_shift: i64 = 0;
    if ex >= 0 {
        for _ in 0..ex { // multiply by 2
            let mut carry = 0u8;
            for d in digits.iter_mut().rev() { let v = *d * 2 + carry; *d = v % 10; carry = v / 10; }
            if carry > 0 { digits.insert(0, carry); }
        }
    } else {
        for _ in 0..(-ex) { // multiply by 5, shift point
            let mut carry = 0u8;
            for d in digits.iter_mut().rev() { let v = *d * 5 + carry; *d = v % 10; carry = v / 10; }
            if carry > 0 { digits.insert(0, carry); }
            point_shift += 1;
        }
    }
    match r.below(3) {
        0 => {}
        1 => digits.push(1),
        _ => { // a hair below: ...d  →  ...(d-1)9999
            if let Some(last) = digits.iter().rposition(|d| *d > 0) { digits[last] -= 1; for d in digits.iter_mut().skip(last + 1) { *d = 9; } digits.push(9); }
        }
    }
    let extra = digits.len() as i64;
    let text: String = digits.iter().map(|d| (b'0' + d) as char).collect();
    // value = 0.text * 10^(len - point_shift)
    format!("0.{}e{}", text, extra - point_shift - if r.below(3) == 1 { 1 } else { 0 } + if r.below(3) == 1 { 1 } else { 0 })
}

fn stream_f64parse(a: &Args) {
    let mut s = Stream::create(&a.out, "f64parse");
    for i in 0..a.cases {
        if a.only.is_some_and(|o| o != i) {
            continue;
        }
        let mut r = Rng::for_case(a.seed, "f64parse", i);
        let text = gen_float_text(&mut r);
        let op = format!("f64parse {}", hexs(&text));
        let got = text.parse::<f64>();
        let imp = match &got { Ok(f) => format!("{:016x}", f.to_bits()), Err(_) => "x".to_string() };
        s.tally(match &got { Err(_) => "rejected", Ok(f) if f.is_nan() => "nan", Ok(f) if f.is_infinite() => "inf", Ok(f) if *f == 0.0 => "zero", Ok(f) if f.abs() < f64::MIN_POSITIVE => "subnormal", Ok(_) => "normal" });
        if text.len() > 30 { s.tally("long_text"); }
        s.case(&op, &imp, got.is_ok());
        // oracle (assumption of the value theorems): Display → parse gives the same float back
        let f = gen_f64_any(&mut r);
        let back = f.to_string().parse::<f64>();
        match back {
            Ok(g) if g.to_bits() == f.to_bits() || (f.is_nan() && g.is_nan()) => s.oracle_ok(),
            _ => s.oracle_fail(i, "-", &format!("f64 Display/parse round trip broken for bits {:016x}", f.to_bits())),
        }
    }
    s.finish();
}

// ------------------------------------------------------------------ stream: flush

#[derive(Clone, Debug)]
enum Ft {
    String, U64, I64, F64, Bool, Timestamp, Date, Opt(Box<Ft>), Enum(Vec<String>),
}

impl Ft {
    fn tok(&self) -> String {
        match self {
            Ft::String => "string".into(), Ft::U64 => "u64".into(), Ft::I64 => "i64".into(), Ft::F64 => "f64".into(),
            Ft::Bool => "bool".into(), Ft::Timestamp => "timestamp".into(), Ft::Date => "date".into(),
            Ft::Opt(i) => format!("?{}", i.tok()),
            Ft::Enum(vs) => format!("e{}", vs.iter().map(|v| hexs(v)).collect::<Vec<_>>().join(",")),
        }
    }
    fn real(&self) -> FieldType {
        match self {
            Ft::String => FieldType::String, Ft::U64 => FieldType::U64, Ft::I64 => FieldType::I64, Ft::F64 => FieldType::F64,
            Ft::Bool => FieldType::Bool, Ft::Timestamp => FieldType::Timestamp, Ft::Date => FieldType::Date,
            Ft::Opt(i) => FieldType::Optional(Box::new(i.real())),
            Ft::Enum(vs) => FieldType::Enum(EnumType { variants: vs.clone() }),
        }
    }
    fn is_stringy(&self) -> bool {
        match self { Ft::String | Ft::Enum(_) => true, Ft::Opt(i) => i.is_stringy(), _ => false }
    }
    fn is_float(&self) -> bool {
        match self { Ft::F64 => true, Ft::Opt(i) => i.is_float(), _ => false }
    }
}

fn gen_ft(r: &mut Rng) -> Ft {
    let base = |r: &mut Rng| match r.below(9) {
        0 | 1 => Ft::String, 2 => Ft::U64, 3 => Ft::I64, 4 | 5 => Ft::F64, 6 => Ft::Bool, 7 => Ft::Timestamp, _ => Ft::Date,
    };
    match r.below(10) {
        0 => {
            let pool = ["red", "green", "true", "null", "12", "1.5", " x ", "A", "é", "[1]"];
            let n = 1 + r.below(4) as usize;
            let mut vs: Vec<String> = vec![];
            while vs.len() < n { let v = r.pick(&pool).to_string(); if !vs.contains(&v) { vs.push(v); } }
            Ft::Enum(vs)
        }
        1..=3 => Ft::Opt(Box::new(base(r))),
        _ => base(r),
    }
}

/// A value `type_allows_value` accepts for the type (after time normalisation).
fn gen_conforming(r: &mut Rng, ft: &Ft) -> Option<Json> {
    Some(match ft {
        Ft::String => Json::String(gen_string(r)),
        Ft::U64 => json!(gen_u64(r)),
        Ft::I64 | Ft::Timestamp | Ft::Date => json!(gen_i64(r)),
        Ft::F64 => match r.below(6) { 0 => json!(gen_i64(r)), 1 => json!(gen_u64(r)), _ => json!(gen_f64_finite(r)) },
        Ft::Bool => json!(r.chance(1, 2)),
        Ft::Enum(vs) => Json::String(r.pick(vs).clone()),
        Ft::Opt(inner) => match r.below(4) { 0 => Json::Null, 1 => return None, _ => return gen_conforming(r, inner) },
    })
}

struct FlushEnv {
    registry: Arc<RwLock<SchemaRegistry>>,
    dir: PathBuf,
}

fn payload_json(e: &Event, field: &str) -> Option<Json> {
    e.payload.get(field).map(|v| v.to_json())
}

async fn read_segment(segdir: &Path, seg: &str, uid: &str, fields: &[String]) -> Result<(Vec<Event>, HashMap<String, (PhysicalType, Vec<ScalarValue>, Vec<String>)>), String> {
    let mut values = HashMap::new();
    let mut raw = HashMap::new();
    for f in fields {
        let snap = ColumnReader::load_for_zone_snapshot(segdir, seg, uid, f, 0, None).map_err(|e| format!("{f}: {e:?}"))?;
        raw.insert(f.clone(), (snap.physical_type(), snap.clone().into_scalar_values(), snap.to_strings()));
        values.insert(f.clone(), snap.into_values());
    }
    let mut zone = CandidateZone::new(0, seg.to_string());
    zone.set_values(values);
    let events = ConditionEvaluator::new().evaluate_zones(vec![zone]);
    Ok((events, raw))
}

async fn flush_case(env: &FlushEnv, i: u64, r: &mut Rng, s: &mut Stream) {
    let k = 1 + r.below(5) as usize;
    let fts: Vec<Ft> = (0..k).map(|_| gen_ft(r)).collect();
    let names: Vec<String> = (0..k).map(|c| format!("f{c}")).collect();
    let n = if r.chance(1, 8) { 9 + r.below(20) as usize } else { 1 + r.below(6) as usize };
    let et = format!("ev{}_{}", i, r.below(1 << 30));
    {
        let mut fields = HashMap::new();
        for (nm, ft) in names.iter().zip(&fts) { fields.insert(nm.clone(), ft.real()); }
        env.registry.write().await.define(&et, MiniSchema { fields }).expect("define");
    }
    let uid = env.registry.read().await.get_uid(&et).unwrap();
    let mut t = Tables::default();
    t.add_scalar(&ScalarValue::Null);
    t.add_string("");
    let mut vals: Vec<Vec<Option<Json>>> = vec![];
    let mut events = vec![];
    for row in 0..n {
        let mut eb = EventBuilder::new();
        eb.event_type = et.clone();
        eb.context_id = format!("c{}", row % 3);
        eb.timestamp = 1_700_000_000 + row as u64;
        eb.event_id = EventId::from(1000 + row as u64);
        let mut rowvals = vec![];
        let mut obj = serde_json::Map::new();
        for (nm, ft) in names.iter().zip(&fts) {
            let v = gen_conforming(r, ft);
            if let Some(j) = &v { t.add_json(j); obj.insert(nm.clone(), j.clone()); }
            rowvals.push(v);
        }
        let mut ev = eb.build();
        ev.set_payload_json(Json::Object(obj));
        events.push(ev);
        vals.push(rowvals);
    }
    let op = format!(
        "flush {} {} {} {}{}",
        k,
        fts.iter().map(|f| f.tok()).collect::<Vec<_>>().join(" "),
        n,
        vals.iter().flat_map(|row| row.iter().map(|v| v.as_ref().map(json_tok).unwrap_or("-".into()))).collect::<Vec<_>>().join(" "),
        t.render(true)
    );
    for ft in &fts { s.tally(&format!("type={}", match ft { Ft::Enum(_) => "enum".to_string(), Ft::Opt(i) => format!("?{}", match **i { Ft::Enum(_) => "enum".into(), ref x => x.tok() }), x => x.tok() })); }
    s.tally_n("events", n as u64);

    // ---- the real path
    let seg1 = env.dir.join(format!("{i}")).join("00001");
    std::fs::create_dir_all(&seg1).unwrap();
    let plan = ZonePlan { id: 0, start_index: 0, end_index: n - 1, events: events.clone(), uid: uid.clone(), event_type: et.clone(), segment_id: 1, created_at: 1 };
    if let Err(e) = ColumnWriter::new(seg1.clone(), Arc::clone(&env.registry)).write_all(&[plan]).await {
        s.tally("zone_writer_error");
        s.case(&op, &format!("write-error {e:?}"), false);
        s.oracle_fail(i, "-", &format!("ColumnWriter failed: {e:?}"));
        return;
    }
    let present: Vec<String> = names.iter().enumerate().filter(|(c, _)| vals.iter().any(|row| row[*c].is_some())).map(|(_, nm)| nm.clone()).collect();
    let mut load: Vec<String> = vec!["context_id".into(), "event_type".into(), "timestamp".into(), "event_id".into()];
    load.extend(present.iter().cloned());
    let (flushed, raw) = match read_segment(&seg1, "00001", &uid, &load).await {
        Ok(x) => x,
        Err(e) => { s.case(&op, &format!("read-error {e}"), false); s.oracle_fail(i, "-", &format!("segment read failed: {e}")); return; }
    };
    // ---- one compaction pass over the value path: scalars → ZoneRow → ZonePlan::from_rows → writer with type hints
    let mut catalog = ColumnTypeCatalog::new();
    for (f, (p, _, _)) in &raw { catalog.record((et.clone(), f.clone()), *p); }
    let rows: Vec<ZoneRow> = (0..n)
        .map(|idx| ZoneRow {
            segment_id: 1,
            zone_id: 0,
            event_id: EventId::from(raw["event_id"].2[idx].parse::<u64>().unwrap_or(0)),
            context_id: raw["context_id"].2[idx].clone(),
            timestamp: raw["timestamp"].2[idx].clone(),
            event_type: raw["event_type"].2[idx].clone(),
            payload: present.iter().map(|f| (f.clone(), raw[f].1[idx].clone())).collect(),
        })
        .collect();
    let seg2 = env.dir.join(format!("{i}")).join("10000");
    std::fs::create_dir_all(&seg2).unwrap();
    let plan2 = ZonePlan::from_rows(rows, uid.clone(), 10000, 0, 1).expect("from_rows");
    let compacted = match ColumnWriter::new(seg2.clone(), Arc::clone(&env.registry)).with_type_hints(catalog).write_all(&[plan2]).await {
        Ok(()) => read_segment(&seg2, "10000", &uid, &load).await.map(|x| x.0),
        Err(e) => Err(format!("{e:?}")),
    };
    let compacted = match compacted {
        Ok(x) => x,
        Err(e) => { s.case(&op, &format!("compact-error {e}"), false); s.oracle_fail(i, "-", &format!("recompaction failed: {e}")); return; }
    };

    let mut cells = vec![];
    let mut fail: Option<(&'static str, String)> = None;
    let mut core_ok = flushed.len() == n && compacted.len() == n;
    for row in 0..n {
        for c in 0..k {
            let stored = &vals[row][c];
            let mem = stored.as_ref().map(|j| ScalarValue::from(j.clone()).to_json());
            let wal = stored.as_ref().and_then(|j| wal_roundtrip(&ScalarValue::from(j.clone()))).map(|w| w.to_json());
            let fl = flushed.get(row).and_then(|e| payload_json(e, &names[c]));
            let cp = compacted.get(row).and_then(|e| payload_json(e, &names[c]));
            let show = |x: &Option<Json>| x.as_ref().map(json_tok).unwrap_or("-".into());
            cells.push(format!("{},{},{},{}", show(&mem), show(&wal), show(&fl), show(&cp)));
            // oracle: every tier renders the stored value (an absent optional field reads as null / absent)
            let want = stored.clone().unwrap_or(Json::Null);
            for (tier, got) in [("memtable", &mem), ("wal", &wal), ("flushed", &fl), ("compacted", &cp)] {
                let g = match got { Some(g) => g.clone(), None => Json::Null };
                if stored.is_none() && (tier == "memtable" || tier == "wal") { continue; }
                if json_same(&g, &want) { continue; }
                let ft = &fts[c];
                let class: &'static str = match &want {
                    Json::Null if ft.is_stringy() && g == json!("") && (tier == "flushed" || tier == "compacted") => "null-as-empty-string",
                    Json::String(x) if reparse_class(x) => "string-reparsed-as-json",
                    Json::Number(nn) if tier == "wal" && wal_float_class(nn) => "wal-float-text-roundtrip",
                    Json::String(x) if (tier == "flushed" || tier == "compacted") && retyped_class(x) => "flushed-string-retyped",
                    Json::Number(nn) if ft.is_float() && !nn.is_f64() && (tier == "flushed" || tier == "compacted") && int_not_exact(nn) => "int-in-float-column-rounded",
                    _ => "-",
                };
                let d = format!("{tier} row {row} field {} ({}): stored {} rendered {}", names[c], ft.tok(), json_tok(&want), json_tok(&g));
                if fail.as_ref().map_or(true, |f| f.0 != "-") { fail = Some((class, d)); }
            }
        }
        // core fields never altered
        for evs in [&flushed, &compacted] {
            if let Some(e) = evs.get(row) {
                if e.context_id != events[row].context_id || e.event_type != et || e.timestamp != events[row].timestamp || e.event_id().raw() != 1000 + row as u64 { core_ok = false; }
            }
        }
    }
    if !core_ok && fail.as_ref().map_or(true, |f| f.0 != "-") {
        fail = Some(("-", "core field (context_id / event_type / timestamp / event_id) or row count altered by flush".into()));
    }
    s.case(&op, &cells.join(" "), true);
    match fail { None => s.oracle_ok(), Some((c, d)) => s.oracle_fail(i, c, &d) }
    let _ = std::fs::remove_dir_all(env.dir.join(format!("{i}")));
}

/// `EventBuilder::add_payload_field` would give the string another type.
fn retyped_class(s: &str) -> bool {
    let t = s.trim();
    matches!(t, "true" | "false" | "null") || t.parse::<i64>().is_ok() || t.parse::<u64>().is_ok() || t.parse::<f64>().is_ok_and(|f| f.is_finite())
}

fn int_not_exact(n: &serde_json::Number) -> bool {
    if let Some(i) = n.as_i64() { (i as f64) as i128 != i as i128 } else if let Some(u) = n.as_u64() { (u as f64) as u128 != u as u128 } else { false }
}

fn write_config(out: &Path) -> PathBuf {
    let base = out.join("engine");
    std::fs::create_dir_all(&base).unwrap();
    let src = std::fs::read_to_string("/repo/config/test.toml").expect("test.toml");
    let d = |x: &str| base.join(x).to_string_lossy().to_string();
    let cfg = src
        .replace("\"../data/wal/archived/\"", &format!("\"{}\"", d("wal/archived")))
        .replace("\"../data/wal/\"", &format!("\"{}\"", d("wal")))
        .replace("\"../data/cols\"", &format!("\"{}\"", d("cols")))
        .replace("\"../data/index/\"", &format!("\"{}\"", d("index")))
        .replace("\"../data/schema/\"", &format!("\"{}\"", d("schema")))
        .replace("\"../data/logs\"", &format!("\"{}\"", d("logs")))
        .replace("stdout_level = \"debug\"", "stdout_level = \"error\"")
        .replace("auth_token = \"mysecrettoken\"", "auth_token = \"mysecrettoken\"\nbackpressure_threshold = 90");
    let p = base.join("cfg.toml");
    std::fs::write(&p, cfg).unwrap();
    p
}

fn stream_flush(a: &Args, rt: &tokio::runtime::Runtime) {
    let mut s = Stream::create(&a.out, "flush");
    let dir = a.out.join("flush_files");
    let _ = std::fs::remove_dir_all(&dir);
    std::fs::create_dir_all(&dir).unwrap();
    let registry = Arc::new(RwLock::new(SchemaRegistry::new_with_path(dir.join("schemas.bin")).expect("registry")));
    let env = FlushEnv { registry, dir: dir.clone() };
    for i in 0..a.cases {
        if a.only.is_some_and(|o| o != i) {
            continue;
        }
        let mut r = Rng::for_case(a.seed, "flush", i);
        rt.block_on(flush_case(&env, i, &mut r, &mut s));
    }
    let _ = std::fs::remove_dir_all(&dir);
    s.finish();
}

// ------------------------------------------------------------------ stream: project

async fn project_case(dir: &Path, registry: &Arc<RwLock<SchemaRegistry>>, i: u64, r: &mut Rng, s: &mut Stream) {
    use snel_db::command::parser::command::parse_command;
    use snel_db::engine::core::read::flow::shard_pipeline::build_memtable_flow;
    use snel_db::engine::core::read::flow::{BatchPool, FlowContext, FlowMetrics, FlowTelemetry};
    use snel_db::engine::core::{MemTable, QueryPlan};

    let k = 1 + r.below(5) as usize;
    let names: Vec<String> = (0..k).map(|c| format!("p{c}")).collect();
    let et = format!("pj{}_{}", i, r.below(1 << 30));
    {
        let mut fields = HashMap::new();
        for nm in &names { fields.insert(nm.clone(), FieldType::I64); }
        registry.write().await.define(&et, MiniSchema { fields }).expect("define");
    }
    // RETURN list: payload fields, core fields, unknown names, duplicates
    let ret: Option<Vec<String>> = match r.below(8) {
        0 => None,
        1 => Some(vec![]),
        _ => {
            let m = 1 + r.below(4) as usize;
            Some((0..m).map(|_| match r.below(8) {
                0 => "context_id".to_string(),
                1 => "timestamp".to_string(),
                2 => "nosuch".to_string(),
                3 => "event_id".to_string(),
                _ => r.pick(&names).clone(),
            }).collect())
        }
    };
    let cmd_text = match &ret {
        None => format!("QUERY {et}"),
        Some(v) => format!("QUERY {et} RETURN [{}]", v.join(", ")),
    };
    let cmd = match parse_command(&cmd_text) {
        Ok(c) => c,
        Err(_) => { s.tally("parse_error"); return; }
    };
    let seg_ids = Arc::new(std::sync::RwLock::new(Vec::<String>::new()));
    let plan = QueryPlan::new(cmd, registry, dir, &seg_ids, None).await.expect("plan");
    let input_cols = plan.columns_to_load().await;
    let nrows = 1 + r.below(4) as usize;
    let mut mt = MemTable::new(100);
    let mut stored: Vec<BTreeMap<String, i64>> = vec![];
    for row in 0..nrows {
        let mut eb = EventBuilder::new();
        eb.event_type = et.clone();
        eb.context_id = format!("c{row}");
        eb.timestamp = 1_700_000_000 + row as u64;
        eb.event_id = EventId::from(500 + row as u64);
        let mut m = BTreeMap::new();
        for (c, nm) in names.iter().enumerate() {
            let v = (row as i64 + 1) * 100 + c as i64;
            eb.payload.insert(nm.clone(), ScalarValue::Int64(v));
            m.insert(nm.clone(), v);
        }
        stored.push(m);
        mt.insert(eb.build()).unwrap();
    }
    let ctx = Arc::new(FlowContext::new(8, BatchPool::new(8).unwrap(), FlowMetrics::new(), None::<&str>, FlowTelemetry::default()));
    let handle = build_memtable_flow(Arc::new(plan), Some(Arc::new(mt)), vec![], ctx, None).await.expect("flow");
    let header: Vec<String> = handle.schema.columns().iter().map(|c| c.name.clone()).collect();
    let mut rx = handle.receiver;
    let mut rows: Vec<Vec<ScalarValue>> = vec![];
    while let Some(b) = rx.recv().await {
        for idx in 0..b.len() { rows.push(b.row(idx).unwrap()); }
    }
    let payload_sorted: Vec<String> = { let mut p = names.clone(); p.sort(); p };
    let op = format!(
        "project {} | {} | {}",
        input_cols.iter().map(|c| hexs(c)).collect::<Vec<_>>().join(" "),
        match &ret { None => "none".to_string(), Some(v) => v.iter().map(|c| hexs(c)).collect::<Vec<_>>().join(" ") },
        payload_sorted.iter().map(|c| hexs(c)).collect::<Vec<_>>().join(" ")
    );
    let identity = matches!(&ret, None) || ret.as_ref().is_some_and(|v| v.is_empty());
    // without RETURN the header order is whatever the (hash-ordered) column list was: compare as a set
    let imp = if identity {
        let mut h = header.clone(); h.sort();
        h.iter().map(|c| hexs(c)).collect::<Vec<_>>().join(" ")
    } else {
        header.iter().map(|c| hexs(c)).collect::<Vec<_>>().join(" ")
    };
    let op = if identity { format!("{op} | sorted") } else { op };
    let want_payload: BTreeSet<String> = ret.as_ref().map(|v| v.iter().filter(|f| names.contains(f)).cloned().collect()).unwrap_or_default();
    s.tally(&format!("return_payload_fields={}", if identity { "all".to_string() } else { want_payload.len().to_string() }));
    s.case(&op, &imp, true);
    // oracle: core fields kept, exactly the requested schema fields, every cell is the stored value of its header
    let mut fail: Option<(&'static str, String)> = None;
    for core in ["context_id", "event_type", "timestamp", "event_id"] {
        if !header.iter().any(|h| h == core) { fail = Some(("-", format!("core field {core} dropped by {cmd_text}"))); }
    }
    let got_payload: BTreeSet<String> = header.iter().filter(|h| names.contains(h)).cloned().collect();
    if !identity && got_payload != want_payload { fail = Some(("-", format!("payload columns {got_payload:?} for {cmd_text}"))); }
    if identity && got_payload.len() != names.len() { fail = Some(("-", format!("payload columns {got_payload:?} for {cmd_text}"))); }
    if rows.len() != nrows { fail = Some(("-", format!("{} rows for {nrows} events", rows.len()))); }
    for row in &rows {
        let ctx_idx = header.iter().position(|h| h == "context_id");
        let key = ctx_idx.and_then(|x| row.get(x)).and_then(|v| v.as_str().map(|x| x.to_string()));
        // find the stored event by event_id cell (core cells may themselves be permuted: search by any matching id)
        let ev_idx = header.iter().position(|h| h == "event_id").and_then(|x| row.get(x)).and_then(|v| v.as_i64()).map(|x| x - 500);
        let Some(ei) = ev_idx.filter(|x| *x >= 0 && (*x as usize) < nrows) else {
            let class = if want_payload.len() >= 2 { "return-cells-permuted" } else { "-" };
            fail = Some((class, format!("event_id cell is not an id: row {:?} header {:?} for {cmd_text}", row.iter().map(scalar_tok).collect::<Vec<_>>(), header)));
            continue;
        };
        let st = &stored[ei as usize];
        for (h, cell) in header.iter().zip(row.iter()) {
            let ok = match h.as_str() {
                "context_id" => key.as_deref() == Some(&format!("c{ei}")),
                "event_type" => cell.as_str() == Some(et.as_str()),
                "timestamp" => cell.as_i64() == Some(1_700_000_000 + ei),
                "event_id" => true,
                p => st.get(p).is_some_and(|v| *cell == ScalarValue::Int64(*v)),
            };
            if !ok {
                let class = if want_payload.len() >= 2 { "return-cells-permuted" } else { "-" };
                if fail.as_ref().map_or(true, |f| f.0 != "-") {
                    fail = Some((class, format!("cell under header {h} is {} for {cmd_text}; header {:?} row {:?}", scalar_tok(cell), header, row.iter().map(scalar_tok).collect::<Vec<_>>())));
                }
            }
        }
    }
    match fail { None => s.oracle_ok(), Some((c, d)) => s.oracle_fail(i, c, &d) }
}

fn stream_project(a: &Args, rt: &tokio::runtime::Runtime) {
    let mut s = Stream::create(&a.out, "project");
    let dir = a.out.join("project_files");
    let _ = std::fs::remove_dir_all(&dir);
    std::fs::create_dir_all(&dir).unwrap();
    let registry = Arc::new(RwLock::new(SchemaRegistry::new_with_path(dir.join("schemas.bin")).expect("registry")));
    for i in 0..a.cases {
        if a.only.is_some_and(|o| o != i) {
            continue;
        }
        let mut r = Rng::for_case(a.seed, "project", i);
        rt.block_on(project_case(&dir, &registry, i, &mut r, &mut s));
    }
    let _ = std::fs::remove_dir_all(&dir);
    s.finish();
}

// ------------------------------------------------------------------ stream: memrows (real memtable source, row by row)

/// optional field kinds of the memrows / e2e streams: (name, DEFINE type)
const OPT_FIELDS: &[(&str, &str)] = &[
    ("oi", "int | null"),
    ("of", "float | null"),
    ("ob", "bool | null"),
    ("ou", "u64 | null"),
    ("od", "date | null"),
    ("os", "string | null"),
];

fn gen_opt_value(r: &mut Rng, field: &str, tag: u64) -> Json {
    match field {
        "oi" => json!(match r.below(4) { 0 => i64::MIN + tag as i64, 1 => i64::MAX - tag as i64, _ => r.range(-500, 500) * 7 + tag as i64 }),
        "of" => json!((r.range(-4000, 4000) as f64) / 4.0 + tag as f64),
        "ob" => json!(r.chance(1, 2)),
        "ou" => json!(match r.below(3) { 0 => u64::MAX - tag, 1 => I64_MAX_U + 1 + tag, _ => r.below(100000) + tag }),
        "od" => json!(86400i64 * (15000 + r.below(4000) as i64 + tag as i64)),
        _ => Json::String(format!("w{}{}", ["alpha", "beta", "gamma"][r.below(3) as usize], tag)),
    }
}

async fn memrows_case(dir: &Path, registry: &Arc<RwLock<SchemaRegistry>>, i: u64, r: &mut Rng, s: &mut Stream) {
    use snel_db::command::parser::command::parse_command;
    use snel_db::engine::core::read::flow::shard_pipeline::build_memtable_flow;
    use snel_db::engine::core::read::flow::{BatchPool, FlowContext, FlowMetrics, FlowTelemetry};
    use snel_db::engine::core::{MemTable, QueryPlan};

    let et = format!("mr{}_{}", i, r.below(1 << 30));
    {
        let mut fields = HashMap::new();
        fields.insert("k".to_string(), FieldType::I64);
        fields.insert("oi".to_string(), FieldType::Optional(Box::new(FieldType::I64)));
        fields.insert("of".to_string(), FieldType::Optional(Box::new(FieldType::F64)));
        fields.insert("ob".to_string(), FieldType::Optional(Box::new(FieldType::Bool)));
        fields.insert("ou".to_string(), FieldType::Optional(Box::new(FieldType::U64)));
        fields.insert("od".to_string(), FieldType::Optional(Box::new(FieldType::Date)));
        fields.insert("os".to_string(), FieldType::Optional(Box::new(FieldType::String)));
        registry.write().await.define(&et, MiniSchema { fields }).expect("define");
    }
    let filter_ctx: Option<String> = if r.chance(1, 3) { Some(format!("c{}", r.below(3))) } else { None };
    let ret_field: Option<&str> = if r.chance(1, 2) { Some(OPT_FIELDS[r.below(OPT_FIELDS.len() as u64) as usize].0) } else { None };
    let mut cmd_text = format!("QUERY {et}");
    if let Some(c) = &filter_ctx { cmd_text.push_str(&format!(" FOR {c}")); }
    if let Some(f) = ret_field { cmd_text.push_str(&format!(" RETURN [{f}]")); }
    let Ok(cmd) = parse_command(&cmd_text) else { s.tally("parse_error"); return; };
    let seg_ids = Arc::new(std::sync::RwLock::new(Vec::<String>::new()));
    let plan = QueryPlan::new(cmd, registry, dir, &seg_ids, None).await.expect("plan");

    // events: several rows per context, every optional key carried / explicit null / omitted
    let n_tables = 1 + r.below(3) as usize; // active + passives
    let mut tables: Vec<MemTable> = (0..n_tables).map(|_| MemTable::new(1000)).collect();
    let n = 2 + r.below(14) as usize;
    for row in 0..n {
        let mut eb = EventBuilder::new();
        eb.event_type = et.clone();
        eb.context_id = format!("c{}", r.below(3));
        eb.timestamp = 1_700_000_000 + row as u64;
        eb.event_id = EventId::from(9000 + row as u64);
        eb.payload.insert("k".into(), ScalarValue::Int64(row as i64));
        for (f, _) in OPT_FIELDS {
            match r.below(5) {
                0 | 1 => { eb.payload.insert(f.to_string(), ScalarValue::from(gen_opt_value(r, f, row as u64))); }
                2 => { eb.payload.insert(f.to_string(), ScalarValue::Null); }
                _ => {} // key omitted
            }
        }
        let t = r.below(n_tables as u64) as usize;
        tables[t].insert(eb.build()).unwrap();
    }
    // scan order of the real structures: active, then passives, each in its own iteration order
    let scan: Vec<Event> = tables.iter().flat_map(|t| t.iter().cloned().collect::<Vec<_>>()).collect();
    let mut it = tables.into_iter();
    let active = Arc::new(it.next().unwrap());
    let passives: Vec<Arc<tokio::sync::Mutex<MemTable>>> = it.map(|t| Arc::new(tokio::sync::Mutex::new(t))).collect();
    let ctx = Arc::new(FlowContext::new(4, BatchPool::new(4).unwrap(), FlowMetrics::new(), None::<&str>, FlowTelemetry::default()));
    let handle = build_memtable_flow(Arc::new(plan), Some(active), passives, ctx, None).await.expect("flow");
    let header: Vec<String> = handle.schema.columns().iter().map(|c| c.name.clone()).collect();
    let mut rx = handle.receiver;
    let mut rows: Vec<Vec<ScalarValue>> = vec![];
    while let Some(b) = rx.recv().await {
        for idx in 0..b.len() { rows.push(b.row(idx).unwrap()); }
    }
    let mut op = format!("memrows {} {} {} {}", header.len(), header.iter().map(|h| hexs(h)).collect::<Vec<_>>().join(" "),
        filter_ctx.as_ref().map(|c| hexs(c)).unwrap_or("*".into()), scan.len());
    for e in &scan {
        op.push_str(&format!(" {} {} {} {} {}", hexs(&e.context_id), hexs(&e.event_type), e.timestamp, e.event_id().raw(), e.payload.len()));
        for (kname, v) in &e.payload { op.push_str(&format!(" {} {}", hexs(kname), scalar_tok(v))); }
    }
    let imp = if rows.is_empty() { "-".to_string() } else {
        rows.iter().map(|row| row.iter().map(scalar_tok).collect::<Vec<_>>().join(" ")).collect::<Vec<_>>().join(" ; ")
    };
    // distribution: a kept row omitting an optional non-string key after a kept row carrying it
    let kept: Vec<&Event> = scan.iter().filter(|e| filter_ctx.as_ref().map_or(true, |c| &e.context_id == c)).collect();
    let mut stale_possible = false;
    for (f, _) in OPT_FIELDS.iter().filter(|(f, _)| *f != "os" && header.iter().any(|h| h == f)) {
        let mut carried = false;
        for e in &kept {
            match e.payload.get(*f) { Some(v) if !v.is_null() => carried = true, None if carried => stale_possible = true, _ => {} }
        }
    }
    if stale_possible { s.tally("omitted_nonstring_key_after_carrying_row"); }
    s.tally(&format!("memtables={n_tables}"));
    s.tally(if ret_field.is_some() { "return_one_field" } else { "return_all" });
    if filter_ctx.is_some() { s.tally("for_context"); }
    s.tally_n("rows", rows.len() as u64);
    s.case(&op, &imp, !rows.is_empty());
    // oracle: every cell is the stored value of its own event (absent key = null)
    let mut fail: Option<String> = None;
    if rows.len() != kept.len() { fail = Some(format!("{} rows for {} matching events ({cmd_text})", rows.len(), kept.len())); }
    for (row, e) in rows.iter().zip(kept.iter()) {
        for (h, cell) in header.iter().zip(row.iter()) {
            let want = e.get_field_scalar(h).unwrap_or(ScalarValue::Null);
            if *cell != want && fail.is_none() {
                fail = Some(format!("{cmd_text}: row k={:?} column {h}: stored {} returned {}", e.payload.get("k"), scalar_tok(&want), scalar_tok(cell)));
            }
        }
    }
    match fail { None => s.oracle_ok(), Some(d) => s.oracle_fail(i, "-", &d) }
}

fn stream_memrows(a: &Args, rt: &tokio::runtime::Runtime) {
    let mut s = Stream::create(&a.out, "memrows");
    let dir = a.out.join("memrows_files");
    let _ = std::fs::remove_dir_all(&dir);
    std::fs::create_dir_all(&dir).unwrap();
    let registry = Arc::new(RwLock::new(SchemaRegistry::new_with_path(dir.join("schemas.bin")).expect("registry")));
    for i in 0..a.cases {
        if a.only.is_some_and(|o| o != i) {
            continue;
        }
        let mut r = Rng::for_case(a.seed, "memrows", i);
        rt.block_on(memrows_case(&dir, &registry, i, &mut r, &mut s));
    }
    let _ = std::fs::remove_dir_all(&dir);
    s.finish();
}

// ------------------------------------------------------------------ stream: e2e (the whole engine, every tier)

struct Stored {
    ctx: String,
    ts: u64,
    k: i64,
    vals: BTreeMap<String, Option<Json>>, // optional field -> Some(value | null) or None (key omitted)
}

struct E2e<'a> {
    s: &'a mut Stream,
    case: u64,
    stored: Vec<Stored>,
    fail: Option<(&'static str, String)>,
}

impl<'a> E2e<'a> {
    fn note(&mut self, class: &'static str, d: String) {
        if self.fail.as_ref().map_or(true, |f| f.0 != "-") {
            self.fail = Some((class, d));
        }
    }
    /// One read: rows identified by their (unique) timestamp; every payload cell in the header is
    /// compared with the stored payload of that event.
    fn check_read(&mut self, tier: &str, memtier: bool, cmd: &str, reply: Option<snel_harness::sys::Reply>, expect_ctx: Option<&str>) {
        let Some(rep) = reply else { self.note("-", format!("{tier}: engine died on {cmd}")); return; };
        if !rep.ok() {
            // an empty REPLAY/QUERY result may be reported as not-found: only then accept
            let expected_rows = self.stored.iter().filter(|e| expect_ctx.map_or(true, |c| e.ctx == c)).count();
            if expected_rows > 0 { self.note("-", format!("{tier}: {cmd} -> status {} {}", rep.status, rep.message)); }
            return;
        }
        let Some(ts_idx) = rep.columns.iter().position(|c| c == "timestamp") else { self.note("-", format!("{tier}: {cmd}: no timestamp column")); return; };
        let expected_rows = self.stored.iter().filter(|e| expect_ctx.map_or(true, |c| e.ctx == c)).count();
        if rep.rows.len() != expected_rows { self.s.tally("row_count_differs"); }
        self.s.tally(&format!("reads_{tier}"));
        let mut carried: BTreeSet<String> = BTreeSet::new();
        let mut stale_possible = false;
        for row in &rep.rows {
            let ts = row.get(ts_idx).and_then(|v| v.as_u64()).unwrap_or(0);
            let Some(ev) = self.stored.iter().find(|e| e.ts == ts) else {
                let d = format!("{tier}: {cmd}: row with unknown timestamp {ts}");
                self.note("-", d);
                continue;
            };
            let (evk, evctx) = (ev.k, ev.ctx.clone());
            let vals = ev.vals.clone();
            for (h, cell) in rep.columns.iter().zip(row.iter()) {
                if h == "context_id" { if cell.as_str() != Some(evctx.as_str()) { self.note("-", format!("{tier}: {cmd}: context_id {cell} for event k={evk} of {evctx}")); } continue; }
                if h == "k" { if cell.as_i64() != Some(evk) { self.note("-", format!("{tier}: {cmd}: k {cell} for event k={evk}")); } continue; }
                let Some(st) = vals.get(h) else { continue };
                if h != "os" {
                    match st { Some(v) if !v.is_null() => { carried.insert(h.clone()); } None if carried.contains(h) => stale_possible = true, _ => {} }
                }
                let want = st.clone().unwrap_or(Json::Null);
                if json_same(cell, &want) { continue; }
                let class: &'static str = if h == "os" && want.is_null() && *cell == json!("") && !memtier { "null-as-empty-string" } else { "-" };
                self.note(class, format!("{tier}: {cmd}: event k={evk} ({evctx}) field {h}: stored {} ({}) returned {}", json_tok(&want), if st.is_none() { "key omitted" } else { "key present" }, json_tok(cell)));
            }
        }
        if memtier && stale_possible { self.s.tally("memtier_reads_with_omitted_nonstring_key_after_carrying_row"); }
    }
}

fn e2e_reads(x: &mut E2e, sess: &mut snel_harness::sys::Session, et: &str, tier: &str, memtier: bool, r: &mut Rng) {
    let q = format!("QUERY {et}");
    let rep = sess.cmd(&q);
    x.check_read(tier, memtier, &q, rep, None);
    // one payload field at a time (two or more have a nondeterministic cell order, a recorded finding)
    let mut fields: Vec<&str> = OPT_FIELDS.iter().map(|f| f.0).collect();
    r.shuffle(&mut fields);
    for f in fields.iter().take(3) {
        let q = format!("QUERY {et} RETURN [{f}]");
        let rep = sess.cmd(&q);
        x.check_read(tier, memtier, &q, rep, None);
    }
    let ctxs: BTreeSet<String> = x.stored.iter().map(|e| e.ctx.clone()).collect();
    for c in ctxs {
        let q = format!("REPLAY {et} FOR {c}");
        let rep = sess.cmd(&q);
        x.check_read(tier, memtier, &q, rep, Some(&c));
        let f = fields[r.below(fields.len() as u64) as usize];
        let q = format!("REPLAY {et} FOR {c} RETURN [{f}]");
        let rep = sess.cmd(&q);
        x.check_read(tier, memtier, &q, rep, Some(&c));
    }
}

fn e2e_store(x: &mut E2e, sess: &mut snel_harness::sys::Session, et: &str, r: &mut Rng, count: usize) {
    for _ in 0..count {
        let idx = x.stored.len() as u64;
        let ctx = format!("c{}", r.below(2));
        let ts = 1_700_000_000 + idx;
        let mut obj = serde_json::Map::new();
        obj.insert("k".into(), json!(idx));
        let mut vals = BTreeMap::new();
        for (f, _) in OPT_FIELDS {
            // the first event of a context carries everything, later ones mix
            let first = !x.stored.iter().any(|e| e.ctx == ctx);
            match if first { 0 } else { r.below(5) } {
                0 | 1 => { let v = gen_opt_value(r, f, idx); obj.insert(f.to_string(), v.clone()); vals.insert(f.to_string(), Some(v)); }
                2 => { obj.insert(f.to_string(), Json::Null); vals.insert(f.to_string(), Some(Json::Null)); }
                _ => { vals.insert(f.to_string(), None); }
            }
        }
        sess.ctl(json!({"ctl": "store_now", "secs": ts}));
        let cmd = format!("STORE {et} FOR {ctx} PAYLOAD {}", Json::Object(obj));
        match sess.cmd(&cmd) {
            Some(rep) if rep.ok() => x.stored.push(Stored { ctx, ts, k: idx as i64, vals }),
            Some(rep) => x.note("-", format!("STORE rejected ({} {}): {cmd}", rep.status, rep.message)),
            None => x.note("-", format!("engine died on {cmd}")),
        }
    }
}

fn e2e_wait_visible(sess: &mut snel_harness::sys::Session, et: &str, n: usize) {
    for _ in 0..200 {
        if let Some(rep) = sess.cmd(&format!("QUERY {et} RETURN [k]")) {
            if rep.rows.len() >= n { return; }
        }
        std::thread::sleep(std::time::Duration::from_millis(5));
    }
}

fn e2e_case(a: &Args, i: u64, r: &mut Rng, s: &mut Stream) {
    use snel_harness::sys::{Session, SysCfg};
    let root = a.out.join(format!("e2e_{i}"));
    let _ = std::fs::remove_dir_all(&root);
    let passive_variant = r.chance(1, 3);
    let n1 = 4 + r.below(6) as usize;
    let mut cfg = SysCfg::default();
    cfg.shards = 1;
    cfg.segments_per_merge = 2;
    if passive_variant { cfg.event_per_zone = n1; cfg.fill_factor = 1; } else { cfg.event_per_zone = 8; cfg.fill_factor = 4; }
    let et = "ev".to_string();
    let mut x = E2e { s, case: i, stored: vec![], fail: None };
    let mut sess = Session::start(&root, &cfg);
    let define = format!("DEFINE {et} FIELDS {{ k: \"int\", {} }}", OPT_FIELDS.iter().map(|(f, t)| format!("{f}: \"{t}\"")).collect::<Vec<_>>().join(", "));
    match sess.cmd(&define) { Some(rep) if rep.ok() => {}, other => { x.note("-", format!("DEFINE failed: {:?}", other.map(|o| o.message))); } }
    x.s.tally(if passive_variant { "variant=passive_buffer" } else { "variant=memtable+wal_restart" });
    if passive_variant {
        // the n1-th STORE fills the memtable; the flush worker is parked before it writes anything,
        // so the rows are served from the passive buffer
        sess.ctl(json!({"ctl": "arm_park", "point": "flush.registered"}));
        e2e_store(&mut x, &mut sess, &et, r, n1);
        let parked = sess.ctl(json!({"ctl": "wait_parked", "point": "flush.registered", "ms": 3000})).and_then(|v| v["parked"].as_u64()).unwrap_or(0);
        if parked > 0 {
            x.s.tally("passive_phase_reached");
            e2e_reads(&mut x, &mut sess, &et, "passive", true, r);
        }
        sess.ctl(json!({"ctl": "release_all"}));
        sess.ctl(json!({"ctl": "await_flush"}));
        std::thread::sleep(std::time::Duration::from_millis(30));
        e2e_reads(&mut x, &mut sess, &et, "flushed", false, r);
    } else {
        e2e_store(&mut x, &mut sess, &et, r, n1);
        e2e_wait_visible(&mut sess, &et, x.stored.len());
        e2e_reads(&mut x, &mut sess, &et, "memtable", true, r);
        // restart: the WAL is replayed into the memtable
        for _ in 0..200 { if sess.wal_lines(0) >= x.stored.len() { break; } std::thread::sleep(std::time::Duration::from_millis(5)); }
        sess.kill();
        sess = Session::start(&root, &cfg);
        e2e_wait_visible(&mut sess, &et, x.stored.len());
        e2e_reads(&mut x, &mut sess, &et, "wal_replay", true, r);
        if let Some(rep) = sess.cmd("FLUSH") { if !rep.ok() { x.note("-", format!("FLUSH failed {}", rep.message)); } }
        e2e_reads(&mut x, &mut sess, &et, "flushed", false, r);
    }
    // a second segment, then one compaction round, read after a restart (fresh caches)
    let n2 = 2 + r.below(3) as usize;
    let before = x.stored.len();
    e2e_store(&mut x, &mut sess, &et, r, n2);
    e2e_wait_visible(&mut sess, &et, before + n2);
    if let Some(rep) = sess.cmd("FLUSH") { if !rep.ok() { x.note("-", format!("FLUSH failed {}", rep.message)); } }
    let ran = sess.compact(0).and_then(|v| v["ran"].as_bool()).unwrap_or(false);
    if ran {
        x.s.tally("compaction_ran");
        sess.kill();
        sess = Session::start(&root, &cfg);
        e2e_reads(&mut x, &mut sess, &et, "compacted", false, r);
    }
    sess.kill();
    let pattern: String = x.stored.iter().map(|e| {
        let cells: String = e.vals.values().map(|v| match v { None => 'o', Some(Json::Null) => 'n', Some(_) => 'c' }).collect();
        format!("{}:{}", e.ctx, cells)
    }).collect::<Vec<_>>().join(",");
    let summary = format!("e2e variant={} stored={} keys(c=carried,n=null,o=omitted)={}", if passive_variant { "passive" } else { "memtable" }, x.stored.len(), pattern);
    let fail = x.fail.take();
    let case = x.case;
    s.tally_n("events", before as u64 + n2 as u64);
    s.case(&summary, "done", true);
    match fail { None => s.oracle_ok(), Some((c, d)) => s.oracle_fail(case, c, &d) }
    let _ = std::fs::remove_dir_all(&root);
}

fn stream_e2e(a: &Args) {
    let mut s = Stream::create(&a.out, "e2e");
    for i in 0..a.cases {
        if a.only.is_some_and(|o| o != i) {
            continue;
        }
        let mut r = Rng::for_case(a.seed, "e2e", i);
        e2e_case(a, i, &mut r, &mut s);
    }
    s.finish();
}

fn main() {
    snel_harness::sys::maybe_child();
    let a = parse_args();
    std::fs::create_dir_all(&a.out).unwrap();
    let cfg = write_config(&a.out);
    // SAFETY: single-threaded at this point, before anything reads CONFIG
    unsafe { std::env::set_var("SNELDB_CONFIG", &cfg) };
    let rt = tokio::runtime::Builder::new_multi_thread().worker_threads(2).enable_all().build().unwrap();
    match a.stream.as_str() {
        "block" => stream_block(&a),
        "decode" => stream_decode(&a),
        "scalar" => stream_scalar(&a),
        "f64parse" => stream_f64parse(&a),
        "flush" => stream_flush(&a, &rt),
        "project" => stream_project(&a, &rt),
        "memrows" => stream_memrows(&a, &rt),
        "e2e" => stream_e2e(&a),
        other => {
            eprintln!("unknown stream {other}");
            std::process::exit(2);
        }
    }
}
