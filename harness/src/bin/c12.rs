//! C12 streams.
//!
//! * `route` — the real `ShardManager::get_shard(ctx).id` for n = 1..16 (one manager per n in
//!   this process), the std `DefaultHasher` value and `ctx.trim().is_empty()` versus the Lean
//!   model (SipHash-1-3, `% n`, byte-level blank test). Oracle: an independent one-shot
//!   SipHash-1-3 written here, `id < n`, a repeated call, and — because the property is about
//!   every process lifetime — the same question asked of **separate child processes** (one
//!   engine per n, `ctl route`) for a sample of the cases.
//! * `sys` — end to end: STORE / QUERY FOR / QUERY / FLUSH / restart (SIGKILL after the WAL
//!   drained, or clean shutdown) on the real engine in child processes. Compared for equality
//!   with the model: STORE status, for every read the set of (key, shard bits of event_id),
//!   the shard whose WAL directory holds each event. Oracle: brute force over the history.
use serde_json::{json, Value};
use snel_harness::enc::hexs;
use snel_harness::out::{parse_args, Args, Stream};
use snel_harness::rng::Rng;
use snel_harness::sys::{self, Session, SysCfg};
use std::collections::{BTreeMap, BTreeSet};
use std::path::Path;

const NMAX: usize = 16;

// ------------------------------------------------------------------ independent spec (oracle)

/// One-shot SipHash-1-3 with zero keys (reference formulation: 8-byte words, final word =
/// remaining bytes | len << 56), written independently of the streaming Lean model.
fn sip13(msg: &[u8]) -> u64 {
    let mut v = [
        0x736f6d6570736575u64,
        0x646f72616e646f6du64,
        0x6c7967656e657261u64,
        0x7465646279746573u64,
    ];
    fn round(v: &mut [u64; 4]) {
        v[0] = v[0].wrapping_add(v[1]);
        v[1] = v[1].rotate_left(13);
        v[1] ^= v[0];
        v[0] = v[0].rotate_left(32);
        v[2] = v[2].wrapping_add(v[3]);
        v[3] = v[3].rotate_left(16);
        v[3] ^= v[2];
        v[0] = v[0].wrapping_add(v[3]);
        v[3] = v[3].rotate_left(21);
        v[3] ^= v[0];
        v[2] = v[2].wrapping_add(v[1]);
        v[1] = v[1].rotate_left(17);
        v[1] ^= v[2];
        v[2] = v[2].rotate_left(32);
    }
    let mut it = msg.chunks_exact(8);
    for c in &mut it {
        let m = u64::from_le_bytes(c.try_into().unwrap());
        v[3] ^= m;
        round(&mut v);
        v[0] ^= m;
    }
    let mut b = (msg.len() as u64) << 56;
    for (i, x) in it.remainder().iter().enumerate() {
        b |= (*x as u64) << (8 * i);
    }
    v[3] ^= b;
    round(&mut v);
    v[0] ^= b;
    v[2] ^= 0xff;
    round(&mut v);
    round(&mut v);
    round(&mut v);
    v[0] ^ v[1] ^ v[2] ^ v[3]
}

fn spec_hash(ctx: &str) -> u64 {
    let mut m = ctx.as_bytes().to_vec();
    m.push(0xff);
    sip13(&m)
}
fn spec_route(ctx: &str, n: usize) -> usize {
    (spec_hash(ctx) % n as u64) as usize
}
/// Unicode White_Space, listed explicitly.
fn spec_blank(ctx: &str) -> bool {
    ctx.chars().all(|c| {
        matches!(c as u32, 0x09..=0x0D | 0x20 | 0x85 | 0xA0 | 0x1680 | 0x2000..=0x200A | 0x2028 | 0x2029 | 0x202F | 0x205F | 0x3000)
    })
}

// ------------------------------------------------------------------------------ generators

fn rand_char(r: &mut Rng) -> char {
    loop {
        let cp = match r.below(12) {
            0 | 1 => 0x20 + r.below(0x5f) as u32,                    // printable ASCII
            2 => 0xA0 + r.below(0x60) as u32,                          // Latin-1 (2-byte)
            3 => 0x370 + r.below(0x290) as u32,                        // Greek, Cyrillic
            4 => 0x4E00 + r.below(0x5000) as u32,                      // CJK (3-byte)
            5 => 0x1F300 + r.below(0x7FF) as u32,                      // emoji (4-byte)
            6 => 0x300 + r.below(0x70) as u32,                         // combining marks
            7 => 0x5D0 + r.below(0x130) as u32,                        // Hebrew / Arabic
            8 => *r.pick(&[0u32, 0x7F, 0x80, 0xFF, 0x7FF, 0x800, 0xFFFF, 0x10000, 0x10FFFF, 0xFFFD, 0xFEFF]),
            9 => *r.pick(&[0x200Bu32, 0x200C, 0x200D, 0x2060, 0x180E, 0x00AD, 0x034F, 0x115F, 0x3164, 0x2800]), // look empty, are not white space
            10 => *r.pick(&[0x09u32, 0x0A, 0x0B, 0x0C, 0x0D, 0x20, 0x85, 0xA0, 0x1680, 0x2000, 0x2003, 0x200A, 0x2028, 0x2029, 0x202F, 0x205F, 0x3000]),
            _ => 0x61 + r.below(26) as u32,
        };
        if let Some(c) = char::from_u32(cp) {
            return c;
        }
    }
}

fn white(r: &mut Rng) -> char {
    char::from_u32(*r.pick(&[
        0x09u32, 0x0A, 0x0B, 0x0C, 0x0D, 0x20, 0x85, 0xA0, 0x1680, 0x2000, 0x2001, 0x2005, 0x200A, 0x2028, 0x2029, 0x202F, 0x205F,
        0x3000,
    ]))
    .unwrap()
}

fn base_name(r: &mut Rng) -> String {
    match r.below(4) {
        0 => format!("Ctx-{}", r.below(40)),
        1 => format!("user_{}", r.below(40)),
        2 => format!("Órder-{}", r.below(20)),
        _ => format!("{}", r.below(100000)),
    }
}

/// Case / white-space variants of a name from a small pool (so that variants of one base meet).
fn variant(r: &mut Rng, b: &str) -> String {
    match r.below(12) {
        0 => b.to_string(),
        1 => b.to_uppercase(),
        2 => b.to_lowercase(),
        3 => format!("{b} "),
        4 => format!(" {b}"),
        5 => format!("{b}\t"),
        6 => format!("{b}\n"),
        7 => format!("{b}\u{a0}"),
        8 => format!("{b}\0"),
        9 => format!("{b}  "),
        10 => b.replace('-', " - "),
        _ => format!("{b}\u{200b}"),
    }
}

/// A context id for the `route` stream and the category it was drawn from.
fn gen_ctx(r: &mut Rng) -> (String, &'static str) {
    match r.below(16) {
        0 | 1 => (base_name(r), "plain"),
        2 | 3 => {
            let b = base_name(r);
            (variant(r, &b), "case/space-variant")
        }
        4 => {
            // empty-looking
            let k = r.below(5);
            let s: String = match r.below(4) {
                0 => (0..k).map(|_| white(r)).collect(),
                1 => (0..k + 1)
                    .map(|_| char::from_u32(*r.pick(&[0x200Bu32, 0x200C, 0x200D, 0x2060, 0x180E, 0xFEFF, 0x00AD, 0x3164, 0x2800, 0])).unwrap())
                    .collect(),
                2 => {
                    let mut s: String = (0..k).map(|_| white(r)).collect();
                    s.push(char::from_u32(*r.pick(&[0x200Bu32, 0xFEFF, 0x180E, 0x85, 0x1680, 0x61])).unwrap());
                    s.extend((0..r.below(3)).map(|_| white(r)));
                    s
                }
                _ => String::new(),
            };
            (s, "empty-looking")
        }
        5 | 6 => {
            let n = 1 + r.below(24);
            ((0..n).map(|_| rand_char(r)).collect(), "unicode-mix")
        }
        7 | 8 => {
            // every tail length and the wrap of the length byte (len + 1 ≡ 0 mod 256)
            let len = match r.below(3) {
                0 => r.below(40) as usize,
                1 => (*r.pick(&[247u64, 254, 255, 256, 257, 263, 510, 511, 512, 767, 1023, 1024])) as usize + r.below(3) as usize,
                _ => r.below(600) as usize,
            };
            let c = (b'a' + r.below(26) as u8) as char;
            let s: String = if r.chance(1, 2) {
                std::iter::repeat(c).take(len).collect()
            } else {
                (0..len).map(|_| (0x21 + r.below(0x5e) as u8) as char).collect()
            };
            (s, "length-sweep")
        }
        9 => {
            // long, up to 10 kB
            let target = match r.below(3) {
                0 => 1000 + r.below(9240) as usize,
                1 => *r.pick(&[4095usize, 4096, 8191, 8192, 10239, 10240]),
                _ => 600 + r.below(3000) as usize,
            };
            let mut s = String::with_capacity(target + 4);
            let uni = r.chance(1, 3);
            while s.len() < target {
                if uni {
                    s.push(rand_char(r));
                } else {
                    s.push((0x20 + r.below(0x5f) as u8) as char);
                }
            }
            while s.len() > 10240 {
                s.pop();
            }
            (s, "long")
        }
        10 => {
            // NUL / U+00FF / encoding-boundary code points inside a name
            let mut s = base_name(r);
            let c = char::from_u32(*r.pick(&[0u32, 0xFF, 0x7F, 0x80, 0x7FF, 0x800, 0xFFFF, 0x10000, 0x10FFFF, 0xFFFD])).unwrap();
            let pos = r.below(s.chars().count() as u64 + 1) as usize;
            let idx = s.char_indices().nth(pos).map(|x| x.0).unwrap_or(s.len());
            s.insert(idx, c);
            (s, "nul/ff/boundary")
        }
        11 => {
            let s = match r.below(5) {
                0 => format!("{{\"id\":{}}}", r.below(100)),
                1 => format!("\"{}\"", base_name(r)),
                2 => format!("{}.{}e{}", r.below(100), r.below(100), r.below(30)),
                3 => format!("-{}", r.below(1u64 << 40)),
                _ => format!("[{},{}]", r.below(9), r.below(9)),
            };
            (s, "json/number-looking")
        }
        12 => {
            // one byte / one char
            (rand_char(r).to_string(), "single-char")
        }
        13 => {
            // near-duplicates: one bit / one char apart
            let b = format!("tenant-{:04}", r.below(3000));
            (b, "dense-numbered")
        }
        _ => {
            let n = 1 + r.below(12);
            ((0..n).map(|_| (0x61 + r.below(26) as u8) as char).collect(), "ascii-word")
        }
    }
}

fn len_bucket(n: usize) -> &'static str {
    match n {
        0 => "len=0",
        1..=7 => "len=1-7",
        8..=63 => "len=8-63",
        64..=255 => "len=64-255",
        256..=1023 => "len=256-1023",
        _ => "len>=1024",
    }
}

// ------------------------------------------------------------------------------ route stream

fn std_hash(ctx: &str) -> u64 {
    use std::hash::{Hash, Hasher};
    let mut h = std::collections::hash_map::DefaultHasher::new();
    ctx.hash(&mut h);
    h.finish()
}

fn route_stream(a: &Args) {
    use snel_db::engine::shard::manager::ShardManager;
    let root = a.out.join("route-sys");
    let _ = std::fs::remove_dir_all(&root);
    let cfg = SysCfg { shards: NMAX, event_per_zone: 100, fill_factor: 3, ..Default::default() };
    let cfg_path = cfg.write(&root);
    // one configuration per process; must be set before anything touches CONFIG
    unsafe { std::env::set_var("SNELDB_CONFIG", &cfg_path) };
    let rt = tokio::runtime::Builder::new_multi_thread().worker_threads(2).enable_all().build().unwrap();
    // `Shard::spawn` sleeps 100 ms per shard: build the 16 managers concurrently
    let managers: Vec<ShardManager> = rt.block_on(async {
        let hs: Vec<_> = (1..=NMAX)
            .map(|n| {
                let (d, w) = (root.join(format!("n{n}/cols")), root.join(format!("n{n}/wal")));
                tokio::spawn(async move { ShardManager::new(n, d, w).await })
            })
            .collect();
        let mut v = vec![];
        for h in hs {
            v.push(h.await.unwrap());
        }
        v
    });
    for (k, m) in managers.iter().enumerate() {
        assert_eq!(m.shards.len(), k + 1);
    }

    let mut s = Stream::create(&a.out, "route");
    let idxs: Vec<u64> = (0..a.cases).filter(|i| a.only.is_none_or(|o| o == *i)).collect();
    // sample for the second process: all cases up to the cap, spread evenly beyond it
    let cap: u64 = if a.cases <= 3000 { 250 } else { 2500 };
    let stride = (idxs.len() as u64 / cap).max(1);
    let mut sampled: Vec<(u64, String, Vec<usize>)> = vec![];
    let mut fails: BTreeMap<u64, String> = BTreeMap::new();
    for (pos, &i) in idxs.iter().enumerate() {
        let mut r = Rng::for_case(a.seed, "route", i);
        let (ctx, cat) = gen_ctx(&mut r);
        let ids: Vec<usize> = managers.iter().map(|m| m.get_shard(&ctx).id).collect();
        let h = std_hash(&ctx);
        let blank = ctx.trim().is_empty();
        let op = format!("route {}", hexs(&ctx));
        let imp = format!(
            "h={:016x} b={} r={}",
            h,
            blank as u8,
            ids.iter().map(|x| x.to_string()).collect::<Vec<_>>().join(",")
        );
        s.tally(cat);
        s.tally(len_bucket(ctx.len()));
        if blank {
            s.tally("blank");
        }
        if !ctx.is_ascii() {
            s.tally("non-ascii");
        }
        s.case(&op, &imp, true);
        // oracle, in-process part
        let mut bad = vec![];
        for (k, id) in ids.iter().enumerate() {
            let n = k + 1;
            if *id >= n {
                bad.push(format!("n={n}: id {id} out of range"));
            }
            if *id != spec_route(&ctx, n) {
                bad.push(format!("n={n}: get_shard={id} spec={}", spec_route(&ctx, n)));
            }
            if managers[k].get_shard(&ctx).id != *id {
                bad.push(format!("n={n}: second call differs"));
            }
            if managers[k].shards[*id].id != *id {
                bad.push(format!("n={n}: shards[{id}].id != {id}"));
            }
        }
        if h != spec_hash(&ctx) {
            bad.push(format!("DefaultHasher={h:016x} spec={:016x}", spec_hash(&ctx)));
        }
        if blank != spec_blank(&ctx) {
            bad.push(format!("trim().is_empty()={blank} spec={}", spec_blank(&ctx)));
        }
        if !bad.is_empty() {
            fails.insert(i, format!("ctx={} {}", hexs(&ctx), bad.join("; ")));
        }
        if pos as u64 % stride == 0 {
            sampled.push((i, ctx, ids));
        }
    }
    // second (and third …) process lifetime: one engine child per n
    let mut child_answers = 0u64;
    let child_results: Vec<(u64, Vec<(u64, String)>)> = std::thread::scope(|sc| {
        let hs: Vec<_> = (1..=NMAX)
            .map(|n| {
                let sampled = &sampled;
                let out = a.out.clone();
                sc.spawn(move || {
                    let croot = out.join(format!("route-child-n{n}"));
                    let _ = std::fs::remove_dir_all(&croot);
                    let ccfg = SysCfg { shards: n, event_per_zone: 100, fill_factor: 3, ..Default::default() };
                    let mut sess = Session::start(&croot, &ccfg);
                    let mut answers = 0u64;
                    let mut bad = vec![];
                    for (i, ctx, ids) in sampled {
                        // spread the sample over the n's when it is large
                        if (*i as usize + n) % 4 != 0 && sampled.len() > 64 {
                            continue;
                        }
                        match sess.ctl(json!({"ctl": "route", "ctx": ctx})) {
                            Some(v) => {
                                answers += 1;
                                let got = v.get("shard").and_then(|x| x.as_u64()).map(|x| x as usize);
                                if got != Some(ids[n - 1]) {
                                    bad.push((*i, format!(" ctx={} n={n}: parent process {} child process {:?}", hexs(ctx), ids[n - 1], got)));
                                }
                            }
                            None => {
                                eprintln!("route child for n={n} died");
                                std::process::exit(3);
                            }
                        }
                    }
                    sess.kill();
                    let _ = std::fs::remove_dir_all(&croot);
                    (answers, bad)
                })
            })
            .collect();
        hs.into_iter().map(|h| h.join().unwrap()).collect()
    });
    for (answers, bad) in child_results {
        child_answers += answers;
        for (i, d) in bad {
            fails.entry(i).or_default().push_str(&d);
        }
    }
    s.tally_n("second-process answers compared", child_answers);
    s.tally_n("cases sampled for second process", sampled.len() as u64);
    for &i in &idxs {
        match fails.get(&i) {
            None => s.oracle_ok(),
            Some(d) => s.oracle_fail(i, "-", d),
        }
    }
    s.finish();
    drop(managers);
    rt.shutdown_background();
    let _ = std::fs::remove_dir_all(&root);
}

// -------------------------------------------------------------------------------- sys stream

/// Context ids that the text grammar can carry inside `"…"` (no double quote).
fn gen_sys_ctx(r: &mut Rng, pool: &mut Vec<String>) -> String {
    if !pool.is_empty() && r.chance(1, 3) {
        // a variant of a context already in the history
        let b = r.pick(pool).clone();
        let v = match r.below(6) {
            0 => b.to_uppercase(),
            1 => b.to_lowercase(),
            2 => format!("{b} "),
            3 => format!(" {b}"),
            4 => format!("{b}\u{a0}"),
            _ => format!("{b}x"),
        };
        return v;
    }
    let s = match r.below(10) {
        0 | 1 | 2 => format!("c{}", r.below(1000)),
        3 => format!("User-{}", r.below(50)),
        4 => {
            let n = 1 + r.below(8);
            (0..n).map(|_| rand_char(r)).collect()
        }
        5 => " ".repeat(1 + r.below(3) as usize),
        6 => format!("{}", r.below(1u64 << 40)),
        7 => {
            let n = 200 + r.below(1500) as usize;
            (0..n).map(|_| (0x61 + r.below(26) as u8) as char).collect()
        }
        8 => format!("漢字-{}", r.below(30)),
        _ => format!("tenant {} / {}", r.below(9), r.below(9)),
    };
    s.replace('"', "'")
}

#[derive(Clone, Debug)]
enum SOp {
    Store(usize, u64), // context index, key
    Q(usize),
    QA,
    W,
    Flush,
    Restart(bool), // true = SIGKILL after WAL drain, false = clean shutdown
}

fn tag_of(id: u64) -> u64 {
    (id >> 12) & 1023
}

fn rows_of(rep: &sys::Reply) -> Option<Vec<(u64, u64, String)>> {
    // (key, event_id, context_id)
    let ki = rep.columns.iter().position(|c| c == "k")?;
    let ii = rep.columns.iter().position(|c| c == "event_id")?;
    let ci = rep.columns.iter().position(|c| c == "context_id")?;
    let mut v = vec![];
    for row in &rep.rows {
        let k = row.get(ki)?.as_u64()?;
        let id = row.get(ii)?.as_u64()?;
        let c = row.get(ci)?.as_str()?.to_string();
        v.push((k, id, c));
    }
    Some(v)
}

fn show_pairs(mut v: Vec<(u64, u64)>) -> String {
    v.sort();
    format!("[{}]", v.iter().map(|(k, t)| format!("{k}@{t}")).collect::<Vec<_>>().join(","))
}

/// (key, shard) for every WAL line found under the shards' WAL directories.
fn wal_where(root: &Path, n: usize) -> Vec<(u64, u64, String)> {
    let mut out = vec![];
    for sh in 0..n {
        let d = root.join("wal").join(format!("shard-{sh}"));
        let Ok(rd) = std::fs::read_dir(&d) else { continue };
        for e in rd.flatten() {
            let name = e.file_name().to_string_lossy().to_string();
            if !(name.starts_with("wal-") && name.ends_with(".log")) {
                continue;
            }
            let Ok(text) = std::fs::read_to_string(e.path()) else { continue };
            for line in text.lines() {
                let Ok(v) = serde_json::from_str::<Value>(line) else { continue };
                let k = v.pointer("/payload/k").and_then(|x| x.as_u64());
                let c = v.get("context_id").and_then(|x| x.as_str());
                if let (Some(k), Some(c)) = (k, c) {
                    out.push((k, sh as u64, c.to_string()));
                }
            }
        }
    }
    out
}

struct SysOutcome {
    op: String,
    imp: String,
    fails: Vec<String>,
    infra: Option<String>,
    tallies: Vec<String>,
    stores_ok: usize,
}

fn run_sys_case(a: &Args, i: u64) -> SysOutcome {
    let mut r = Rng::for_case(a.seed, "sys", i);
    let n = match r.below(10) {
        0 => 1,
        1 => 2,
        2 => 16,
        _ => 1 + r.below(8) as usize,
    };
    let nctx = 1 + r.below(5) as usize;
    let mut ctxs: Vec<String> = vec![];
    for _ in 0..nctx {
        let c = gen_sys_ctx(&mut r, &mut ctxs);
        if !ctxs.contains(&c) {
            ctxs.push(c);
        }
    }
    let nctx = ctxs.len();
    // history
    let len = 6 + r.below(22) as usize;
    let mut ops = vec![];
    let mut key = 0u64;
    let with_flush = r.chance(1, 3);
    for _ in 0..len {
        let x = r.below(100);
        let op = if x < 58 {
            key += 1;
            SOp::Store(r.below(nctx as u64) as usize, key)
        } else if x < 72 {
            SOp::Q(r.below(nctx as u64) as usize)
        } else if x < 80 {
            SOp::QA
        } else if x < 90 {
            SOp::Restart(r.chance(2, 3))
        } else if x < 95 {
            SOp::W
        } else if with_flush {
            SOp::Flush
        } else {
            SOp::W
        };
        ops.push(op);
    }
    // the shape the property names: STOREs to one context, a restart, STOREs to it again
    if r.chance(4, 5) {
        let c = r.below(nctx as u64) as usize;
        key += 1;
        ops.insert(0, SOp::Store(c, key));
        let mid = 1 + r.below(ops.len() as u64) as usize;
        ops.insert(mid, SOp::Restart(r.chance(1, 2)));
        key += 1;
        ops.push(SOp::Store(c, key));
    }
    for c in 0..nctx {
        ops.push(SOp::Q(c));
    }
    ops.push(SOp::QA);
    ops.push(SOp::W);

    let root = a.out.join(format!("sys-case-{i}"));
    let _ = std::fs::remove_dir_all(&root);
    let cfg = SysCfg { shards: n, event_per_zone: 50, fill_factor: 4, ..Default::default() };
    let mut out = SysOutcome { op: String::new(), imp: String::new(), fails: vec![], infra: None, tallies: vec![], stores_ok: 0 };
    let mut sess = Session::start(&root, &cfg);
    if sess.dead {
        out.infra = Some("engine child did not start".into());
        return out;
    }
    match sess.cmd("DEFINE ev FIELDS { k: \"int\" }") {
        Some(rep) if rep.ok() => {}
        other => {
            out.infra = Some(format!("DEFINE failed: {other:?}"));
            return out;
        }
    }
    let mut optoks: Vec<String> = vec![format!("sys {n}")];
    let mut imps: Vec<String> = vec![];
    // ghost history for the oracle
    let mut accepted: Vec<(usize, u64)> = vec![]; // (ctx index, key)
    let mut flushed = false;
    let mut tag_seen: BTreeMap<usize, BTreeSet<u64>> = BTreeMap::new();
    let mut lifetimes = 1;
    out.tallies.push(format!("shards={n}"));
    for op in &ops {
        match op {
            SOp::Store(c, k) => {
                let ctx = &ctxs[*c];
                let Some(rep) = sess.cmd(&format!("STORE ev FOR \"{ctx}\" PAYLOAD {{\"k\": {k}}}")) else {
                    out.infra = Some("child died on STORE".into());
                    return out;
                };
                match rep.status_class() {
                    "ok" => {
                        accepted.push((*c, *k));
                        out.stores_ok += 1;
                        optoks.push(format!("S:{}:{k}", hexs(ctx)));
                        imps.push("S=ok".into());
                        out.tallies.push("store ok".into());
                    }
                    "bad-request" => {
                        optoks.push(format!("S:{}:{k}", hexs(ctx)));
                        imps.push("S=bad".into());
                        out.tallies.push("store refused (blank context)".into());
                        if !spec_blank(ctx) {
                            out.fails.push(format!("STORE for non-blank context {} refused: {}", hexs(ctx), rep.message));
                        }
                    }
                    "parse-error" => {
                        // the grammar cannot carry this string: not a C12 matter, op left out
                        out.tallies.push("store parse-error (left out)".into());
                    }
                    other => {
                        out.infra = Some(format!("STORE answered {other}: {}", rep.raw));
                        return out;
                    }
                }
            }
            SOp::Q(c) => {
                let ctx = &ctxs[*c];
                let Some(rep) = sess.cmd(&format!("QUERY ev FOR \"{ctx}\"")) else {
                    out.infra = Some("child died on QUERY".into());
                    return out;
                };
                if rep.status_class() == "parse-error" {
                    out.tallies.push("query parse-error (left out)".into());
                    continue;
                }
                let Some(rows) = (if rep.ok() { rows_of(&rep) } else { None }) else {
                    out.infra = Some(format!("QUERY FOR answered {}: {}", rep.status_class(), rep.raw));
                    return out;
                };
                optoks.push(format!("Q:{}", hexs(ctx)));
                imps.push(format!("Q={}", show_pairs(rows.iter().map(|(k, id, _)| (*k, tag_of(*id))).collect())));
                out.tallies.push(if rows.is_empty() { "scoped read: empty".into() } else { "scoped read: rows".into() });
                // oracle: exactly the accepted events of this context, once each
                let mut want: Vec<u64> = accepted.iter().filter(|(cc, _)| cc == c).map(|x| x.1).collect();
                want.sort();
                let mut got: Vec<u64> = rows.iter().map(|x| x.0).collect();
                got.sort();
                if want != got {
                    out.fails.push(format!("FOR {}: stored keys {want:?}, returned {got:?}", hexs(ctx)));
                }
                for (k, id, cc) in &rows {
                    if cc != ctx {
                        out.fails.push(format!("FOR {}: row k={k} has context {}", hexs(ctx), hexs(cc)));
                    }
                    tag_seen.entry(*c).or_default().insert(tag_of(*id));
                    if tag_of(*id) as usize != spec_route(ctx, n) {
                        out.fails.push(format!("FOR {}: k={k} id={id} tag {} but hash%n = {}", hexs(ctx), tag_of(*id), spec_route(ctx, n)));
                    }
                }
            }
            SOp::QA => {
                let Some(rep) = sess.cmd("QUERY ev") else {
                    out.infra = Some("child died on QUERY".into());
                    return out;
                };
                let Some(rows) = (if rep.ok() { rows_of(&rep) } else { None }) else {
                    out.infra = Some(format!("QUERY answered {}: {}", rep.status_class(), rep.raw));
                    return out;
                };
                optoks.push("QA".into());
                imps.push(format!("QA={}", show_pairs(rows.iter().map(|(k, id, _)| (*k, tag_of(*id))).collect())));
                let mut want: Vec<u64> = accepted.iter().map(|x| x.1).collect();
                want.sort();
                let mut got: Vec<u64> = rows.iter().map(|x| x.0).collect();
                got.sort();
                if want != got {
                    out.fails.push(format!("unscoped: stored keys {want:?}, returned {got:?}"));
                }
                let occupied: BTreeSet<usize> = accepted.iter().map(|(c, _)| spec_route(&ctxs[*c], n)).collect();
                if occupied.len() < n {
                    out.tallies.push("unscoped read with empty shards".into());
                } else {
                    out.tallies.push("unscoped read, every shard occupied".into());
                }
                for (k, id, cc) in &rows {
                    if tag_of(*id) as usize != spec_route(cc, n) {
                        out.fails.push(format!("unscoped: k={k} ctx={} id={id} tag {} but hash%n = {}", hexs(cc), tag_of(*id), spec_route(cc, n)));
                    }
                }
            }
            SOp::W => {
                if flushed {
                    continue; // WAL files of flushed events are cleaned up: not observable this way
                }
                // wait until the WAL tasks have written every accepted event
                let t0 = std::time::Instant::now();
                let mut w;
                loop {
                    w = wal_where(&root, n);
                    if w.len() >= accepted.len() {
                        break;
                    }
                    if t0.elapsed().as_millis() > 20000 {
                        out.infra = Some(format!("WAL did not drain within 20 s ({} of {} lines)", w.len(), accepted.len()));
                        return out;
                    }
                    std::thread::sleep(std::time::Duration::from_millis(5));
                }
                optoks.push("W".into());
                imps.push(format!("W={}", show_pairs(w.iter().map(|(k, sh, _)| (*k, *sh)).collect())));
                out.tallies.push("wal placement read".into());
                let mut want: Vec<u64> = accepted.iter().map(|x| x.1).collect();
                want.sort();
                let mut got: Vec<u64> = w.iter().map(|x| x.0).collect();
                got.sort();
                if want != got {
                    out.fails.push(format!("WAL dirs: stored keys {want:?}, found {got:?}"));
                }
                for (k, sh, cc) in &w {
                    if *sh as usize != spec_route(cc, n) {
                        out.fails.push(format!("WAL dirs: k={k} ctx={} lies in shard-{sh}, hash%n = {}", hexs(cc), spec_route(cc, n)));
                    }
                }
            }
            SOp::Flush => {
                let Some(rep) = sess.cmd("FLUSH") else {
                    out.infra = Some("child died on FLUSH".into());
                    return out;
                };
                if !rep.ok() {
                    out.infra = Some(format!("FLUSH answered {}", rep.raw));
                    return out;
                }
                flushed = true;
                optoks.push("F".into());
                imps.push("F".into());
                out.tallies.push("flush".into());
            }
            SOp::Restart(kill) => {
                if *kill && !flushed {
                    // process kill once the WAL holds everything that was acknowledged
                    let t0 = std::time::Instant::now();
                    while wal_where(&root, n).len() < accepted.len() {
                        if t0.elapsed().as_millis() > 20000 {
                            out.infra = Some("WAL did not drain within 20 s before the kill".into());
                            return out;
                        }
                        std::thread::sleep(std::time::Duration::from_millis(5));
                    }
                    sess.kill();
                    out.tallies.push("restart: kill".into());
                } else {
                    if !sess.shutdown() {
                        out.infra = Some("clean shutdown reported errors".into());
                        return out;
                    }
                    flushed = true; // clean stop flushes every shard
                    out.tallies.push("restart: clean shutdown".into());
                }
                sess = Session::start(&root, &cfg);
                if sess.dead {
                    out.infra = Some("engine child did not restart".into());
                    return out;
                }
                lifetimes += 1;
                optoks.push("R".into());
                imps.push("R".into());
            }
        }
    }
    sess.kill();
    // tag constant per context over the whole history (all lifetimes)
    for (c, tags) in &tag_seen {
        if tags.len() > 1 {
            out.fails.push(format!("context {} carried tags {tags:?}", hexs(&ctxs[*c])));
        }
    }
    out.tallies.push(format!("lifetimes={}", lifetimes.min(4)));
    let stored_ctx: BTreeSet<usize> = accepted.iter().map(|x| x.0).collect();
    out.tallies.push(format!("contexts with events={}", stored_ctx.len()));
    // store, restart, store again to the same context?
    out.op = optoks.join(" ");
    out.imp = imps.join(" ");
    if out.fails.is_empty() {
        let _ = std::fs::remove_dir_all(&root);
    }
    out
}


// ------------------------------------------------------------------------------ clock stream

const EPOCH: u64 = 1_609_459_200_000;

/// (key, shard, context, event_id) for every WAL line under the shards' WAL directories.
fn wal_rows(root: &Path, n: usize) -> Vec<(u64, u64, String, u64)> {
    let mut out = vec![];
    for sh in 0..n {
        let d = root.join("wal").join(format!("shard-{sh}"));
        let Ok(rd) = std::fs::read_dir(&d) else { continue };
        for e in rd.flatten() {
            let name = e.file_name().to_string_lossy().to_string();
            if !(name.starts_with("wal-") && name.ends_with(".log")) {
                continue;
            }
            let Ok(text) = std::fs::read_to_string(e.path()) else { continue };
            for line in text.lines() {
                let Ok(v) = serde_json::from_str::<Value>(line) else { continue };
                let k = v.pointer("/payload/k").and_then(|x| x.as_u64());
                let c = v.get("context_id").and_then(|x| x.as_str());
                let id = v.get("event_id").and_then(|x| x.as_u64());
                if let (Some(k), Some(c), Some(id)) = (k, c, id) {
                    out.push((k, sh as u64, c.to_string(), id));
                }
            }
        }
    }
    out
}

/// Histories under a scripted id clock (hook `verif::set_id_clock`, one reading per STORE):
/// ids are then determined, so the model's ids are compared exactly. Restarts are process
/// kills after the WAL drained; the clock after a restart may be later, repeat, or step back.
fn run_clock_case(a: &Args, i: u64) -> SysOutcome {
    let mut r = Rng::for_case(a.seed, "clock", i);
    let n = match r.below(6) {
        0 => 1,
        1 => 2,
        2 => 8,
        _ => 1 + r.below(4) as usize,
    };
    let nctx = 1 + r.below(3) as usize;
    let mut ctxs: Vec<String> = vec![];
    for _ in 0..nctx {
        let c = match r.below(4) {
            0 => format!("c{}", r.below(100)),
            1 => format!("Acct-{}", r.below(20)),
            2 => format!("acct-{} ", r.below(20)),
            _ => format!("é{}", r.below(50)),
        };
        if !ctxs.contains(&c) {
            ctxs.push(c);
        }
    }
    let nctx = ctxs.len();
    let root = a.out.join(format!("clock-case-{i}"));
    let _ = std::fs::remove_dir_all(&root);
    let cfg = SysCfg { shards: n, event_per_zone: 50, fill_factor: 4, ..Default::default() };
    let mut out = SysOutcome { op: String::new(), imp: String::new(), fails: vec![], infra: None, tallies: vec![], stores_ok: 0 };
    let mut sess = Session::start(&root, &cfg);
    if sess.dead {
        out.infra = Some("engine child did not start".into());
        return out;
    }
    match sess.cmd("DEFINE ev FIELDS { k: \"int\" }") {
        Some(rep) if rep.ok() => {}
        other => {
            out.infra = Some(format!("DEFINE failed: {other:?}"));
            return out;
        }
    }
    let mut optoks: Vec<String> = vec![format!("sysclk {n}")];
    let mut imps: Vec<String> = vec![];
    let mut accepted: Vec<(usize, u64, usize)> = vec![]; // (ctx, key, lifetime)
    let lifetimes = 2 + r.below(2) as usize;
    let mut key = 0u64;
    let mut t = EPOCH + 10_000 + r.below(1 << 30);
    let mut first_readings: Vec<u64> = vec![];
    let mut tmax = t;
    out.tallies.push(format!("shards={n}"));
    let mut class = "-".to_string();
    for life in 0..lifetimes {
        if life > 0 {
            // process kill once the WAL holds every acknowledged event, then a new process
            let t0 = std::time::Instant::now();
            while wal_rows(&root, n).len() < accepted.len() {
                if t0.elapsed().as_millis() > 20000 {
                    out.infra = Some("WAL did not drain within 20 s before the kill".into());
                    return out;
                }
                std::thread::sleep(std::time::Duration::from_millis(5));
            }
            sess.kill();
            sess = Session::start(&root, &cfg);
            if sess.dead {
                out.infra = Some("engine child did not restart".into());
                return out;
            }
            optoks.push("R".into());
            imps.push("R".into());
            match r.below(3) {
                0 => {
                    t = tmax + 1 + r.below(5);
                    out.tallies.push("clock after restart: later".into());
                }
                1 => {
                    t = *r.pick(&first_readings);
                    out.tallies.push("clock after restart: repeats a lifetime's first reading".into());
                }
                _ => {
                    t = tmax - r.below(3);
                    out.tallies.push("clock after restart: at or just before the last reading".into());
                }
            }
        }
        let stores = 1 + r.below(5);
        for sidx in 0..stores {
            if sidx > 0 {
                t += *r.pick(&[0u64, 0, 1, 1, 3]);
            } else {
                first_readings.push(t);
            }
            tmax = tmax.max(t);
            // the first STORE of a later lifetime often goes to the context of the very first STORE
            let c = if sidx == 0 && life > 0 && r.chance(1, 2) { accepted.first().map(|x| x.0).unwrap_or(0) } else { r.below(nctx as u64) as usize };
            key += 1;
            let ctx = &ctxs[c];
            if sess.ctl(json!({"ctl": "id_clock", "readings": [t]})).is_none() {
                out.infra = Some("child died on id_clock".into());
                return out;
            }
            let Some(rep) = sess.cmd(&format!("STORE ev FOR \"{ctx}\" PAYLOAD {{\"k\": {key}}}")) else {
                out.infra = Some("child died on STORE".into());
                return out;
            };
            if rep.status_class() != "ok" {
                out.infra = Some(format!("STORE answered {}: {}", rep.status_class(), rep.raw));
                return out;
            }
            // barrier: the shard answers this query after it has applied the STORE (FIFO channel)
            if sess.cmd(&format!("QUERY ev FOR \"{ctx}\"")).is_none() {
                out.infra = Some("child died on barrier query".into());
                return out;
            }
            accepted.push((c, key, life));
            out.stores_ok += 1;
            optoks.push(format!("S:{}:{key}:{t}", hexs(ctx)));
            imps.push("S=ok".into());
        }
        // wait for the WAL, then read placement and ids from the shard directories
        let t0 = std::time::Instant::now();
        let mut w;
        loop {
            w = wal_rows(&root, n);
            if w.len() >= accepted.len() {
                break;
            }
            if t0.elapsed().as_millis() > 20000 {
                out.infra = Some(format!("WAL did not drain within 20 s ({} of {} lines)", w.len(), accepted.len()));
                return out;
            }
            std::thread::sleep(std::time::Duration::from_millis(5));
        }
        let mut wl: Vec<(u64, u64, u64)> = w.iter().map(|x| (x.0, x.1, x.3)).collect();
        wl.sort();
        optoks.push("W".into());
        imps.push(format!("W=[{}]", wl.iter().map(|(k, sh, id)| format!("{k}@{sh}#{id}")).collect::<Vec<_>>().join(",")));
        let id_of: BTreeMap<u64, u64> = w.iter().map(|x| (x.0, x.3)).collect();
        let life_of: BTreeMap<u64, usize> = accepted.iter().map(|x| (x.1, x.2)).collect();
        for (k, sh, cc, id) in &w {
            if *sh as usize != spec_route(cc, n) || tag_of(*id) as usize != spec_route(cc, n) {
                out.fails.push(format!("WAL dirs: k={k} ctx={} id={id} lies in shard-{sh}, tag {}, hash%n = {}", hexs(cc), tag_of(*id), spec_route(cc, n)));
            }
        }
        let dup_ids = {
            let mut seen = BTreeSet::new();
            w.iter().any(|x| !seen.insert(x.3))
        };
        if dup_ids {
            out.tallies.push("history with two events carrying one id".into());
        }
        // reads: scoped for every context, then unscoped
        let mut reads: Vec<(Option<usize>, String)> = (0..nctx).map(|c| (Some(c), format!("QUERY ev FOR \"{}\"", ctxs[c]))).collect();
        reads.push((None, "QUERY ev".into()));
        for (qc, text) in reads {
            let Some(rep) = sess.cmd(&text) else {
                out.infra = Some("child died on QUERY".into());
                return out;
            };
            let Some(rows) = (if rep.ok() { rows_of(&rep) } else { None }) else {
                out.infra = Some(format!("QUERY answered {}: {}", rep.status_class(), rep.raw));
                return out;
            };
            let mut ids: Vec<u64> = rows.iter().map(|x| x.1).collect();
            ids.sort();
            let shown = format!("[{}]", ids.iter().map(|x| x.to_string()).collect::<Vec<_>>().join(","));
            match qc {
                Some(c) => {
                    optoks.push(format!("Q:{}", hexs(&ctxs[c])));
                    imps.push(format!("Q={shown}"));
                }
                None => {
                    optoks.push("QA".into());
                    imps.push(format!("QA={shown}"));
                }
            }
            let mut want: Vec<u64> = accepted.iter().filter(|x| qc.is_none_or(|c| c == x.0)).map(|x| x.1).collect();
            want.sort();
            let mut got: Vec<u64> = rows.iter().map(|x| x.0).collect();
            got.sort();
            if want != got {
                // class predicate: nothing foreign returned, and every missing event shares its id
                // with a returned event that was stored in another lifetime
                let extra = got.iter().any(|k| !want.contains(k));
                let missing: Vec<u64> = want.iter().filter(|k| !got.contains(k)).cloned().collect();
                let explained = !extra
                    && missing.iter().all(|m| {
                        got.iter().any(|g| id_of.get(g).is_some() && id_of.get(g) == id_of.get(m) && life_of.get(g) != life_of.get(m))
                    });
                if explained {
                    class = "dup-id-after-restart".into();
                } else {
                    class = "-".into();
                    out.fails.insert(0, "UNCLASSIFIED".into());
                }
                out.fails.push(format!(
                    "{}: stored keys {want:?}, returned {got:?} (ids of the missing: {:?})",
                    match qc { Some(c) => format!("FOR {}", hexs(&ctxs[c])), None => "unscoped".into() },
                    missing.iter().map(|m| id_of.get(m).cloned().unwrap_or(0)).collect::<Vec<_>>()
                ));
            }
        }
    }
    sess.kill();
    if out.fails.iter().any(|f| f == "UNCLASSIFIED") || out.fails.iter().any(|f| f.starts_with("WAL dirs")) {
        class = "-".into();
    }
    out.tallies.push(format!("class={class}"));
    out.op = optoks.join(" ");
    out.imp = imps.join(" ");
    if out.fails.is_empty() {
        let _ = std::fs::remove_dir_all(&root);
    }
    out
}


/// Minimal replay of `C12_scoped_complete_fails` on the real engine (not a check stream):
/// `c12 witness --out DIR` prints what the engine answers.
fn witness(a: &Args) {
    let root = a.out.join("witness");
    let _ = std::fs::remove_dir_all(&root);
    let cfg = SysCfg { shards: 1, event_per_zone: 50, fill_factor: 4, ..Default::default() };
    let t = EPOCH + 5;
    let mut sess = Session::start(&root, &cfg);
    sess.cmd("DEFINE ev FIELDS { k: \"int\" }").unwrap();
    sess.ctl(json!({"ctl": "id_clock", "readings": [t]}));
    println!("STORE k=1 -> {}", sess.cmd("STORE ev FOR c PAYLOAD {\"k\": 1}").unwrap().status_class());
    let r1 = sess.cmd("QUERY ev FOR c").unwrap();
    println!("QUERY ev FOR c -> {:?}", rows_of(&r1));
    while wal_rows(&root, 1).len() < 1 {
        std::thread::sleep(std::time::Duration::from_millis(5));
    }
    sess.kill();
    let mut sess = Session::start(&root, &cfg);
    println!("-- restart (new process on the same directories) --");
    sess.ctl(json!({"ctl": "id_clock", "readings": [t]}));
    println!("STORE k=2 -> {}", sess.cmd("STORE ev FOR c PAYLOAD {\"k\": 2}").unwrap().status_class());
    let r2 = sess.cmd("QUERY ev FOR c").unwrap();
    println!("QUERY ev FOR c -> {:?}", rows_of(&r2));
    let r3 = sess.cmd("QUERY ev").unwrap();
    println!("QUERY ev -> {:?}", rows_of(&r3));
    std::thread::sleep(std::time::Duration::from_millis(100));
    println!("WAL lines (key, shard, ctx, event_id): {:?}", wal_rows(&root, 1));
    sess.kill();
}


/// One-off replay of `C12_tag_is_shard_fails` / `C12_unscoped_union_fails` (a) on the real
/// engine: 1025 shards (start-up takes ~100 s: `Shard::spawn` sleeps 100 ms per shard).
fn witness1025(a: &Args) {
    let root = a.out.join("witness1025");
    let _ = std::fs::remove_dir_all(&root);
    let cfg = SysCfg { shards: 1025, event_per_zone: 50, fill_factor: 4, ..Default::default() };
    let t = EPOCH + 5;
    let mut sess = Session::start(&root, &cfg);
    println!("started: dead={}", sess.dead);
    println!("DEFINE -> {:?}", sess.cmd("DEFINE ev FIELDS { k: \"int\" }").map(|r| r.status_class()));
    for c in ["695", "198"] {
        println!("route {c} -> {:?}", sess.ctl(json!({"ctl": "route", "ctx": c})));
    }
    sess.ctl(json!({"ctl": "id_clock", "readings": [t]}));
    println!("STORE 695 -> {:?}", sess.cmd("STORE ev FOR \"695\" PAYLOAD {\"k\": 1}").map(|r| r.status_class()));
    println!("Q 695 -> {:?}", sess.cmd("QUERY ev FOR \"695\"").map(|r| rows_of(&r)));
    sess.ctl(json!({"ctl": "id_clock", "readings": [t]}));
    println!("STORE 198 -> {:?}", sess.cmd("STORE ev FOR \"198\" PAYLOAD {\"k\": 2}").map(|r| r.status_class()));
    println!("Q 198 -> {:?}", sess.cmd("QUERY ev FOR \"198\"").map(|r| rows_of(&r)));
    println!("QUERY ev -> {:?}", sess.cmd("QUERY ev").map(|r| rows_of(&r)));
    std::thread::sleep(std::time::Duration::from_millis(200));
    println!("WAL lines (key, shard, ctx, event_id): {:?}", wal_rows(&root, 1025));
    sess.kill();
}

fn clock_stream(a: &Args) {
    let mut s = Stream::create(&a.out, "clock");
    let idxs: Vec<u64> = (0..a.cases).filter(|i| a.only.is_none_or(|o| o == *i)).collect();
    let results: std::sync::Mutex<BTreeMap<u64, SysOutcome>> = std::sync::Mutex::new(BTreeMap::new());
    let next = std::sync::atomic::AtomicUsize::new(0);
    std::thread::scope(|sc| {
        for _ in 0..6 {
            sc.spawn(|| loop {
                let p = next.fetch_add(1, std::sync::atomic::Ordering::SeqCst);
                if p >= idxs.len() {
                    break;
                }
                let o = run_clock_case(a, idxs[p]);
                results.lock().unwrap().insert(idxs[p], o);
            });
        }
    });
    for (i, o) in results.into_inner().unwrap() {
        if let Some(e) = o.infra {
            eprintln!("clock case {i}: infrastructure: {e}");
            std::process::exit(3);
        }
        let mut class = "-".to_string();
        for t in &o.tallies {
            if let Some(c) = t.strip_prefix("class=") {
                class = c.to_string();
            } else {
                s.tally(t);
            }
        }
        s.case(&o.op, &o.imp, o.stores_ok > 0);
        if o.fails.is_empty() {
            s.oracle_ok();
        } else {
            s.tally(&format!("oracle failure class {class}"));
            s.oracle_fail(i, &class, &format!("{} :: history: {}", o.fails.join(" ;; "), o.op));
        }
    }
    s.finish();
}


// ------------------------------------------------------------------------------- topk stream

/// One row of the ghost history of the `topk` stream.
#[derive(Clone, Debug)]
struct TRow {
    ctx: usize,
    key: u64,
    flushed: bool,
}

/// Histories that end in ORDER BY k [DESC] LIMIT n [OFFSET m] reads (unscoped and FOR ctx) in
/// states where some shards hold only flushed rows, some only memtable rows, some both — the
/// reads that the top-k planner (`plan_with_rlte`) answers with a per-shard zone map. The
/// planner knows flushed zones only, so a shard that is absent from the map must still be asked
/// for its in-memory rows. `event_per_zone = 1`, integer order field without WHERE: the layout
/// in which the zone pre-selection itself is sound (C10's known finding is excluded).
/// Compared for equality with the model: the keys of every answer, in answer order.
fn run_topk_case(a: &Args, i: u64) -> SysOutcome {
    let mut r = Rng::for_case(a.seed, "topk", i);
    let n = match r.below(10) {
        0 => 1,
        1 | 2 | 3 => 2,
        4 | 5 => 3,
        6 => 4,
        7 => 5,
        8 => 6,
        _ => 8,
    };
    // split the shards into a group A (flushed first) and a group B (stored to afterwards)
    let mut in_a = vec![false; n];
    if n == 1 {
        in_a[0] = true;
    } else {
        let mut idx: Vec<usize> = (0..n).collect();
        r.shuffle(&mut idx);
        let na = 1 + r.below(n as u64 - 1) as usize;
        for &x in &idx[..na] {
            in_a[x] = true;
        }
    }
    let want_a = 1 + r.below(3) as usize;
    let want_b = 1 + r.below(3) as usize;
    let mut ctxs: Vec<String> = vec![];
    let mut is_a: Vec<bool> = vec![];
    let salt = r.below(1000);
    let mut j = 0u64;
    let (mut have_a, mut have_b) = (0, 0);
    while (have_a < want_a || have_b < want_b) && j < 5000 {
        let c = match j % 3 {
            0 => format!("g{salt}-{j}"),
            1 => format!("Tenant {salt}/{j}"),
            _ => format!("ü{salt}·{j}"),
        };
        j += 1;
        let home_a = in_a[spec_route(&c, n)];
        if n == 1 {
            // one shard: the two groups share it
            if have_a < want_a {
                have_a += 1;
                ctxs.push(c);
                is_a.push(true);
            } else {
                have_b += 1;
                ctxs.push(c);
                is_a.push(false);
            }
        } else if home_a && have_a < want_a {
            have_a += 1;
            ctxs.push(c);
            is_a.push(true);
        } else if !home_a && have_b < want_b {
            have_b += 1;
            ctxs.push(c);
            is_a.push(false);
        }
    }
    let a_ctx: Vec<usize> = (0..ctxs.len()).filter(|c| is_a[*c]).collect();
    let b_ctx: Vec<usize> = (0..ctxs.len()).filter(|c| !is_a[*c]).collect();

    let root = a.out.join(format!("topk-case-{i}"));
    let _ = std::fs::remove_dir_all(&root);
    // capacity 2000 rows: nothing flushes by itself
    let cfg = SysCfg { shards: n, event_per_zone: 1, fill_factor: 2000, ..Default::default() };
    let mut out = SysOutcome { op: String::new(), imp: String::new(), fails: vec![], infra: None, tallies: vec![], stores_ok: 0 };
    let mut sess = Session::start(&root, &cfg);
    if sess.dead {
        out.infra = Some("engine child did not start".into());
        return out;
    }
    match sess.cmd("DEFINE ev FIELDS { k: \"int\" }") {
        Some(rep) if rep.ok() => {}
        other => {
            out.infra = Some(format!("DEFINE failed: {other:?}"));
            return out;
        }
    }
    let mut optoks: Vec<String> = vec![format!("sys {n}")];
    let mut imps: Vec<String> = vec![];
    let mut rows: Vec<TRow> = vec![];
    let mut used: BTreeSet<u64> = BTreeSet::new();
    out.tallies.push(format!("shards={n}"));
    // where group B's values lie relative to group A's
    let b_mode = r.below(3); // 0 below, 1 above, 2 interleaved
    out.tallies.push(["group B values below A's", "group B values above A's", "group B values interleaved with A's"][b_mode as usize].into());

    // --- helpers as closures over the session are awkward with the borrow checker: macros
    macro_rules! store {
        ($c:expr, $lo:expr, $hi:expr) => {{
            let c: usize = $c;
            let mut key = $lo + r.below($hi - $lo);
            while !used.insert(key) {
                key = $lo + r.below($hi - $lo);
            }
            let Some(rep) = sess.cmd(&format!("STORE ev FOR \"{}\" PAYLOAD {{\"k\": {key}}}", ctxs[c])) else {
                out.infra = Some("child died on STORE".into());
                return out;
            };
            if rep.status_class() != "ok" {
                out.infra = Some(format!("STORE answered {}: {}", rep.status_class(), rep.raw));
                return out;
            }
            rows.push(TRow { ctx: c, key, flushed: false });
            out.stores_ok += 1;
            optoks.push(format!("S:{}:{key}", hexs(&ctxs[c])));
            imps.push("S=ok".into());
        }};
    }
    macro_rules! flush {
        () => {{
            let Some(rep) = sess.cmd("FLUSH") else {
                out.infra = Some("child died on FLUSH".into());
                return out;
            };
            if !rep.ok() {
                out.infra = Some(format!("FLUSH answered {}", rep.raw));
                return out;
            }
            for x in rows.iter_mut() {
                x.flushed = true;
            }
            optoks.push("F".into());
            imps.push("F".into());
            out.tallies.push("flush".into());
        }};
    }
    let (a_lo, a_hi) = (100_000u64, 200_000u64);
    let (b_lo, b_hi) = match b_mode {
        0 => (1u64, 90_000u64),
        1 => (210_000u64, 300_000u64),
        _ => (100_000u64, 200_000u64),
    };
    let layout = r.below(6);
    let many = |r: &mut Rng| 25 + r.below(60);
    let few = |r: &mut Rng| 1 + r.below(6);
    match layout {
        0 | 1 => {
            // group A flushed, group B in memory only
            for _ in 0..many(&mut r) {
                store!(*r.pick(&a_ctx), a_lo, a_hi);
            }
            flush!();
            for _ in 0..few(&mut r) {
                store!(*r.pick(&b_ctx), b_lo, b_hi);
            }
            out.tallies.push("layout: A flushed, B memtable only".into());
        }
        2 => {
            for _ in 0..(5 + r.below(40)) {
                let c = if r.chance(2, 3) { *r.pick(&a_ctx) } else { *r.pick(&b_ctx) };
                if is_a[c] { store!(c, a_lo, a_hi) } else { store!(c, b_lo, b_hi) }
            }
            out.tallies.push("layout: nothing flushed".into());
        }
        3 => {
            for _ in 0..many(&mut r) {
                let c = if r.chance(2, 3) { *r.pick(&a_ctx) } else { *r.pick(&b_ctx) };
                if is_a[c] { store!(c, a_lo, a_hi) } else { store!(c, b_lo, b_hi) }
            }
            flush!();
            out.tallies.push("layout: everything flushed".into());
        }
        4 => {
            // A flushed and then more in memory, B memory only
            for _ in 0..many(&mut r) {
                store!(*r.pick(&a_ctx), a_lo, a_hi);
            }
            flush!();
            for _ in 0..few(&mut r) {
                store!(*r.pick(&a_ctx), a_lo, a_hi);
            }
            for _ in 0..few(&mut r) {
                store!(*r.pick(&b_ctx), b_lo, b_hi);
            }
            out.tallies.push("layout: A flushed + memtable, B memtable only".into());
        }
        _ => {
            // A flushed, B flushed later, then A in memory again
            for _ in 0..many(&mut r) {
                store!(*r.pick(&a_ctx), a_lo, a_hi);
            }
            flush!();
            for _ in 0..(5 + r.below(30)) {
                store!(*r.pick(&b_ctx), b_lo, b_hi);
            }
            flush!();
            for _ in 0..few(&mut r) {
                store!(*r.pick(&a_ctx), a_lo, a_hi);
            }
            out.tallies.push("layout: two flushes, then A memtable".into());
        }
    }
    let rounds = 1 + r.below(2);
    for round in 0..rounds {
        if round > 0 {
            // a later state of the same engine: restart and / or more rows on either side
            // a kill is used only while nothing was ever flushed: after a manual FLUSH later WAL
            // lines may sit in an unlinked file (C01's subject), which is not what is examined here
            let ever_flushed = rows.iter().any(|x| x.flushed) || optoks.iter().any(|t| t == "F");
            match (r.below(4), ever_flushed) {
                (0, false) => {
                    let t0 = std::time::Instant::now();
                    let unflushed = rows.iter().filter(|x| !x.flushed).count();
                    while wal_rows(&root, n).len() < unflushed {
                        if t0.elapsed().as_millis() > 20000 {
                            out.infra = Some("WAL did not drain within 20 s before the kill".into());
                            return out;
                        }
                        std::thread::sleep(std::time::Duration::from_millis(5));
                    }
                    sess.kill();
                    sess = Session::start(&root, &cfg);
                    if sess.dead {
                        out.infra = Some("engine child did not restart".into());
                        return out;
                    }
                    optoks.push("R".into());
                    imps.push("R".into());
                    out.tallies.push("restart: kill".into());
                }
                (0, true) | (1, _) => {
                    if !sess.shutdown() {
                        out.infra = Some("clean shutdown reported errors".into());
                        return out;
                    }
                    for x in rows.iter_mut() {
                        x.flushed = true;
                    }
                    sess = Session::start(&root, &cfg);
                    if sess.dead {
                        out.infra = Some("engine child did not restart".into());
                        return out;
                    }
                    optoks.push("R".into());
                    imps.push("R".into());
                    out.tallies.push("restart: clean shutdown".into());
                }
                _ => {}
            }
            for _ in 0..few(&mut r) {
                let c = r.below(ctxs.len() as u64) as usize;
                if is_a[c] { store!(c, a_lo, a_hi) } else { store!(c, b_lo, b_hi) }
            }
        }
        // what kind of state the reads see
        let shard_state: Vec<(bool, bool)> = (0..n)
            .map(|sh| {
                let f = rows.iter().any(|x| x.flushed && spec_route(&ctxs[x.ctx], n) == sh);
                let m = rows.iter().any(|x| !x.flushed && spec_route(&ctxs[x.ctx], n) == sh);
                (f, m)
            })
            .collect();
        let only_mem = shard_state.iter().filter(|s| !s.0 && s.1).count();
        let with_flushed = shard_state.iter().filter(|s| s.0).count();
        if only_mem > 0 && with_flushed > 0 {
            out.tallies.push("state: memtable-only shards beside flushed shards".into());
        } else if with_flushed == 0 {
            out.tallies.push("state: nothing flushed anywhere".into());
        } else if shard_state.iter().all(|s| !s.1) {
            out.tallies.push("state: everything flushed".into());
        } else {
            out.tallies.push("state: every occupied shard has flushed rows, some also memtable rows".into());
        }
        let total = rows.len() as u64;
        let nflushed = rows.iter().filter(|x| x.flushed).count() as u64;
        let reads = 5 + r.below(5);
        for _ in 0..reads {
            let scope: Option<usize> = if r.chance(3, 5) { None } else { Some(r.below(ctxs.len() as u64) as usize) };
            let asc = r.chance(1, 2);
            let (lim, off) = match r.below(8) {
                0 => (total + 3, 0),
                1 => (total, r.below(3)),
                _ => *r.pick(&[(1u64, 0u64), (2, 0), (3, 0), (2, 1), (5, 0), (1, 3), (4, 2), (1, 1), (8, 0)]),
            };
            // truth by brute force
            let mut matching: Vec<&TRow> = rows.iter().filter(|x| scope.is_none_or(|c| c == x.ctx)).collect();
            matching.sort_by_key(|x| x.key);
            if !asc {
                matching.reverse();
            }
            let truth: Vec<u64> = matching.iter().skip(off as usize).take(lim as usize).map(|x| x.key).collect();
            // Is the zone pre-selection sound for this read? (`event_per_zone = 1`: one zone per
            // flushed row; the planner counts flushed rows of *all* contexts up to 10*(lim+off)
            // and keeps the zones up to that value — rows of other contexts can push a scoped
            // read's rows beyond the cutoff: C10's finding, not asserted here.)
            let kk = 10 * (lim + off);
            let planned = nflushed >= kk && kk > 0;
            let sound = if !planned {
                true
            } else {
                let mut f: Vec<u64> = rows.iter().filter(|x| x.flushed).map(|x| x.key).collect();
                f.sort();
                if !asc {
                    f.reverse();
                }
                let cutoff = f[kk as usize - 1];
                matching
                    .iter()
                    .take((lim + off) as usize)
                    .all(|x| !x.flushed || if asc { x.key <= cutoff } else { x.key >= cutoff })
            };
            if !sound {
                out.tallies.push("scoped top-k beyond the planner's cutoff (C10 territory): not issued".into());
                continue;
            }
            let text = format!(
                "QUERY ev{} ORDER BY k{} LIMIT {lim}{}",
                match scope {
                    Some(c) => format!(" FOR \"{}\"", ctxs[c]),
                    None => String::new(),
                },
                if asc { "" } else { " DESC" },
                if off > 0 { format!(" OFFSET {off}") } else { String::new() }
            );
            let Some(rep) = sess.cmd(&text) else {
                out.infra = Some("child died on QUERY".into());
                return out;
            };
            let Some(got_rows) = (if rep.ok() { rows_of(&rep) } else { None }) else {
                out.infra = Some(format!("{text} answered {}: {}", rep.status_class(), rep.raw));
                return out;
            };
            let got: Vec<u64> = got_rows.iter().map(|x| x.0).collect();
            optoks.push(format!(
                "T:{}:{}:{lim}:{off}",
                match scope {
                    Some(c) => hexs(&ctxs[c]),
                    None => "*".into(),
                },
                if asc { "a" } else { "d" }
            ));
            imps.push(format!("T=[{}]", got.iter().map(|x| x.to_string()).collect::<Vec<_>>().join(",")));
            out.tallies.push(
                match (scope.is_some(), planned) {
                    (false, true) => "unscoped top-k, zone plan possible",
                    (false, false) => "unscoped top-k, too few flushed rows for a zone plan",
                    (true, true) => "scoped top-k, zone plan possible",
                    (true, false) => "scoped top-k, too few flushed rows for a zone plan",
                }
                .into(),
            );
            if planned && only_mem > 0 {
                out.tallies.push("top-k read with a memtable-only shard outside the zone plan".into());
                let mem_in_truth = matching.iter().skip(off as usize).take(lim as usize).any(|x| !x.flushed);
                if mem_in_truth {
                    out.tallies.push("… whose true answer holds memtable rows".into());
                }
            }
            if got != truth {
                // which shards' rows are missing / foreign
                let missing: Vec<String> = truth
                    .iter()
                    .filter(|k| !got.contains(k))
                    .map(|k| {
                        let x = rows.iter().find(|x| x.key == *k).unwrap();
                        format!("k={k} (shard {}, {})", spec_route(&ctxs[x.ctx], n), if x.flushed { "flushed" } else { "memtable" })
                    })
                    .collect();
                out.fails.push(format!("{text}: expected {truth:?}, got {got:?}; missing {missing:?}"));
            }
            for (k, id, cc) in &got_rows {
                if scope.is_some_and(|c| ctxs[c] != *cc) {
                    out.fails.push(format!("{text}: row k={k} has context {}", hexs(cc)));
                }
                if tag_of(*id) as usize != spec_route(cc, n) {
                    out.fails.push(format!("{text}: k={k} id={id} tag {} but hash%n = {}", tag_of(*id), spec_route(cc, n)));
                }
            }
        }
        // and the plain reads in the same state
        let Some(rep) = sess.cmd("QUERY ev") else {
            out.infra = Some("child died on QUERY".into());
            return out;
        };
        let Some(all) = (if rep.ok() { rows_of(&rep) } else { None }) else {
            out.infra = Some(format!("QUERY answered {}: {}", rep.status_class(), rep.raw));
            return out;
        };
        optoks.push("QA".into());
        imps.push(format!("QA={}", show_pairs(all.iter().map(|(k, id, _)| (*k, tag_of(*id))).collect())));
        let mut want: Vec<u64> = rows.iter().map(|x| x.key).collect();
        want.sort();
        let mut got: Vec<u64> = all.iter().map(|x| x.0).collect();
        got.sort();
        if want != got {
            out.fails.push(format!("unscoped: stored keys {want:?}, returned {got:?}"));
        }
    }
    sess.kill();
    out.op = optoks.join(" ");
    out.imp = imps.join(" ");
    if out.fails.is_empty() {
        let _ = std::fs::remove_dir_all(&root);
    }
    out
}

fn topk_stream(a: &Args) {
    let mut s = Stream::create(&a.out, "topk");
    let idxs: Vec<u64> = (0..a.cases).filter(|i| a.only.is_none_or(|o| o == *i)).collect();
    let results: std::sync::Mutex<BTreeMap<u64, SysOutcome>> = std::sync::Mutex::new(BTreeMap::new());
    let next = std::sync::atomic::AtomicUsize::new(0);
    std::thread::scope(|sc| {
        for _ in 0..6 {
            sc.spawn(|| loop {
                let p = next.fetch_add(1, std::sync::atomic::Ordering::SeqCst);
                if p >= idxs.len() {
                    break;
                }
                let o = run_topk_case(a, idxs[p]);
                results.lock().unwrap().insert(idxs[p], o);
            });
        }
    });
    for (i, o) in results.into_inner().unwrap() {
        if let Some(e) = o.infra {
            eprintln!("topk case {i}: infrastructure: {e}");
            std::process::exit(3);
        }
        for t in &o.tallies {
            s.tally(t);
        }
        s.case(&o.op, &o.imp, o.stores_ok > 0);
        if o.fails.is_empty() {
            s.oracle_ok();
        } else {
            s.oracle_fail(i, "-", &format!("{} :: history: {}", o.fails.join(" ;; "), o.op));
        }
    }
    s.finish();
}

fn sys_stream(a: &Args) {
    let mut s = Stream::create(&a.out, "sys");
    let idxs: Vec<u64> = (0..a.cases).filter(|i| a.only.is_none_or(|o| o == *i)).collect();
    // cases are independent engine instances: run a few at a time
    let workers = 6usize;
    let results: std::sync::Mutex<BTreeMap<u64, SysOutcome>> = std::sync::Mutex::new(BTreeMap::new());
    let next = std::sync::atomic::AtomicUsize::new(0);
    std::thread::scope(|sc| {
        for _ in 0..workers {
            sc.spawn(|| loop {
                let p = next.fetch_add(1, std::sync::atomic::Ordering::SeqCst);
                if p >= idxs.len() {
                    break;
                }
                let o = run_sys_case(a, idxs[p]);
                results.lock().unwrap().insert(idxs[p], o);
            });
        }
    });
    let results = results.into_inner().unwrap();
    for (i, o) in results {
        if let Some(e) = o.infra {
            eprintln!("sys case {i}: infrastructure: {e}");
            std::process::exit(3);
        }
        for t in &o.tallies {
            s.tally(t);
        }
        s.case(&o.op, &o.imp, o.stores_ok > 0);
        if o.fails.is_empty() {
            s.oracle_ok();
        } else {
            s.oracle_fail(i, "-", &format!("{} :: history: {}", o.fails.join(" ;; "), o.op));
        }
    }
    s.finish();
}

fn main() {
    sys::maybe_child();
    let mut a = parse_args();
    std::fs::create_dir_all(&a.out).unwrap();
    a.out = std::fs::canonicalize(&a.out).unwrap();
    match a.stream.as_str() {
        "route" => route_stream(&a),
        "sys" => sys_stream(&a),
        "clock" => clock_stream(&a),
        "topk" => topk_stream(&a),
        "witness" => witness(&a),
        "witness1025" => witness1025(&a),
        other => {
            eprintln!("unknown stream {other}");
            std::process::exit(2);
        }
    }
}
