//! end-to-end stream (filled in below)
use snel_harness::out::Args;
pub fn run(_a: &Args) {
    eprintln!("e2e stream not built yet");
    std::process::exit(2);
}
