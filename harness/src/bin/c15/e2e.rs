//! End-to-end stream: `QUERY a FOLLOWED BY|PRECEDED BY b LINKED BY k USING TIME t …` through
//! parse_command + dispatch_command of a real engine (child process, several shards, events in
//! memory and in flushed segments). Every case uses its own pair of event types in a shared
//! session. Oracle: the brute-force statement of C15 on the generated events. Where the answer
//! is fully determined (no RETURN clause, distinct times inside every link group and distinct
//! earliest times across groups) the emitted pairs are also compared with the Lean model
//! (`matchset` / `matchcount` op on the rows the sub-queries delivered, one zone per type; the pair
//! tokens are sorted on both sides — the order of link groups in the response is not compared);
//! other cases put `skip` on both sides.
use super::{oracle, spec_rows, Case, Cell, Col, Lit, Op, SpecRow, Zone, E};
use snel_harness::enc::hexs;
use snel_harness::out::{Args, Stream};
use snel_harness::rng::Rng;
use snel_harness::sys::{Reply, Session, SysCfg};
use std::collections::{BTreeMap, BTreeSet, HashMap};

#[derive(Clone, Debug)]
struct Ev {
    b: bool,
    ctx: String,
    k: Option<i64>,
    t: i64,
    x: i64,
    s: String,
    id: i64,
}

fn gen_where(r: &mut Rng, ta: &str, tb: &str, depth: u32) -> E {
    if depth > 0 && r.chance(2, 5) {
        let l = Box::new(gen_where(r, ta, tb, depth - 1));
        let rr = Box::new(gen_where(r, ta, tb, depth - 1));
        return if r.chance(1, 2) { E::And(l, rr) } else { E::Or(l, rr) };
    }
    let ty = match r.below(10) {
        0..=3 => ta,
        4..=8 => tb,
        _ => "zzother",
    };
    // only operators the plain query path evaluates exactly on every storage tier (C02 owns !=, NOT, IN)
    if r.chance(1, 4) {
        E::Cmp(format!("{ty}.s"), Op::Eq, Lit::S(r.pick(&["u", "v", "ab"]).to_string()))
    } else {
        E::Cmp(format!("{ty}.x"), *r.pick(&[Op::Eq, Op::Gt, Op::Gte, Op::Lt, Op::Lte]), Lit::I(r.range(0, 4)))
    }
}

/// the WHERE a per-type sub-query gets (`transform_where_clause_for_event_type`)
fn project(e: &E, ty: &str) -> Option<E> {
    let leaf = |f: &str| -> Option<String> {
        match f.split_once('.') {
            Some((ev, name)) => (ev == ty).then(|| name.to_string()),
            None => Some(f.to_string()),
        }
    };
    match e {
        E::Cmp(f, op, l) => leaf(f).map(|f| E::Cmp(f, *op, l.clone())),
        E::InI(f, v) => leaf(f).map(|f| E::InI(f, v.clone())),
        E::InS(f, v) => leaf(f).map(|f| E::InS(f, v.clone())),
        E::And(l, r) => match (project(l, ty), project(r, ty)) {
            (Some(a), Some(b)) => Some(E::And(Box::new(a), Box::new(b))),
            (Some(a), None) | (None, Some(a)) => Some(a),
            (None, None) => None,
        },
        E::Or(l, r) => match (project(l, ty), project(r, ty)) {
            (Some(a), Some(b)) => Some(E::Or(Box::new(a), Box::new(b))),
            (Some(a), None) | (None, Some(a)) => Some(a),
            (None, None) => None,
        },
        E::Not(x) => project(x, ty).map(|x| E::Not(Box::new(x))),
    }
}

/// ids the plain query `QUERY ty WHERE <projected>` returns: what the sequence sub-query delivers
/// cells of a delivered row that sequence matching depends on: k, t, x, s
type Cells = (Option<i64>, Option<i64>, Option<i64>, Option<String>);

fn delivered(s: &mut Session, ty: &str, wh: &Option<E>) -> Option<BTreeMap<i64, Cells>> {
    let q = match wh.as_ref().and_then(|e| project(e, ty)) {
        Some(e) => format!("QUERY {ty} WHERE {}", e.text()),
        None => format!("QUERY {ty}"),
    };
    let r = s.cmd(&q)?;
    if !r.ok() {
        return None;
    }
    let (id, k, t, x, sv) = (r.col("id"), r.col("k"), r.col("t"), r.col("x"), r.col("s"));
    let mut out = BTreeMap::new();
    for i in 0..r.rows.len() {
        if let Some(idv) = id.get(i).and_then(|v| v.as_i64()) {
            let cell = |c: &Vec<serde_json::Value>| c.get(i).and_then(|v| v.as_i64());
            out.insert(idv, (cell(&k), cell(&t), cell(&x), sv.get(i).and_then(|v| v.as_str()).map(|s| s.to_string())));
        }
    }
    Some(out)
}

fn zone_of(evs: &[&Ev]) -> Zone {
    // what batches_to_zones builds: the time field typed i64, every other payload column as text
    Zone {
        cols: vec![
            ("context_id".into(), Col::S(evs.iter().map(|e| e.ctx.clone()).collect())),
            ("t".into(), Col::I(evs.iter().map(|e| Some(e.t)).collect())),
            ("k".into(), Col::S(evs.iter().map(|e| e.k.map(|k| k.to_string()).unwrap_or_else(|| "null".into())).collect())),
            ("x".into(), Col::S(evs.iter().map(|e| e.x.to_string()).collect())),
            ("s".into(), Col::S(evs.iter().map(|e| e.s.clone()).collect())),
            ("id".into(), Col::S(evs.iter().map(|e| e.id.to_string()).collect())),
        ],
    }
}

/// zone for the oracle: null link stays absent
fn spec_zone_of(evs: &[&Ev]) -> Zone {
    Zone {
        cols: vec![
            ("context_id".into(), Col::S(evs.iter().map(|e| e.ctx.clone()).collect())),
            ("t".into(), Col::I(evs.iter().map(|e| Some(e.t)).collect())),
            ("k".into(), Col::I(evs.iter().map(|e| e.k).collect())),
            ("x".into(), Col::I(evs.iter().map(|e| Some(e.x)).collect())),
            ("s".into(), Col::S(evs.iter().map(|e| e.s.clone()).collect())),
            ("id".into(), Col::I(evs.iter().map(|e| Some(e.id)).collect())),
        ],
    }
}

fn wait_visible(s: &mut Session, ty: &str, n: usize) -> bool {
    for _ in 0..1000 {
        match s.cmd(&format!("QUERY {ty} RETURN [id]")) {
            Some(r) if r.ok() && r.rows.len() >= n => return true,
            Some(_) => std::thread::sleep(std::time::Duration::from_millis(10)),
            None => return false,
        }
    }
    n == 0
}

fn pairs_of(r: &Reply, preceded: bool, ta: &str, tb: &str, ia: &HashMap<i64, usize>, ib: &HashMap<i64, usize>) -> Result<Vec<(usize, usize)>, String> {
    if r.rows.len() % 2 != 0 {
        return Err(format!("odd number of rows: {}", r.rows.len()));
    }
    let ty = r.col("event_type");
    let id = r.col("id");
    if r.rows.is_empty() {
        return Ok(vec![]);
    }
    if id.len() != r.rows.len() {
        return Err("no id column".into());
    }
    let mut out = vec![];
    for i in (0..r.rows.len()).step_by(2) {
        let (t0, t1) = (ty[i].as_str().unwrap_or(""), ty[i + 1].as_str().unwrap_or(""));
        let (e0, e1) = if preceded { (tb, ta) } else { (ta, tb) };
        if t0 != e0 || t1 != e1 {
            return Err(format!("rows {i},{} have types {t0},{t1}", i + 1));
        }
        let bad = || format!("id not int: {}", r.raw.replace('\n', " "));
        let (i0, i1) = (id[i].as_i64().ok_or_else(bad)?, id[i + 1].as_i64().ok_or_else(bad)?);
        let (ida, idb) = if preceded { (i1, i0) } else { (i0, i1) };
        out.push((*ia.get(&ida).ok_or("unknown a id")?, *ib.get(&idb).ok_or("unknown b id")?));
    }
    Ok(out)
}

/// one event-type pair with its stored events and its query
struct Job {
    ta: String,
    tb: String,
    preceded: bool,
    wh: Option<E>,
    limit: Option<usize>,
    ret: Option<Vec<&'static str>>,
    evs: Vec<Ev>,
}

struct Judged {
    failures: Vec<(String, String)>,
    op: String,
    imp: String,
    nontrivial: bool,
    pairs: usize,
    judged_a: usize,
    notes: Vec<&'static str>,
}

impl Job {
    fn ret_defect(&self) -> bool {
        self.ret.as_ref().is_some_and(|l| !l.contains(&"k") || !l.contains(&"t"))
    }
    /// a-events (passing their own side) whose nearest same-link partner in time fails the b-side
    /// WHERE while a farther partner passes it — decided on the stored events
    fn shadowed_a_events(&self) -> usize {
        let eva: Vec<&Ev> = self.evs.iter().filter(|e| !e.b).collect();
        let evb: Vec<&Ev> = self.evs.iter().filter(|e| e.b).collect();
        let ra = spec_rows(&[spec_zone_of(&eva)]);
        let rb = spec_rows(&[spec_zone_of(&evb)]);
        let mut n = 0;
        for (a, row_a) in eva.iter().zip(ra.iter()) {
            if a.k.is_none() || !super::side(&self.wh, &self.ta, row_a) {
                continue;
            }
            let cands: Vec<(i64, bool)> = evb
                .iter()
                .zip(rb.iter())
                .filter(|(b, _)| b.k == a.k && if self.preceded { b.t < a.t } else { b.t >= a.t })
                .map(|(b, row_b)| (b.t, super::side(&self.wh, &self.tb, row_b)))
                .collect();
            let nearest = if self.preceded { cands.iter().map(|c| c.0).max() } else { cands.iter().map(|c| c.0).min() };
            if let Some(nt) = nearest {
                if cands.iter().any(|c| c.0 == nt && !c.1) && cands.iter().any(|c| c.0 != nt && c.1) {
                    n += 1;
                }
            }
        }
        n
    }

    fn query(&self, with_limit: bool) -> String {
        let mut q = format!("QUERY {} {} {} LINKED BY k USING TIME t", self.ta, if self.preceded { "PRECEDED BY" } else { "FOLLOWED BY" }, self.tb);
        if let Some(e) = &self.wh {
            q.push_str(&format!(" WHERE {}", e.text()));
        }
        if let Some(l) = &self.ret {
            q.push_str(&format!(" RETURN [{}]", l.join(", ")));
        }
        if let (true, Some(l)) = (with_limit, self.limit) {
            q.push_str(&format!(" LIMIT {l}"));
        }
        q
    }

    /// ask the engine (plain per-type queries before and after the sequence query) and judge
    fn ask_and_judge(&self, sess: &mut Session) -> Judged {
        let (ta, tb, wh, preceded, limit) = (&self.ta, &self.tb, &self.wh, self.preceded, self.limit);
        let q = self.query(true);
        let pre_a = delivered(sess, ta, wh);
        let pre_b = delivered(sess, tb, wh);
        let rep = sess.cmd(&q);
        let rep_again = sess.cmd(&q);
        let rep_unl = if limit.is_some() { sess.cmd(&self.query(false)) } else { None };
        let del_a = delivered(sess, ta, wh);
        let del_b = delivered(sess, tb, wh);

        let eva: Vec<&Ev> = self.evs.iter().filter(|e| !e.b).collect();
        let evb: Vec<&Ev> = self.evs.iter().filter(|e| e.b).collect();
        let ia: HashMap<i64, usize> = eva.iter().enumerate().map(|(n, e)| (e.id, n)).collect();
        let ib: HashMap<i64, usize> = evb.iter().enumerate().map(|(n, e)| (e.id, n)).collect();
        let ra = spec_rows(&[spec_zone_of(&eva)]);
        let rb = spec_rows(&[spec_zone_of(&evb)]);
        let ret_defect = self.ret_defect();
        let mut j = Judged { failures: vec![], op: "skip".into(), imp: "skip".into(), nontrivial: false, pairs: 0, judged_a: 0, notes: vec![] };

        // what the sub-queries delivered vs. the specification's filter (C02's subject)
        // (ids and the stored values of k, t, x, s: a delivered row with a lost cell differs too)
        let cells = |e: &Ev| -> Cells { (e.k, Some(e.t), Some(e.x), Some(e.s.clone())) };
        let spec_a: BTreeMap<i64, Cells> = ra.iter().zip(eva.iter()).filter(|(row, _)| super::side(wh, ta, row)).map(|(_, e)| (e.id, cells(e))).collect();
        let spec_b: BTreeMap<i64, Cells> = rb.iter().zip(evb.iter()).filter(|(row, _)| super::side(wh, tb, row)).map(|(_, e)| (e.id, cells(e))).collect();
        let (del_a, del_b) = match (del_a, del_b) {
            (Some(x), Some(y)) => (x, y),
            _ => {
                j.failures.push(("-".into(), format!("plain per-type query failed | {q}")));
                return j;
            }
        };
        let stable = pre_a.as_ref() == Some(&del_a) && pre_b.as_ref() == Some(&del_b);
        let subquery_differs = del_a != spec_a || del_b != spec_b || !stable;
        if subquery_differs {
            j.notes.push("subquery-filter-differs-from-spec");
        }

        let parsed = match &rep {
            Some(rp) if rp.ok() => pairs_of(rp, preceded, ta, tb, &ia, &ib),
            Some(rp) => Err(format!("status {} {}", rp.status_class(), rp.message)),
            None => Err("child died".into()),
        };
        let parsed_unl = match (&rep_unl, limit) {
            (Some(rp), Some(_)) if rp.ok() => pairs_of(rp, preceded, ta, tb, &ia, &ib).ok(),
            _ => None,
        };
        let pairs = match parsed {
            Ok(p) => p,
            Err(e) => {
                let class = if ret_defect {
                    "return-omits-link-or-time"
                } else if subquery_differs {
                    "subquery-filter-differs"
                } else {
                    "-"
                };
                j.failures.push((class.into(), format!("{e} | {q}")));
                return j;
            }
        };
        j.pairs = pairs.len();
        // the same query asked twice in a row must give the same answer for the exact comparison
        let answer_stable = match &rep_again {
            Some(rp) if rp.ok() => pairs_of(rp, preceded, ta, tb, &ia, &ib).ok().as_ref() == Some(&pairs),
            _ => false,
        };
        if !answer_stable {
            j.notes.push("answer-differs-between-two-identical-queries");
        }
        // identical pair returned more than once: an a-event was delivered twice by its sub-query
        let dedup = |v: &Vec<(usize, usize)>| -> Vec<(usize, usize)> {
            let mut seen = BTreeSet::new();
            v.iter().cloned().filter(|p| seen.insert(*p)).collect()
        };
        let has_dups = dedup(&pairs).len() != pairs.len() || parsed_unl.as_ref().is_some_and(|u| dedup(u).len() != u.len());
        let raw_pairs = pairs.clone();
        let pairs = dedup(&pairs);
        let parsed_unl = if has_dups { None } else { parsed_unl };
        if has_dups {
            j.failures.push(("duplicate-pair".into(), format!("the same pair is returned more than once: {raw_pairs:?} | {q}")));
        }

        // model comparison where the answer is determined: the matcher on the delivered rows
        let key = |e: &Ev| e.k.map(|k| format!("i64:{k}")).unwrap_or_else(|| "str:null".into());
        let da: Vec<&Ev> = eva.iter().cloned().filter(|e| del_a.contains_key(&e.id)).collect();
        let db: Vec<&Ev> = evb.iter().cloned().filter(|e| del_b.contains_key(&e.id)).collect();
        let mut group_times: BTreeMap<(String, bool), Vec<i64>> = BTreeMap::new();
        let mut earliest: BTreeMap<String, i64> = BTreeMap::new();
        for e in da.iter().chain(db.iter()) {
            group_times.entry((key(e), e.b)).or_default().push(e.t);
            let en = earliest.entry(key(e)).or_insert(e.t);
            *en = (*en).min(e.t);
        }
        let case = Case {
            preceded,
            tf: "t".into(),
            lf: "k".into(),
            ty_a: ta.clone(),
            ty_b: tb.clone(),
            limit,
            wh: wh.clone(),
            za: if da.is_empty() { vec![] } else { vec![zone_of(&da)] },
            zb: if db.is_empty() { vec![] } else { vec![zone_of(&db)] },
            with_evaluator: true,
        };
        let ties_in_group = group_times.values().any(|v| {
            let mut w = v.clone();
            w.sort();
            w.dedup();
            w.len() != v.len()
        });
        let mut ev: Vec<i64> = earliest.values().cloned().collect();
        ev.sort();
        let n_ev = ev.len();
        ev.dedup();
        let pos_a: HashMap<i64, usize> = da.iter().enumerate().map(|(n, e)| (e.id, n)).collect();
        let pos_b: HashMap<i64, usize> = db.iter().enumerate().map(|(n, e)| (e.id, n)).collect();
        let observed_ok = pairs.iter().all(|&(pa, pb)| pos_a.contains_key(&eva[pa].id) && pos_b.contains_key(&evb[pb].id));
        if !observed_ok {
            j.notes.push("delivered-rows-observation-inconsistent");
        }
        // the model is fed the stored values: only sound when the delivered cells equal them
        let cells_ok = da.iter().all(|e| del_a.get(&e.id) == Some(&cells(e))) && db.iter().all(|e| del_b.get(&e.id) == Some(&cells(e)));
        if !cells_ok {
            j.notes.push("delivered-row-with-lost-cell");
        }
        let determined = self.ret.is_none() && !ties_in_group && ev.len() == n_ev && !has_dups && observed_ok && stable && answer_stable && cells_ok;
        if determined {
            j.notes.push("compared-with-model");
            let order: Vec<String> = earliest.keys().cloned().collect();
            // The property speaks of the set of pairs: the order in which link groups appear in the
            // response is not compared (sorted tokens on both sides). When LIMIT cut the answer,
            // which groups made it depends on that order too: only the count is compared.
            let cut = limit.is_some_and(|l| parsed_unl.as_ref().map_or(pairs.len() >= l, |u| u.len() > l));
            j.op = super::op_line(if cut { "matchcount" } else { "matchset" }, &case, &order);
            let mut toks: Vec<String> = vec![];
            if !cut {
                for &(pa, pb) in &pairs {
                    let (xa, xb) = (pos_a[&eva[pa].id], pos_b[&evb[pb].id]);
                    toks.push(if preceded { format!("0.{xb}>0.{xa}") } else { format!("0.{xa}>0.{xb}") });
                }
                toks.sort();
            }
            let mut t = vec!["ok".to_string(), pairs.len().to_string()];
            t.extend(toks);
            j.imp = t.join(" ");
            j.nontrivial = !pairs.is_empty();
        } else {
            j.notes.push("not-compared:ties-or-return-or-unstable");
        }

        // oracle
        let v = oracle(preceded, "t", "k", ta, tb, wh, limit, &ra, &rb, &pairs, parsed_unl.as_deref(), !(has_dups && limit.is_some()));
        j.judged_a = v.judged_a;
        // Is a failure explained by what the per-type sub-queries delivered (C02/C07 defects of the
        // plain read path)? Decided from the case's own data: the same statement evaluated on the
        // rows and cell values the plain queries returned (before or after the sequence query) must
        // hold. A failure that remains on those rows is not absorbed by that class.
        let explained = |da_map: &BTreeMap<i64, Cells>, db_map: &BTreeMap<i64, Cells>| -> bool {
            let build = |evl: &Vec<&Ev>, m: &BTreeMap<i64, Cells>| -> (Vec<SpecRow>, HashMap<i64, usize>) {
                let mut rows = vec![];
                let mut pos = HashMap::new();
                for e in evl.iter().filter(|e| m.contains_key(&e.id)) {
                    let (k, t, x, sv) = m[&e.id].clone();
                    let mut cells = BTreeMap::new();
                    cells.insert("context_id".to_string(), Cell::S(e.ctx.clone()));
                    cells.insert("k".to_string(), Cell::I(k));
                    cells.insert("t".to_string(), Cell::I(t));
                    cells.insert("x".to_string(), Cell::I(x));
                    if let Some(sv) = sv {
                        cells.insert("s".to_string(), Cell::S(sv));
                    }
                    cells.insert("id".to_string(), Cell::I(Some(e.id)));
                    pos.insert(e.id, rows.len());
                    rows.push(SpecRow { zone: 0, idx: rows.len(), cells });
                }
                (rows, pos)
            };
            let (xa, pa) = build(&eva, da_map);
            let (xb, pb) = build(&evb, db_map);
            let map_pairs = |v: &[(usize, usize)]| -> Option<Vec<(usize, usize)>> {
                v.iter().map(|&(i, jx)| Some((*pa.get(&eva[i].id)?, *pb.get(&evb[jx].id)?))).collect()
            };
            let Some(p2) = map_pairs(&pairs) else { return false };
            let u2 = parsed_unl.as_ref().and_then(|u| map_pairs(u));
            let v2 = oracle(preceded, "t", "k", ta, tb, wh, limit, &xa, &xb, &p2, u2.as_deref(), !(has_dups && limit.is_some()));
            v2.failures.iter().all(|f| f.0 == "null-link-grouped")
        };
        let explained_by_subqueries = !v.failures.is_empty()
            && subquery_differs
            && (explained(&del_a, &del_b) || matches!((&pre_a, &pre_b), (Some(x), Some(y)) if explained(x, y)));
        let mut by_class: BTreeMap<String, String> = BTreeMap::new();
        for (cl, d) in v.failures {
            let cl = if ret_defect {
                "return-omits-link-or-time".to_string()
            } else if cl == "null-link-grouped" {
                cl
            } else if explained_by_subqueries {
                "subquery-filter-differs".to_string()
            } else {
                // the sub-queries deliver only rows passing their side of the WHERE, so end-to-end a
                // nearest partner that fails WHERE is not the known matcher-level class: unclassified
                "-".to_string()
            };
            by_class.entry(cl).or_insert(d);
        }
        let data: Vec<String> = self
            .evs
            .iter()
            .map(|e| format!("{}{}:k={:?},t={},x={},s={}", if e.b { "b" } else { "a" }, e.id, e.k, e.t, e.x, e.s))
            .collect();
        for (cl, d) in by_class {
            j.failures.push((cl, format!("{d} | {q} | {} | answer {:?}", data.join(" "), pairs)));
        }
        j
    }
}

fn await_flush(sess: &mut Session) {
    let _ = sess.ctl(serde_json::json!({"ctl": "await_flush"}));
}

pub fn run(a: &Args) {
    let mut s = Stream::create(&a.out, "e2e");
    // a fresh engine (own directory, own configuration) every BLOCK cases keeps sessions small
    const BLOCK: u64 = 50;
    let new_session = |block: u64, s: &mut Stream| -> (std::path::PathBuf, SysCfg, Session) {
        let root = a.out.join(format!("c15-e2e-sys-{block}"));
        let _ = std::fs::remove_dir_all(&root);
        let mut r0 = Rng::for_case(a.seed, "e2e-cfg", block);
        let cfg = SysCfg { shards: 1 + r0.below(3) as usize, event_per_zone: 1 + r0.below(3) as usize, fill_factor: 1 + r0.below(2) as usize, ..SysCfg::default() };
        s.tally(&format!("cfg:shards={},epz={},ff={}", cfg.shards, cfg.event_per_zone, cfg.fill_factor));
        let sess = Session::start(&root, &cfg);
        (root, cfg, sess)
    };
    let mut cur_block = u64::MAX;
    let (mut root, mut cfg, mut sess) = new_session(a.only.unwrap_or(0) / BLOCK, &mut s);
    let mut next_id = 1i64;
    for i in 0..a.cases {
        let mut r = Rng::for_case(a.seed, "e2e", i);
        if a.only.is_some_and(|o| o != i) {
            continue;
        }
        if cur_block == u64::MAX {
            cur_block = i / BLOCK;
        } else if i / BLOCK != cur_block {
            cur_block = i / BLOCK;
            sess.shutdown();
            let _ = std::fs::remove_dir_all(&root);
            (root, cfg, sess) = new_session(cur_block, &mut s);
        }
        let (ta, tb) = (format!("sa{i}"), format!("sb{i}"));
        let preceded = r.chance(2, 5);
        let distinct_times = r.chance(3, 5);
        let na = r.below(7) as usize;
        let nb = r.below(7) as usize;
        let nullable = r.chance(1, 4);
        let mut used: BTreeSet<i64> = BTreeSet::new();
        let mut evs: Vec<Ev> = vec![];
        for jx in 0..na + nb {
            let mut t = r.range(0, if distinct_times { 60 } else { 6 });
            while distinct_times && used.contains(&t) {
                t = r.range(0, 60);
            }
            used.insert(t);
            evs.push(Ev {
                b: jx >= na,
                ctx: format!("c{}", r.below(4)),
                k: if nullable && r.chance(1, 4) { None } else { Some(1 + r.below(3) as i64 + if r.chance(1, 10) { 3 } else { 0 }) },
                t,
                x: r.range(0, 4),
                s: r.pick(&["u", "v", "ab"]).to_string(),
                id: next_id,
            });
            next_id += 1;
        }
        // planted shape (1 case in 4): a condition on the partner side only, and in one link group an
        // a-event whose nearest partner in time fails it while a farther one passes — the shape on
        // which "matched iff a qualifying partner exists" depends on the sub-queries pre-filtering
        let shaped = r.chance(1, 4);
        let mut wh = if r.chance(1, 2) { let d = r.below(3) as u32; Some(gen_where(&mut r, &ta, &tb, d)) } else { None };
        if shaped {
            let c = r.range(1, 4);
            let (op, x_fail, x_pass) = match r.below(3) {
                0 => (Op::Eq, if c == 4 { 0 } else { c + 1 }, c),
                1 => (Op::Gte, c - 1, c),
                _ => (Op::Lt, c, c - 1),
            };
            wh = Some(E::Cmp(format!("{tb}.x"), op, Lit::I(c)));
            let mut fresh = |r: &mut Rng, lo: i64, hi: i64| -> i64 {
                let mut t = r.range(lo, hi);
                while used.contains(&t) {
                    t = r.range(lo, hi);
                }
                used.insert(t);
                t
            };
            // three increasing times; FOLLOWED BY: a, b(fail), b(pass); PRECEDED BY: b(pass), b(fail), a
            let t1 = fresh(&mut r, 100, 130);
            let t2 = fresh(&mut r, 140, 170);
            let t3 = fresh(&mut r, 180, 210);
            let kk = 7 + r.below(2) as i64; // a link value of its own
            let plant = [(false, if preceded { t3 } else { t1 }, 0), (true, t2, x_fail), (true, if preceded { t1 } else { t3 }, x_pass)];
            for (b, t, x) in plant {
                evs.push(Ev { b, ctx: format!("c{}", r.below(4)), k: Some(kk), t, x, s: r.pick(&["u", "v", "ab"]).to_string(), id: next_id });
                next_id += 1;
            }
        }
        let (na, nb) = (evs.iter().filter(|e| !e.b).count(), evs.iter().filter(|e| e.b).count());
        let limit = if !shaped && r.chance(1, 4) { Some(r.below(5) as usize) } else { None };
        // (a RETURN list with two or more payload fields comes back with permuted cells — C07/C20 —
        // so the only RETURN variants here are the ones that omit the link or the time field)
        let ret: Option<Vec<&'static str>> = match if shaped { 9 } else { r.below(10) } {
            0 => Some(match r.below(3) {
                0 | 1 => vec!["id"],
                _ => vec!["id", "k"],
            }),
            _ => None,
        };
        // racing: the query is sent while automatic flushes may still be in flight
        let racing = r.chance(1, 8);
        let job = Job { ta: ta.clone(), tb: tb.clone(), preceded, wh, limit, ret, evs };
        // debugging aid: `--from N` does not drive the cases before N (ids and seeds stay the same)
        if let Some(p) = a.extra.iter().position(|x| x == "--from") {
            if i < a.extra[p + 1].parse::<u64>().unwrap() {
                continue;
            }
        }

        // ---- drive the engine
        let ktype = if nullable { "int | null" } else { "int" };
        let mut dead = false;
        for ty in [&ta, &tb] {
            let d = format!("DEFINE {ty} FIELDS {{ k: \"{ktype}\", t: \"datetime\", x: \"int\", s: \"string\", id: \"int\" }}");
            match sess.cmd(&d) {
                Some(rp) if rp.ok() => {}
                _ => dead = true,
            }
        }
        let mut order: Vec<usize> = (0..job.evs.len()).collect();
        r.shuffle(&mut order);
        let mut flushes = 0;
        for &jx in &order {
            let e = &job.evs[jx];
            let k = e.k.map(|k| k.to_string()).unwrap_or_else(|| "null".into());
            let c = format!(
                "STORE {} FOR {} PAYLOAD {{\"k\":{k},\"t\":{},\"x\":{},\"s\":\"{}\",\"id\":{}}}",
                if e.b { &tb } else { &ta }, e.ctx, e.t, e.x, e.s, e.id
            );
            match sess.cmd(&c) {
                Some(rp) if rp.ok() => {}
                Some(rp) => {
                    s.oracle_fail(i, "-", &format!("STORE rejected: {} -> {}", c, rp.raw));
                    dead = true;
                }
                None => dead = true,
            }
            if r.chance(1, 6) {
                let _ = sess.cmd("FLUSH");
                flushes += 1;
            }
        }
        if dead || !wait_visible(&mut sess, &ta, na) || !wait_visible(&mut sess, &tb, nb) {
            // not a judgement about sequence queries: the case is not run (counted in the evidence).
            // A STORE that was acknowledged and is still invisible after 10 s is C01/C03's subject.
            s.tally(if sess.dead || dead { "infra:session-lost" } else { "infra:stored-event-not-visible-after-10s" });
            s.case("skip", "skip", false);
            if sess.dead {
                sess = Session::start(&root, &cfg);
            }
            continue;
        }
        s.tally(if preceded { "link:preceded" } else { "link:followed" });
        s.tally(if job.wh.is_some() { "where:some" } else { "where:none" });
        s.tally(if job.limit.is_some() { "limit:some" } else { "limit:none" });
        s.tally(match (&job.ret, job.ret_defect()) {
            (None, _) => "return:none",
            (Some(_), false) => "return:with-link-and-time",
            (Some(_), true) => "return:omits-link-or-time",
        });
        s.tally(if racing { "mode:racing-with-flush" } else { "mode:flushes-settled" });
        if shaped {
            s.tally("planted:b-side-condition-nearest-fails-farther-passes");
        }
        let shadowed = job.shadowed_a_events();
        if shadowed > 0 {
            s.tally(if preceded { "shape:preceded:case-with-a-whose-nearest-b-fails-where-and-farther-b-passes" } else { "shape:followed:case-with-a-whose-nearest-b-fails-where-and-farther-b-passes" });
            s.tally_n("shape:a-events-whose-nearest-b-fails-where-and-farther-b-passes", shadowed as u64);
        }
        if std::env::var("C15_TRACE").is_ok() {
            eprintln!("case {i} racing={racing}");
        }
        s.tally_n("events", job.evs.len() as u64);
        s.tally_n("flush_commands", flushes);
        if job.evs.iter().any(|e| e.k.is_none()) {
            s.tally("has-null-link");
        }

        if !racing {
            await_flush(&mut sess);
        }
        let mut j = job.ask_and_judge(&mut sess);
        if (racing && !j.failures.is_empty()) || j.failures.iter().any(|f| f.0 == "-") {
            // was it background activity (flush in flight, compaction)? ask again on the unchanged
            // data once everything has settled
            await_flush(&mut sess);
            std::thread::sleep(std::time::Duration::from_millis(50));
            let j2 = job.ask_and_judge(&mut sess);
            if j2.failures.is_empty() {
                for f in j.failures.iter_mut() {
                    if f.0 != "duplicate-pair" {
                        f.0 = "transient-answer".into();
                    }
                }
                j.op = "skip".into();
                j.imp = "skip".into();
                j.nontrivial = false;
            } else {
                j = j2;
            }
        }
        if racing {
            // a row can be momentarily invisible without making the answer wrong (a farther
            // partner is chosen): the exact comparison is for settled engines only
            j.op = "skip".into();
            j.imp = "skip".into();
            j.nontrivial = false;
        }
        if sess.dead {
            sess = Session::start(&root, &cfg);
        }
        for n in &j.notes {
            s.tally(n);
        }
        s.tally_n("pairs", j.pairs as u64);
        s.tally_n("oracle:a_events_judged", j.judged_a as u64);
        s.case(&j.op, &j.imp, j.nontrivial);
        if j.failures.is_empty() {
            s.oracle_ok();
        } else {
            for (cl, d) in &j.failures {
                s.tally(&format!("oracle-fail:{cl}"));
                s.oracle_fail(i, cl, d);
            }
        }
        let _ = hexs;
    }
    sess.shutdown();
    s.finish();
}
