//! C15 — sequence queries. Streams:
//!   match      real `ColumnarGrouper` + `SequenceWhereEvaluator` + `SequenceMatcher` on generated
//!              columnar zones; compared pair by pair with the Lean model; brute-force oracle.
//!   prefilter  the same, but every type's rows are first reduced to those that pass that type's
//!              projected WHERE (what the per-type sub-queries of the end-to-end path deliver).
//!   e2e        `QUERY a FOLLOWED BY|PRECEDED BY b LINKED BY k USING TIME t …` through the whole
//!              engine (child process, shards, memory/flushed placement); oracle only.
use serde_json::json;
use snel_db::command::types::{CompareOp, EventSequence, EventTarget, Expr, SequenceLink};
use snel_db::engine::core::read::cache::DecompressedBlock;
use snel_db::engine::core::read::sequence::group::RowIndex;
use snel_db::engine::core::read::sequence::{ColumnarGrouper, SequenceMatcher, SequenceWhereEvaluator};
use snel_db::engine::core::{CandidateZone, ColumnValues};
use snel_db::engine::schema::registry::{MiniSchema, SchemaRegistry};
use snel_db::engine::schema::types::FieldType;
use snel_harness::enc::hexs;
use snel_harness::out::{parse_args, Args, Stream};
use snel_harness::rng::Rng;
use std::collections::{BTreeMap, HashMap, HashSet};
use std::sync::Arc;
use tokio::sync::RwLock;

mod e2e;

// ------------------------------------------------------------------ case description

#[derive(Clone, Debug)]
pub enum Col {
    I(Vec<Option<i64>>),
    S(Vec<String>),
}
impl Col {
    fn len(&self) -> usize {
        match self {
            Col::I(v) => v.len(),
            Col::S(v) => v.len(),
        }
    }
}
#[derive(Clone, Debug, Default)]
pub struct Zone {
    pub cols: Vec<(String, Col)>,
}
impl Zone {
    fn rows(&self) -> usize {
        self.cols.iter().map(|c| c.1.len()).max().unwrap_or(0)
    }
}

#[derive(Clone, Copy, Debug, PartialEq)]
pub enum Op {
    Eq,
    Neq,
    Gt,
    Gte,
    Lt,
    Lte,
}
impl Op {
    fn tok(self) -> &'static str {
        match self {
            Op::Eq => "eq",
            Op::Neq => "neq",
            Op::Gt => "gt",
            Op::Gte => "gte",
            Op::Lt => "lt",
            Op::Lte => "lte",
        }
    }
    fn real(self) -> CompareOp {
        match self {
            Op::Eq => CompareOp::Eq,
            Op::Neq => CompareOp::Neq,
            Op::Gt => CompareOp::Gt,
            Op::Gte => CompareOp::Gte,
            Op::Lt => CompareOp::Lt,
            Op::Lte => CompareOp::Lte,
        }
    }
    pub fn text(self) -> &'static str {
        match self {
            Op::Eq => "=",
            Op::Neq => "!=",
            Op::Gt => ">",
            Op::Gte => ">=",
            Op::Lt => "<",
            Op::Lte => "<=",
        }
    }
}
#[derive(Clone, Debug)]
pub enum Lit {
    I(i64),
    S(String),
}
#[derive(Clone, Debug)]
pub enum E {
    Cmp(String, Op, Lit),
    InI(String, Vec<i64>),
    InS(String, Vec<String>),
    And(Box<E>, Box<E>),
    Or(Box<E>, Box<E>),
    Not(Box<E>),
}

impl E {
    fn tokens(&self, out: &mut Vec<String>) {
        match self {
            E::Cmp(f, op, l) => {
                out.push("c".into());
                out.push(hexs(f));
                out.push(op.tok().into());
                out.push(match l {
                    Lit::I(v) => format!("i{v}"),
                    Lit::S(s) => format!("s{}", hexs(s)),
                });
            }
            E::InI(f, vs) => {
                out.push("I".into());
                out.push(hexs(f));
                out.push(vs.len().to_string());
                out.extend(vs.iter().map(|v| v.to_string()));
            }
            E::InS(f, vs) => {
                out.push("S".into());
                out.push(hexs(f));
                out.push(vs.len().to_string());
                out.extend(vs.iter().map(|v| hexs(v)));
            }
            E::And(l, r) => {
                out.push("&".into());
                l.tokens(out);
                r.tokens(out);
            }
            E::Or(l, r) => {
                out.push("|".into());
                l.tokens(out);
                r.tokens(out);
            }
            E::Not(e) => {
                out.push("!".into());
                e.tokens(out);
            }
        }
    }
    fn real(&self) -> Expr {
        match self {
            E::Cmp(f, op, l) => Expr::Compare {
                field: f.clone(),
                op: op.real(),
                value: match l {
                    Lit::I(v) => json!(v),
                    Lit::S(s) => json!(s),
                },
            },
            E::InI(f, vs) => Expr::In { field: f.clone(), values: vs.iter().map(|v| json!(v)).collect() },
            E::InS(f, vs) => Expr::In { field: f.clone(), values: vs.iter().map(|v| json!(v)).collect() },
            E::And(l, r) => Expr::And(Box::new(l.real()), Box::new(r.real())),
            E::Or(l, r) => Expr::Or(Box::new(l.real()), Box::new(r.real())),
            E::Not(e) => Expr::Not(Box::new(e.real())),
        }
    }
    /// text form for the end-to-end stream
    pub fn text(&self) -> String {
        match self {
            E::Cmp(f, op, Lit::I(v)) => format!("{f} {} {v}", op.text()),
            E::Cmp(f, op, Lit::S(s)) => format!("{f} {} \"{s}\"", op.text()),
            E::InI(f, vs) => format!("{f} IN ({})", vs.iter().map(|v| v.to_string()).collect::<Vec<_>>().join(", ")),
            E::InS(f, vs) => format!("{f} IN ({})", vs.iter().map(|v| format!("\"{v}\"")).collect::<Vec<_>>().join(", ")),
            E::And(l, r) => format!("({} AND {})", l.text(), r.text()),
            E::Or(l, r) => format!("({} OR {})", l.text(), r.text()),
            E::Not(e) => format!("NOT ({})", e.text()),
        }
    }
    fn has_side_leaf(&self, ty: &str) -> bool {
        match self {
            E::Cmp(f, _, _) | E::InI(f, _) | E::InS(f, _) => match f.split_once('.') {
                Some((ev, _)) => ev == ty,
                None => true,
            },
            E::And(l, r) | E::Or(l, r) => l.has_side_leaf(ty) || r.has_side_leaf(ty),
            E::Not(e) => e.has_side_leaf(ty),
        }
    }
}

#[derive(Clone, Debug)]
pub struct Case {
    pub preceded: bool,
    pub tf: String,
    pub lf: String,
    pub ty_a: String,
    pub ty_b: String,
    pub limit: Option<usize>,
    pub wh: Option<E>,
    pub za: Vec<Zone>,
    pub zb: Vec<Zone>,
    pub with_evaluator: bool,
}

// ------------------------------------------------------------------ the specification side
// (independent of the matcher: values are read straight from the generated data)

#[derive(Clone, Debug, PartialEq, Eq, Hash, PartialOrd, Ord)]
pub enum LinkVal {
    Int(i64),
    Ts(i64),
    Str(String),
}

#[derive(Clone, Debug)]
pub struct SpecRow {
    pub zone: usize,
    pub idx: usize,
    pub cells: BTreeMap<String, Cell>,
}
#[derive(Clone, Debug)]
pub enum Cell {
    I(Option<i64>),
    S(String),
}

fn spec_rows(zs: &[Zone]) -> Vec<SpecRow> {
    let mut out = vec![];
    for (z, zone) in zs.iter().enumerate() {
        for i in 0..zone.rows() {
            let mut cells = BTreeMap::new();
            for (name, col) in &zone.cols {
                match col {
                    Col::I(v) => {
                        if let Some(x) = v.get(i) {
                            cells.insert(name.clone(), Cell::I(*x));
                        }
                    }
                    Col::S(v) => {
                        if let Some(x) = v.get(i) {
                            cells.insert(name.clone(), Cell::S(x.clone()));
                        }
                    }
                }
            }
            out.push(SpecRow { zone: z, idx: i, cells });
        }
    }
    out
}

impl SpecRow {
    /// numeric reading of a value: integers, and strings that spell an i64
    pub fn num(&self, f: &str) -> Option<i64> {
        match self.cells.get(f)? {
            Cell::I(v) => *v,
            Cell::S(s) => s.parse::<i64>().ok(),
        }
    }
    pub fn text(&self, f: &str) -> Option<&str> {
        match self.cells.get(f)? {
            Cell::S(s) => Some(s.as_str()),
            Cell::I(_) => None,
        }
    }
    pub fn link(&self, lf: &str) -> Option<LinkVal> {
        match lf {
            "context_id" => self.text(lf).map(|s| LinkVal::Str(s.to_string())),
            "timestamp" => self.num(lf).map(LinkVal::Ts),
            _ => self.num(lf).map(LinkVal::Int).or_else(|| self.text(lf).map(|s| LinkVal::Str(s.to_string()))),
        }
    }
}

/// Conditions addressed to event type `ty`: leaves prefixed with another type drop out
/// (AND/OR keep the remaining operand), unprefixed leaves apply to both sides.
pub fn side_ok(e: &E, ty: &str, r: &SpecRow) -> Option<bool> {
    fn leaf_field<'a>(f: &'a str, ty: &str) -> Option<&'a str> {
        match f.split_once('.') {
            Some((ev, name)) => (ev == ty).then_some(name),
            None => Some(f),
        }
    }
    match e {
        E::Cmp(f, op, lit) => {
            let f = leaf_field(f, ty)?;
            Some(match lit {
                Lit::I(v) => match r.num(f) {
                    Some(n) => match op {
                        Op::Eq => n == *v,
                        Op::Neq => n != *v,
                        Op::Gt => n > *v,
                        Op::Gte => n >= *v,
                        Op::Lt => n < *v,
                        Op::Lte => n <= *v,
                    },
                    None => false,
                },
                Lit::S(s) => match r.text(f) {
                    Some(x) => match op {
                        Op::Eq => x == s,
                        Op::Neq => x != s,
                        _ => false,
                    },
                    None => false,
                },
            })
        }
        E::InI(f, vs) => {
            let f = leaf_field(f, ty)?;
            Some(r.num(f).is_some_and(|n| vs.contains(&n)))
        }
        E::InS(f, vs) => {
            let f = leaf_field(f, ty)?;
            Some(r.text(f).is_some_and(|x| vs.iter().any(|v| v == x)))
        }
        E::And(l, rr) => match (side_ok(l, ty, r), side_ok(rr, ty, r)) {
            (Some(a), Some(b)) => Some(a && b),
            (Some(a), None) | (None, Some(a)) => Some(a),
            (None, None) => None,
        },
        E::Or(l, rr) => match (side_ok(l, ty, r), side_ok(rr, ty, r)) {
            (Some(a), Some(b)) => Some(a || b),
            (Some(a), None) | (None, Some(a)) => Some(a),
            (None, None) => None,
        },
        E::Not(x) => side_ok(x, ty, r).map(|b| !b),
    }
}
pub fn side(wh: &Option<E>, ty: &str, r: &SpecRow) -> bool {
    match wh {
        None => true,
        Some(e) => side_ok(e, ty, r).unwrap_or(true),
    }
}

pub struct Verdict {
    pub failures: Vec<(String, String)>, // (class, detail)
    pub judged_a: usize,
    pub skipped_groups: usize,
}

/// Brute-force statement of C15 on the returned pairs (`pairs`: indices into `ra` / `rb`).
/// `unlimited`: number of pairs and the pair set without LIMIT (second run of the real code).
pub fn oracle(
    preceded: bool,
    tf: &str,
    lf: &str,
    ty_a: &str,
    ty_b: &str,
    wh: &Option<E>,
    limit: Option<usize>,
    ra: &[SpecRow],
    rb: &[SpecRow],
    pairs: &[(usize, usize)],
    unlimited: Option<&[(usize, usize)]>,
    judge_completeness: bool,
) -> Verdict {
    let mut v = Verdict { failures: vec![], judged_a: 0, skipped_groups: 0 };
    let ok_a: Vec<bool> = ra.iter().map(|r| side(wh, ty_a, r)).collect();
    let ok_b: Vec<bool> = rb.iter().map(|r| side(wh, ty_b, r)).collect();
    let time_ok = |ta: i64, tb: i64| if preceded { tb < ta } else { tb >= ta };
    // 1. soundness of every returned pair
    let mut seen_a = HashSet::new();
    for &(ia, ib) in pairs {
        let (a, b) = (&ra[ia], &rb[ib]);
        let la = a.link(lf);
        let lb = b.link(lf);
        if la.is_none() && lb.is_none() {
            v.failures.push(("null-link-grouped".into(), format!("pair a{}.{} b{}.{}: both link values are null/absent", a.zone, a.idx, b.zone, b.idx)));
        } else if la.is_none() || la != lb {
            v.failures.push(("-".into(), format!("pair a{}.{} b{}.{} link values differ/absent", a.zone, a.idx, b.zone, b.idx)));
        }
        if let (Some(ta), Some(tb)) = (a.num(tf), b.num(tf)) {
            if !time_ok(ta, tb) {
                v.failures.push(("-".into(), format!("pair a{}.{}@{ta} b{}.{}@{tb} violates the time relation", a.zone, a.idx, b.zone, b.idx)));
            }
        }
        if !ok_a[ia] || !ok_b[ib] {
            v.failures.push(("-".into(), format!("pair a{}.{} b{}.{} a side fails its WHERE conditions", a.zone, a.idx, b.zone, b.idx)));
        }
        if !seen_a.insert(ia) {
            v.failures.push(("-".into(), format!("a{}.{} matched twice", a.zone, a.idx)));
        }
    }
    // 2. LIMIT
    if let Some(l) = limit {
        if pairs.len() > l {
            v.failures.push(("-".into(), format!("{} pairs returned with LIMIT {l}", pairs.len())));
        }
        if let Some(u) = unlimited {
            if pairs.len() != l.min(u.len()) {
                v.failures.push(("-".into(), format!("LIMIT {l}: {} pairs, unlimited run has {}", pairs.len(), u.len())));
            }
            let us: HashSet<_> = u.iter().collect();
            if pairs.iter().any(|p| !us.contains(p)) {
                v.failures.push(("-".into(), "LIMIT result contains a pair the unlimited run does not".into()));
            }
        }
    }
    if !judge_completeness {
        return v;
    }
    // 3. completeness: judged on the unlimited result when there is one
    let full: &[(usize, usize)] = match (limit, unlimited) {
        (Some(_), Some(u)) => u,
        (Some(l), None) if pairs.len() >= l => return v,
        _ => pairs,
    };
    let matched: HashSet<usize> = full.iter().map(|p| p.0).collect();
    let mut groups: BTreeMap<LinkVal, (Vec<usize>, Vec<usize>)> = BTreeMap::new();
    for (i, r) in ra.iter().enumerate() {
        if let Some(k) = r.link(lf) {
            groups.entry(k).or_default().0.push(i);
        }
    }
    for (i, r) in rb.iter().enumerate() {
        if let Some(k) = r.link(lf) {
            groups.entry(k).or_default().1.push(i);
        }
    }
    for (k, (ga, gb)) in &groups {
        let times_a: Vec<Option<i64>> = ga.iter().map(|&i| ra[i].num(tf)).collect();
        let times_b: Vec<Option<i64>> = gb.iter().map(|&i| rb[i].num(tf)).collect();
        if times_a.iter().chain(times_b.iter()).any(|t| t.is_none()) {
            // a row without a time value: the property does not say how it is ordered
            v.skipped_groups += 1;
            continue;
        }
        for (&ia, ta) in ga.iter().zip(times_a.iter()) {
            let ta = ta.unwrap();
            v.judged_a += 1;
            let cands: Vec<(usize, i64)> =
                gb.iter().zip(times_b.iter()).map(|(&ib, tb)| (ib, tb.unwrap())).filter(|&(_, tb)| time_ok(ta, tb)).collect();
            let qualifies = ok_a[ia] && cands.iter().any(|&(ib, _)| ok_b[ib]);
            let is_matched = matched.contains(&ia);
            if qualifies && !is_matched {
                // which known defect explains it, if any
                let nearest_t = if preceded { cands.iter().map(|c| c.1).max() } else { cands.iter().map(|c| c.1).min() };
                let nearest_fails = cands.iter().any(|&(ib, tb)| Some(tb) == nearest_t && !ok_b[ib]);
                let class = if nearest_fails {
                    "nearest-partner-fails-where"
                } else {
                    "-"
                };
                v.failures.push((
                    class.into(),
                    format!("a{}.{}@{ta} link {k:?} has a qualifying partner but is not matched", ra[ia].zone, ra[ia].idx),
                ));
            } else if !qualifies && is_matched {
                v.failures.push(("-".into(), format!("a{}.{}@{ta} link {k:?} matched without a qualifying partner", ra[ia].zone, ra[ia].idx)));
            }
        }
    }
    v
}

// ------------------------------------------------------------------ real code

fn column_values(c: &Col, force_bitmap: bool) -> ColumnValues {
    match c {
        Col::S(v) => {
            let mut bytes = vec![];
            let mut ranges = vec![];
            for s in v {
                ranges.push((bytes.len(), s.len()));
                bytes.extend_from_slice(s.as_bytes());
            }
            ColumnValues::new(Arc::new(DecompressedBlock::from_bytes(bytes)), ranges)
        }
        Col::I(v) => {
            let mut bytes = vec![];
            for x in v {
                bytes.extend_from_slice(&x.unwrap_or(0).to_le_bytes());
            }
            let nulls = if force_bitmap || v.iter().any(|x| x.is_none()) {
                let start = bytes.len();
                let n = (v.len() + 7) / 8;
                let mut nb = vec![0u8; n.max(1)];
                for (i, x) in v.iter().enumerate() {
                    if x.is_none() {
                        nb[i / 8] |= 1 << (i % 8);
                    }
                }
                bytes.extend_from_slice(&nb);
                Some((start, nb.len()))
            } else {
                None
            };
            ColumnValues::new_typed_i64(Arc::new(DecompressedBlock::from_bytes(bytes)), 0, v.len(), nulls)
        }
    }
}

fn real_zones(zs: &[Zone], ty: &str, force_bitmap: bool) -> Vec<CandidateZone> {
    zs.iter()
        .enumerate()
        .map(|(i, z)| {
            let mut m = HashMap::new();
            for (name, col) in &z.cols {
                m.insert(name.clone(), column_values(col, force_bitmap));
            }
            let mut cz = CandidateZone::new(i as u32, format!("streaming_{ty}"));
            cz.set_values(m);
            cz
        })
        .collect()
}

fn registry(ty_a: &str, ty_b: &str, dir: &std::path::Path, n: u64) -> Arc<RwLock<SchemaRegistry>> {
    let path = dir.join(format!("schemas-{n}.bin"));
    let _ = std::fs::remove_file(&path);
    let mut reg = SchemaRegistry::new_with_path(path).expect("registry");
    for (ty, own) in [(ty_a, "ua"), (ty_b, "ub")] {
        let mut fields = HashMap::new();
        for f in ["k", "t", "x", "s", own] {
            fields.insert(f.to_string(), FieldType::String);
        }
        let _ = reg.define(ty, MiniSchema { fields });
    }
    Arc::new(RwLock::new(reg))
}

pub struct RealOut {
    pub order: Vec<String>,
    /// (first row, second row) of `matched_rows` as (zone, idx)
    pub pairs: Vec<((usize, usize), (usize, usize))>,
}

fn run_real(
    rt: &tokio::runtime::Runtime,
    c: &Case,
    za: &[Zone],
    zb: &[Zone],
    limit: Option<usize>,
    reg: &Arc<RwLock<SchemaRegistry>>,
    force_bitmap: bool,
) -> Result<RealOut, String> {
    let mut zones_by_type = HashMap::new();
    if !za.is_empty() {
        zones_by_type.insert(c.ty_a.clone(), real_zones(za, &c.ty_a, force_bitmap));
    }
    if !zb.is_empty() {
        zones_by_type.insert(c.ty_b.clone(), real_zones(zb, &c.ty_b, force_bitmap));
    }
    let grouper = ColumnarGrouper::new(c.lf.clone(), c.tf.clone());
    let groups = grouper.group_zones_by_link_field(&zones_by_type);
    let order: Vec<String> = groups.keys().cloned().collect();
    let sequence = EventSequence {
        head: EventTarget { event: c.ty_a.clone(), field: None },
        links: vec![(
            if c.preceded { SequenceLink::PrecededBy } else { SequenceLink::FollowedBy },
            EventTarget { event: c.ty_b.clone(), field: None },
        )],
    };
    let mut matcher = SequenceMatcher::new(sequence, c.tf.clone());
    if c.with_evaluator || c.wh.is_some() {
        let real_where = c.wh.as_ref().map(|e| e.real());
        let types = vec![c.ty_a.clone(), c.ty_b.clone()];
        let ev = rt.block_on(SequenceWhereEvaluator::new(real_where.as_ref(), &types, reg))?;
        matcher = matcher.with_where_evaluator(ev);
    }
    let matches = matcher.match_sequences(groups, &zones_by_type, limit);
    let mut pairs = vec![];
    for m in matches {
        if m.matched_rows.len() != 2 {
            return Err(format!("matched_rows has {} entries", m.matched_rows.len()));
        }
        let (t0, r0) = &m.matched_rows[0];
        let (t1, r1) = &m.matched_rows[1];
        let (e0, e1) = if c.preceded { (&c.ty_b, &c.ty_a) } else { (&c.ty_a, &c.ty_b) };
        if t0 != e0 || t1 != e1 {
            return Err(format!("matched_rows types {t0},{t1}"));
        }
        pairs.push(((r0.zone_idx, r0.row_idx), (r1.zone_idx, r1.row_idx)));
    }
    Ok(RealOut { order, pairs })
}

/// rows that pass `ty`'s projected WHERE, decided by the real evaluator; zone structure kept.
/// Returns the reduced zones and for each zone the original row index of every kept row.
fn prefilter_real(
    rt: &tokio::runtime::Runtime,
    c: &Case,
    zs: &[Zone],
    ty: &str,
    reg: &Arc<RwLock<SchemaRegistry>>,
) -> Result<(Vec<Zone>, Vec<Vec<usize>>), String> {
    let real_where = c.wh.as_ref().map(|e| e.real());
    let types = vec![c.ty_a.clone(), c.ty_b.clone()];
    let ev = rt.block_on(SequenceWhereEvaluator::new(real_where.as_ref(), &types, reg))?;
    let cz = real_zones(zs, ty, false);
    let mut out = vec![];
    let mut maps = vec![];
    for (zi, z) in zs.iter().enumerate() {
        let keep: Vec<usize> =
            (0..z.rows()).filter(|&i| ev.evaluate_row(ty, &cz[zi], &RowIndex { zone_idx: zi, row_idx: i })).collect();
        let mut nz = Zone::default();
        for (name, col) in &z.cols {
            // a column shorter than the zone keeps its readable prefix only if every kept row
            // lies inside it; otherwise the cell is absent — represent by truncating at the first gap
            let col2 = match col {
                Col::I(v) => Col::I(keep.iter().map_while(|&i| v.get(i).copied()).collect()),
                Col::S(v) => Col::S(keep.iter().map_while(|&i| v.get(i).cloned()).collect()),
            };
            nz.cols.push((name.clone(), col2));
        }
        out.push(nz);
        maps.push(keep);
    }
    Ok((out, maps))
}

// ------------------------------------------------------------------ generator

const STRS: [&str; 6] = ["u", "v", "ab", "zz", "null", ""];

fn gen_expr(r: &mut Rng, c_types: (&str, &str), depth: u32) -> E {
    let (ta, tb) = c_types;
    if depth > 0 && r.chance(2, 5) {
        return match r.below(5) {
            0 | 1 => E::And(Box::new(gen_expr(r, c_types, depth - 1)), Box::new(gen_expr(r, c_types, depth - 1))),
            2 | 3 => E::Or(Box::new(gen_expr(r, c_types, depth - 1)), Box::new(gen_expr(r, c_types, depth - 1))),
            _ => E::Not(Box::new(gen_expr(r, c_types, depth - 1))),
        };
    }
    let prefix = match r.below(12) {
        0..=3 => format!("{ta}."),
        4..=8 => format!("{tb}."),
        9 => "other.".to_string(),
        _ => String::new(),
    };
    let base = if prefix.is_empty() {
        // unprefixed: core fields, or a payload field only one schema has
        *r.pick(&["timestamp", "context_id", "ua", "ub", "timestamp"])
    } else {
        *r.pick(&["x", "x", "x", "s", "s", "t", "k", "timestamp", "nosuch"])
    };
    let f = format!("{prefix}{base}");
    let ops = [Op::Eq, Op::Neq, Op::Gt, Op::Gte, Op::Lt, Op::Lte];
    match r.below(10) {
        0 => E::InI(f, (0..1 + r.below(3)).map(|_| r.range(0, 4)).collect()),
        1 => E::InS(f, (0..1 + r.below(3)).map(|_| r.pick(&STRS[..4]).to_string()).collect()),
        2 | 3 => E::Cmp(f, if r.chance(3, 4) { *r.pick(&ops[..2]) } else { *r.pick(&ops) }, Lit::S(r.pick(&STRS[..5]).to_string())),
        _ => E::Cmp(f, *r.pick(&ops), Lit::I(r.range(-1, 5))),
    }
}

fn gen_zone(r: &mut Rng, nrows: usize, c: &Case, own: &str, shape: u64, link_kind: u64, side_b: bool) -> Zone {
    let mut z = Zone::default();
    let times = |r: &mut Rng| -> Option<i64> {
        match shape {
            0 => Some(r.range(0, 3)),                                   // many ties
            1 => Some(r.range(0, 40)),                                  // mostly distinct
            2 => if r.chance(1, 6) { None } else { Some(r.range(0, 9)) }, // nulls
            3 => Some(r.range(-2, 6)),                                  // negative instants
            _ => Some(r.range(0, 9)),
        }
    };
    let ctx: Vec<String> = (0..nrows).map(|_| format!("c{}", r.below(3))).collect();
    z.cols.push(("context_id".into(), Col::S(ctx)));
    let ts: Vec<Option<i64>> = (0..nrows).map(|_| times(r)).collect();
    z.cols.push(("timestamp".into(), Col::I(ts)));
    if c.tf != "timestamp" {
        // payload time field: typed i64 (what batches_to_zones builds) or, rarely, strings
        if r.chance(1, 8) {
            let v: Vec<String> = (0..nrows).map(|_| times(r).map(|t| t.to_string()).unwrap_or_else(|| "null".into())).collect();
            z.cols.push((c.tf.clone(), Col::S(v)));
        } else {
            let v: Vec<Option<i64>> = (0..nrows).map(|_| times(r)).collect();
            z.cols.push((c.tf.clone(), Col::I(v)));
        }
    }
    if c.lf != "context_id" && c.lf != "timestamp" {
        // link column; link_kind 0: ints both sides, 1: strings both sides, 2: a int / b numeric strings,
        // 3: only-one-side values, 4: column missing in some zones
        let missing = link_kind == 4 && r.chance(1, 3);
        if !missing {
            let as_str = match link_kind {
                1 => true,
                2 => side_b,
                _ => r.chance(1, 10),
            };
            let pool_shift = if link_kind == 3 && side_b { 2 } else { 0 };
            if as_str {
                let v: Vec<String> = (0..nrows)
                    .map(|_| match r.below(10) {
                        0 => "null".to_string(),
                        1 => format!("0{}", 1 + r.below(3) + pool_shift),
                        2 | 3 if link_kind == 1 => r.pick(&STRS[..4]).to_string(),
                        _ => (1 + r.below(3) + pool_shift).to_string(),
                    })
                    .collect();
                z.cols.push((c.lf.clone(), Col::S(v)));
            } else {
                let v: Vec<Option<i64>> =
                    (0..nrows).map(|_| if r.chance(1, 12) { None } else { Some(1 + (r.below(3) + pool_shift) as i64) }).collect();
                z.cols.push((c.lf.clone(), Col::I(v)));
            }
        }
    }
    // payload: x numeric (typed or strings), s strings, own field
    if !r.chance(1, 15) {
        if r.chance(1, 2) {
            z.cols.push(("x".into(), Col::I((0..nrows).map(|_| if r.chance(1, 10) { None } else { Some(r.range(0, 4)) }).collect())));
        } else {
            z.cols.push(("x".into(), Col::S((0..nrows).map(|_| if r.chance(1, 10) { "null".to_string() } else { r.range(0, 4).to_string() }).collect())));
        }
    }
    if !r.chance(1, 15) {
        z.cols.push(("s".into(), Col::S((0..nrows).map(|_| r.pick(&STRS).to_string()).collect())));
    }
    z.cols.push((own.into(), Col::S((0..nrows).map(|_| r.range(0, 4).to_string()).collect())));
    if nrows > 1 && r.chance(1, 25) {
        // ragged zone: one payload column is shorter than the zone
        let i = z.cols.len() - 1;
        if let Col::S(v) = &mut z.cols[i].1 {
            v.pop();
        }
    }
    z
}

fn gen_case(r: &mut Rng) -> Case {
    let (ty_a, ty_b) = *r.pick(&[("a", "b"), ("a", "b"), ("page_view", "order"), ("b", "a")]);
    let mut c = Case {
        preceded: r.chance(2, 5),
        tf: if r.chance(1, 2) { "timestamp".into() } else { "t".into() },
        lf: match r.below(12) {
            0 => "context_id".into(),
            1 => "timestamp".into(),
            _ => "k".into(),
        },
        ty_a: ty_a.into(),
        ty_b: ty_b.into(),
        limit: if r.chance(2, 5) { Some(r.below(7) as usize) } else { None },
        wh: None,
        za: vec![],
        zb: vec![],
        with_evaluator: r.chance(1, 2),
    };
    if r.chance(3, 5) {
        c.wh = Some(if r.chance(1, 3) {
            // a single range condition on the b side: the shape that exposes the nearest-partner sweep
            let ops = [Op::Gt, Op::Gte, Op::Lt, Op::Lte, Op::Neq];
            E::Cmp(format!("{ty_b}.x"), *r.pick(&ops), Lit::I(r.range(0, 4)))
        } else {
            let d = r.below(4) as u32;
            gen_expr(r, (ty_a, ty_b), d)
        });
    }
    let shape = r.below(6);
    let link_kind = *r.pick(&[0, 0, 0, 0, 1, 1, 2, 2, 3, 4, 5, 0]);
    let nz_a = r.below(4) as usize;
    let nz_b = if r.chance(1, 12) { 0 } else { 1 + r.below(3) as usize };
    let big = r.chance(1, 8);
    for _ in 0..nz_a.max(if r.chance(9, 10) { 1 } else { 0 }) {
        let n = if big { r.below(14) } else { r.below(8) } as usize;
        let z = gen_zone(r, n, &c, "ua", shape, link_kind, false);
        c.za.push(z);
    }
    for _ in 0..nz_b {
        let n = if big { r.below(14) } else { r.below(8) } as usize;
        let z = gen_zone(r, n, &c, "ub", shape, link_kind, true);
        c.zb.push(z);
    }
    c
}

fn zone(cols: Vec<(&str, Col)>) -> Zone {
    Zone { cols: cols.into_iter().map(|(n, c)| (n.to_string(), c)).collect() }
}
fn ints(v: &[i64]) -> Col {
    Col::I(v.iter().map(|x| Some(*x)).collect())
}

/// fixed cases 0.. of the `match` stream: witnesses of the open defect (`Some(class)`: must still
/// fail with that class) and regression cases of the repaired ones (`None`: must pass)
fn witnesses() -> Vec<(Option<&'static str>, Case)> {
    let base = |preceded: bool, wh: Option<E>, za: Zone, zb: Zone| Case {
        preceded,
        tf: "timestamp".into(),
        lf: "k".into(),
        ty_a: "a".into(),
        ty_b: "b".into(),
        limit: None,
        wh,
        za: vec![za],
        zb: vec![zb],
        with_evaluator: true,
    };
    vec![
        (
            // a@1, b@2 (fails WHERE), b@3 (passes): a has a qualifying partner, none returned
            Some("nearest-partner-fails-where"),
            base(
                false,
                Some(E::Cmp("b.x".into(), Op::Eq, Lit::I(1))),
                zone(vec![("timestamp", ints(&[1])), ("k", ints(&[7]))]),
                zone(vec![("timestamp", ints(&[2, 3])), ("k", ints(&[7, 7])), ("x", ints(&[0, 1]))]),
            ),
        ),
        (
            // PRECEDED BY: a@10 with b@7 (fails), b@5 (passes)
            Some("nearest-partner-fails-where"),
            base(
                true,
                Some(E::Cmp("b.x".into(), Op::Eq, Lit::I(1))),
                zone(vec![("timestamp", ints(&[10])), ("k", ints(&[7]))]),
                zone(vec![("timestamp", ints(&[5, 7])), ("k", ints(&[7, 7])), ("x", ints(&[1, 0]))]),
            ),
        ),
        (
            // regression (fix e929a74): PRECEDED BY, no WHERE: a@1, a@10, b@5 — b@5 → a@10 is returned
            None,
            base(
                true,
                None,
                zone(vec![("timestamp", ints(&[1, 10])), ("k", ints(&[7, 7]))]),
                zone(vec![("timestamp", ints(&[5])), ("k", ints(&[7]))]),
            ),
        ),
        (
            // regression (fix 0bad566): a@-1 FOLLOWED BY b@0 is a pair (times compared as i64)
            None,
            base(
                false,
                None,
                zone(vec![("timestamp", ints(&[-1])), ("k", ints(&[7]))]),
                zone(vec![("timestamp", ints(&[0])), ("k", ints(&[7]))]),
            ),
        ),
    ]
}

// ------------------------------------------------------------------ op line

fn zones_tokens(zs: &[Zone], out: &mut Vec<String>) {
    out.push(zs.len().to_string());
    for z in zs {
        out.push(z.cols.len().to_string());
        for (name, col) in &z.cols {
            out.push(hexs(name));
            match col {
                Col::I(v) => {
                    out.push("I".into());
                    out.push(v.len().to_string());
                    out.extend(v.iter().map(|x| x.map(|x| x.to_string()).unwrap_or_else(|| "n".into())));
                }
                Col::S(v) => {
                    out.push("S".into());
                    out.push(v.len().to_string());
                    out.extend(v.iter().map(|s| hexs(s)));
                }
            }
        }
    }
}

fn op_line(kind: &str, c: &Case, order: &[String]) -> String {
    let mut t: Vec<String> = vec![
        kind.into(),
        if c.preceded { "P" } else { "F" }.into(),
        hexs(&c.tf),
        hexs(&c.lf),
        hexs(&c.ty_a),
        hexs(&c.ty_b),
        c.limit.map(|l| l.to_string()).unwrap_or_else(|| "-".into()),
        order.len().to_string(),
    ];
    t.extend(order.iter().map(|k| hexs(k)));
    match &c.wh {
        None => t.push("W0".into()),
        Some(e) => {
            t.push("W1".into());
            e.tokens(&mut t);
        }
    }
    zones_tokens(&c.za, &mut t);
    zones_tokens(&c.zb, &mut t);
    t.join(" ")
}

fn impl_line(pairs: &[((usize, usize), (usize, usize))]) -> String {
    let mut t = vec!["ok".to_string(), pairs.len().to_string()];
    t.extend(pairs.iter().map(|(p, q)| format!("{}.{}>{}.{}", p.0, p.1, q.0, q.1)));
    t.join(" ")
}

// ------------------------------------------------------------------ streams

fn index_of(rows: &[SpecRow], z: usize, i: usize) -> usize {
    rows.iter().position(|r| r.zone == z && r.idx == i).expect("row index returned by the matcher exists")
}

fn tally_case(s: &mut Stream, c: &Case, ra: &[SpecRow], rb: &[SpecRow]) {
    s.tally(if c.preceded { "link:preceded" } else { "link:followed" });
    s.tally(&format!("linkfield:{}", c.lf));
    s.tally(&format!("timefield:{}", c.tf));
    s.tally(match &c.wh {
        None => "where:none",
        Some(e) => match (e.has_side_leaf(&c.ty_a), e.has_side_leaf(&c.ty_b)) {
            (true, true) => "where:both-sides",
            (true, false) => "where:a-only",
            (false, true) => "where:b-only",
            (false, false) => "where:neither",
        },
    });
    s.tally(if c.limit.is_some() { "limit:some" } else { "limit:none" });
    s.tally_n("rows_a", ra.len() as u64);
    s.tally_n("rows_b", rb.len() as u64);
    let ka: HashSet<_> = ra.iter().filter_map(|r| r.link(&c.lf)).collect();
    let kb: HashSet<_> = rb.iter().filter_map(|r| r.link(&c.lf)).collect();
    s.tally_n("links_shared", ka.intersection(&kb).count() as u64);
    s.tally_n("links_one_side_only", ka.symmetric_difference(&kb).count() as u64);
    s.tally_n("rows_without_link", (ra.iter().chain(rb.iter()).filter(|r| r.link(&c.lf).is_none()).count()) as u64);
    let mut ties = false;
    for k in ka.intersection(&kb) {
        let mut ts: Vec<i64> = ra.iter().chain(rb.iter()).filter(|r| r.link(&c.lf).as_ref() == Some(k)).filter_map(|r| r.num(&c.tf)).collect();
        let n = ts.len();
        ts.sort();
        ts.dedup();
        if ts.len() < n {
            ties = true;
        }
    }
    if ties {
        s.tally("group_with_equal_times");
    }
}

fn run_component(a: &Args, prefilter: bool) {
    let name = if prefilter { "prefilter" } else { "match" };
    let mut s = Stream::create(&a.out, name);
    let rt = tokio::runtime::Builder::new_current_thread().enable_all().build().unwrap();
    let regdir = a.out.join(format!("c15-reg-{name}"));
    std::fs::create_dir_all(&regdir).unwrap();
    let wit = if prefilter { vec![] } else { witnesses() };
    for i in 0..a.cases {
        if a.only.is_some_and(|o| o != i) {
            continue;
        }
        let mut r = Rng::for_case(a.seed, name, i);
        let (expect_class, c) = match wit.get(i as usize) {
            Some((cl, c)) => (*cl, c.clone()),
            None => (None, gen_case(&mut r)),
        };
        let reg = registry(&c.ty_a, &c.ty_b, &regdir, i % 4);
        let force_bitmap = r.chance(1, 4);
        let ra = spec_rows(&c.za);
        let rb = spec_rows(&c.zb);
        tally_case(&mut s, &c, &ra, &rb);

        let res = std::panic::catch_unwind(std::panic::AssertUnwindSafe(|| -> Result<_, String> {
            if prefilter {
                let (za2, ma) = prefilter_real(&rt, &c, &c.za, &c.ty_a, &reg)?;
                let (zb2, mb) = prefilter_real(&rt, &c, &c.zb, &c.ty_b, &reg)?;
                let back = |o: RealOut| RealOut {
                    order: o.order,
                    pairs: o
                        .pairs
                        .into_iter()
                        .map(|(p, q)| {
                            let (mp, mq) = if c.preceded { (&mb, &ma) } else { (&ma, &mb) };
                            ((p.0, mp[p.0][p.1]), (q.0, mq[q.0][q.1]))
                        })
                        .collect(),
                };
                let lim = run_real(&rt, &c, &za2, &zb2, c.limit, &reg, force_bitmap).map(&back)?;
                let unl = if c.limit.is_some() { Some(run_real(&rt, &c, &za2, &zb2, None, &reg, force_bitmap).map(&back)?) } else { None };
                Ok((lim, unl))
            } else {
                let lim = run_real(&rt, &c, &c.za, &c.zb, c.limit, &reg, force_bitmap)?;
                let unl = if c.limit.is_some() { Some(run_real(&rt, &c, &c.za, &c.zb, None, &reg, force_bitmap)?) } else { None };
                Ok((lim, unl))
            }
        }));
        let (lim, unl) = match res {
            Ok(Ok(x)) => x,
            Ok(Err(e)) => {
                s.tally("impl:error");
                s.case(&op_line(name, &c, &[]), &format!("error {}", hexs(&e)), false);
                s.oracle_fail(i, "-", &format!("real code returned an error: {e}"));
                continue;
            }
            Err(_) => {
                s.tally("impl:panic");
                s.case(&op_line(name, &c, &[]), "panic", false);
                s.oracle_fail(i, "-", "real code panicked");
                continue;
            }
        };
        s.tally_n("pairs", lim.pairs.len() as u64);
        if lim.pairs.is_empty() {
            s.tally("result:empty");
        }
        let nontrivial = !lim.pairs.is_empty() || unl.as_ref().is_some_and(|u| !u.pairs.is_empty());
        s.case(&op_line(name, &c, &lim.order), &impl_line(&lim.pairs), nontrivial);

        // oracle
        let to_idx = |o: &RealOut| -> Vec<(usize, usize)> {
            o.pairs
                .iter()
                .map(|(p, q)| {
                    let (pa, pb) = if c.preceded { (q, p) } else { (p, q) };
                    (index_of(&ra, pa.0, pa.1), index_of(&rb, pb.0, pb.1))
                })
                .collect()
        };
        let pl = to_idx(&lim);
        let pu = unl.as_ref().map(to_idx);
        let v = oracle(c.preceded, &c.tf, &c.lf, &c.ty_a, &c.ty_b, &c.wh, c.limit, &ra, &rb, &pl, pu.as_deref(), true);
        s.tally_n("oracle:a_events_judged", v.judged_a as u64);
        s.tally_n("oracle:groups_skipped_null_time", v.skipped_groups as u64);
        if v.failures.is_empty() {
            s.oracle_ok();
            if let Some(cl) = expect_class {
                s.oracle_fail(i, "-", &format!("witness for {cl} no longer fails on the real code: {}", op_line(name, &c, &lim.order)));
            }
        } else {
            // one line per class seen in this case
            let mut by_class: BTreeMap<String, String> = BTreeMap::new();
            for (cl, d) in v.failures {
                by_class.entry(cl).or_insert(d);
            }
            for (cl, d) in by_class {
                s.tally(&format!("oracle-fail:{cl}"));
                if prefilter && cl == "nearest-partner-fails-where" {
                    // cannot happen on prefiltered rows: report unclassified
                    s.oracle_fail(i, "-", &format!("prefiltered rows but nearest partner failed WHERE: {d}"));
                } else {
                    s.oracle_fail(i, &cl, &format!("{d} | {}", op_line(name, &c, &lim.order)));
                }
            }
        }
    }
    s.finish();
}

fn main() {
    snel_harness::sys::maybe_child();
    let a = parse_args();
    match a.stream.as_str() {
        "match" => run_component(&a, false),
        "prefilter" => run_component(&a, true),
        "e2e" => e2e::run(&a),
        other => {
            eprintln!("unknown stream {other}");
            std::process::exit(2);
        }
    }
}
