//! C08 component streams: the real pruning structures (SuRF encoding + trie, enum bitmaps,
//! per-zone temporal index, calendar, zone XOR index) against the Lean model (equality) and
//! against a brute-force scan of the generated zone contents (oracle: superset).
use snel_db::command::types::CompareOp;
use snel_db::engine::core::event::event_builder::EventBuilder;
use snel_db::engine::core::filter::surf_encoding::{encode_f64, encode_i64, encode_u64, encode_value};
use snel_db::engine::core::filter::surf_trie::SurfTrie;
use snel_db::engine::core::filter::zone_surf_filter::{ZoneSurfEntry, ZoneSurfFilter};
use snel_db::engine::core::time::temporal_traits::{FieldIndex, ZoneRangeIndex};
use snel_db::engine::core::time::{TemporalCalendarIndex, ZoneTemporalIndex};
use snel_db::engine::core::zone::enum_bitmap_index::{EnumBitmapBuilder, EnumBitmapIndex};
use snel_db::engine::core::zone::enum_zone_pruner::EnumZonePruner;
use snel_db::engine::core::zone::selector::pruner::PruneArgs;
use snel_db::engine::core::zone::selector::pruner::range_pruner::RangePruner;
use snel_db::engine::core::zone::zone_artifacts::ZoneArtifacts;
use snel_db::engine::core::zone::zone_plan::ZonePlan;
use snel_db::engine::core::zone::zone_xor_index::ZoneXorFilterIndex;
use snel_db::engine::types::ScalarValue;
use snel_harness::enc::{hex, hexs};
use snel_harness::out::{parse_args, Args, Stream};
use snel_harness::rng::Rng;
use std::cmp::Ordering;
use std::collections::HashSet;
use std::path::PathBuf;

// ------------------------------------------------------------------ value tokens

fn sv_tok(v: &ScalarValue) -> String {
    match v {
        ScalarValue::Null => "n".into(),
        ScalarValue::Boolean(b) => if *b { "b1".into() } else { "b0".into() },
        ScalarValue::Int64(i) => format!("i{}", *i as u64),
        ScalarValue::Timestamp(i) => format!("t{}", *i as u64),
        ScalarValue::Float64(f) => format!("d{:016x}", f.to_bits()),
        ScalarValue::Utf8(s) => match s.parse::<f64>() {
            Ok(f) => format!("s{}:{:016x}", hexs(s), f.to_bits()),
            Err(_) => format!("s{}:-", hexs(s)),
        },
        ScalarValue::Binary(_) => "y".into(),
    }
}

fn enc_tok(v: &ScalarValue) -> String {
    match encode_value(v) {
        Some(b) => hex(&b),
        None => "none".into(),
    }
}

/// Exact numeric reading of a value for the oracle (independent of the encoder).
#[derive(Clone, Copy, Debug)]
enum Num {
    I(i128),
    F(f64),
}

fn num_of(v: &ScalarValue) -> Option<Num> {
    match v {
        ScalarValue::Int64(i) | ScalarValue::Timestamp(i) => Some(Num::I(*i as i128)),
        ScalarValue::Float64(f) => Some(Num::F(*f)),
        ScalarValue::Utf8(s) => {
            if let Ok(i) = s.parse::<i64>() {
                Some(Num::I(i as i128))
            } else if let Ok(u) = s.parse::<u64>() {
                Some(Num::I(u as i128))
            } else if let Ok(f) = s.parse::<f64>() {
                Some(Num::F(f))
            } else {
                None
            }
        }
        _ => None,
    }
}

fn cmp_int_float(i: i128, f: f64) -> Option<Ordering> {
    if f.is_nan() {
        return None;
    }
    if f >= 1e30 {
        return Some(Ordering::Less);
    }
    if f <= -1e30 {
        return Some(Ordering::Greater);
    }
    let t = f.trunc();
    let ti = t as i128; // exact: |t| < 2^100 and integral
    if i != ti {
        return Some(i.cmp(&ti));
    }
    let frac = f - t;
    Some(if frac > 0.0 { Ordering::Less } else if frac < 0.0 { Ordering::Greater } else { Ordering::Equal })
}

fn num_cmp(a: Num, b: Num) -> Option<Ordering> {
    match (a, b) {
        (Num::I(x), Num::I(y)) => Some(x.cmp(&y)),
        (Num::F(x), Num::F(y)) => x.partial_cmp(&y),
        (Num::I(x), Num::F(y)) => cmp_int_float(x, y),
        (Num::F(x), Num::I(y)) => cmp_int_float(y, x).map(|o| o.reverse()),
    }
}

/// Lane of the SuRF key, decided from the *number* (not from the encoder): I / U / F, or "sat"
/// where integral floats saturate (2^63, >= 2^64).
fn lane_of(n: Num) -> &'static str {
    match n {
        Num::I(i) => {
            if i >= -(1i128 << 63) && i < (1i128 << 63) { "I" } else { "U" }
        }
        Num::F(f) => {
            if f.is_finite() && f.trunc() == f {
                if f >= -9223372036854775808.0 && f < 9223372036854775808.0 {
                    "I"
                } else if f == 9223372036854775808.0 || f >= 18446744073709551616.0 {
                    "sat"
                } else if f > 0.0 {
                    "U"
                } else {
                    "F"
                }
            } else {
                "F"
            }
        }
    }
}

fn class_for_pair(a: Num, b: Num) -> &'static str {
    let (la, lb) = (lane_of(a), lane_of(b));
    if la == "sat" || lb == "sat" {
        "surf-int-saturation"
    } else if la != lb {
        "surf-lane-mix"
    } else {
        "-"
    }
}

fn holds(op: &str, o: Option<Ordering>) -> bool {
    match (op, o) {
        (_, None) => false,
        ("gt", Some(o)) => o == Ordering::Greater,
        ("gte", Some(o)) => o != Ordering::Less,
        ("lt", Some(o)) => o == Ordering::Less,
        ("lte", Some(o)) => o != Ordering::Greater,
        ("eq", Some(o)) => o == Ordering::Equal,
        ("neq", Some(o)) => o != Ordering::Equal,
        _ => false,
    }
}

// ------------------------------------------------------------------ generators

fn gen_u64(r: &mut Rng) -> u64 {
    match r.below(10) {
        0 => *r.pick(&[0u64, 1, 2, u64::MAX, u64::MAX - 1, 1 << 63, (1 << 63) - 1, (1 << 63) + 1, 255, 256, 65535, 65536]),
        1 => r.below(300),
        2 => (1u64 << 63).wrapping_add(r.below(300)).wrapping_sub(150),
        3 => u64::MAX - r.below(300),
        4 => 1u64 << r.below(64),
        5 => (1u64 << r.below(64)).wrapping_sub(1),
        _ => r.next(),
    }
}

fn gen_f64(r: &mut Rng) -> f64 {
    match r.below(14) {
        0 => *r.pick(&[0.0, -0.0, 1.0, -1.0, 0.5, -0.5, 1.5, 2.0, 2.5, f64::MIN_POSITIVE, 5e-324, -5e-324,
            f64::MAX, f64::MIN, 9223372036854775808.0, -9223372036854775808.0, 18446744073709551616.0,
            9223372036854774784.0, 9223372036854777856.0, 4503599627370496.0, 4503599627370495.5, 9007199254740992.0]),
        1 => r.range(-20, 20) as f64,
        2 => r.range(-20, 20) as f64 + 0.5,
        3 => r.range(-2000, 2000) as f64 / 8.0,
        4 => (r.range(-1000, 1000) as f64) * 1e15,
        5 => f64::from_bits(r.next()),
        6 => 9223372036854775808.0 * (1.0 + r.below(8) as f64 / 4.0),
        7 => -(r.below(1 << 20) as f64) - 0.25,
        8 => (r.below(1 << 53) as f64) * 4.0,
        9 => r.range(-100000, 100000) as f64 / 100.0,
        _ => r.range(-50, 50) as f64 + (r.below(4) as f64) / 4.0,
    }
}

fn gen_i64(r: &mut Rng) -> i64 {
    match r.below(8) {
        0 => *r.pick(&[0i64, 1, -1, i64::MAX, i64::MIN, i64::MAX - 1, i64::MIN + 1, 255, 256, -256, -257]),
        1 | 2 | 3 => r.range(-50, 50),
        4 => r.range(-100000, 100000),
        _ => r.next() as i64,
    }
}

fn gen_string(r: &mut Rng) -> String {
    match r.below(10) {
        0 => "".into(),
        1 => r.range(-1000, 1000).to_string(),
        2 => format!("{}", (r.next() >> 1).wrapping_add(1 << 63)), // u64 above i64::MAX
        3 => format!("{:.2}", r.range(-1000, 1000) as f64 / 7.0),
        4 => r.pick(&["+5", "-0", "1e3", "inf", "-inf", "NaN", "nan", " 5", "5 ", "0x10", "1_000", ".5", "5.", "-", "+", "٣", "18446744073709551616", "-9223372036854775809", "9223372036854775808", "1E400", "1e-400"]).to_string(),
        5 => r.pick(&["é", "日本", "a\u{0301}", "zzz", "Zebra", "true", "null"]).to_string(),
        _ => {
            let n = r.below(5);
            (0..n).map(|_| *r.pick(&['a', 'b', 'c', 'd'])).collect()
        }
    }
}

fn gen_value(r: &mut Rng) -> ScalarValue {
    match r.below(12) {
        0 | 1 | 2 => ScalarValue::Int64(gen_i64(r)),
        3 | 4 | 5 => ScalarValue::Float64(gen_f64(r)),
        6 | 7 | 8 => ScalarValue::Utf8(gen_string(r)),
        9 => ScalarValue::Timestamp(gen_i64(r)),
        10 => ScalarValue::Boolean(r.chance(1, 2)),
        _ => if r.chance(1, 2) { ScalarValue::Null } else { ScalarValue::Binary(vec![1, 2]) },
    }
}

// ------------------------------------------------------------------ streams

fn stream_raw(a: &Args) {
    let mut s = Stream::create(&a.out, "raw");
    for i in 0..a.cases {
        if a.only.is_some_and(|o| o != i) { continue; }
        let mut r = Rng::for_case(a.seed, "raw", i);
        let kind = *r.pick(&["i", "u", "f"]);
        let x = if kind == "f" && r.chance(2, 3) { gen_f64(&mut r).to_bits() } else { gen_u64(&mut r) };
        let y = match r.below(6) {
            0 => x,
            1 => x.wrapping_add(1),
            2 => x.wrapping_sub(1),
            3 => x ^ (1 << 63),
            _ => if kind == "f" && r.chance(2, 3) { gen_f64(&mut r).to_bits() } else { gen_u64(&mut r) },
        };
        let op = format!("raw {kind} {x} {y}");
        let (ex, ey, lt, extra) = match kind {
            "i" => (encode_i64(x as i64), encode_i64(y as i64), (x as i64) < (y as i64), String::new()),
            "u" => (encode_u64(x), encode_u64(y), x < y, String::new()),
            _ => {
                let (fx, fy) = (f64::from_bits(x), f64::from_bits(y));
                let num = match fx.partial_cmp(&fy) {
                    None => "un", Some(Ordering::Less) => "lt", Some(Ordering::Equal) => "eq", Some(Ordering::Greater) => "gt",
                };
                if fx.is_nan() || fy.is_nan() { s.tally("f:nan"); }
                if fx == 0.0 && fy == 0.0 { s.tally("f:both-zero"); }
                (encode_f64(fx), encode_f64(fy), fx.total_cmp(&fy) == Ordering::Less, format!(" {num}"))
            }
        };
        s.tally(&format!("kind:{kind}"));
        let imp = format!("{} {} {}{}", hex(&ex), hex(&ey), lt as u8, extra);
        s.case(&op, &imp, true);
        // oracle: byte order is the value order (strictly), equal bytes iff equal values
        if (ex < ey) == lt && (ex == ey) == (x == y) { s.oracle_ok(); } else {
            s.oracle_fail(i, "-", &format!("encoding not order preserving: {op} -> {imp}"));
        }
    }
    s.finish();
}

fn stream_enc(a: &Args) {
    let mut s = Stream::create(&a.out, "enc");
    for i in 0..a.cases {
        if a.only.is_some_and(|o| o != i) { continue; }
        let mut r = Rng::for_case(a.seed, "enc", i);
        let n = 2 + r.below(4);
        let vals: Vec<ScalarValue> = (0..n).map(|_| gen_value(&mut r)).collect();
        let op = format!("enc {}", vals.iter().map(sv_tok).collect::<Vec<_>>().join(" "));
        let imp = vals.iter().map(enc_tok).collect::<Vec<_>>().join(" ");
        for v in &vals {
            s.tally(match v {
                ScalarValue::Int64(_) => "v:int", ScalarValue::Float64(f) => if f.trunc() == *f { "v:float-integral" } else { "v:float-other" },
                ScalarValue::Utf8(t) => if num_of(v).is_some() { "v:numeric-string" } else if t.is_ascii() { "v:string" } else { "v:string-nonascii" },
                ScalarValue::Timestamp(_) => "v:timestamp", ScalarValue::Boolean(_) => "v:bool", _ => "v:unencodable",
            });
        }
        s.case(&op, &imp, true);
        // oracle on the first two values when both denote numbers: value order = key order
        if let (Some(x), Some(y)) = (num_of(&vals[0]), num_of(&vals[1])) {
            if let (Some(o), Some(ex), Some(ey)) = (num_cmp(x, y), encode_value(&vals[0]), encode_value(&vals[1])) {
                if ex.cmp(&ey) == o { s.oracle_ok(); s.tally(&format!("pair:{}-{}:ok", lane_of(x), lane_of(y))); } else {
                    let class = class_for_pair(x, y);
                    s.tally(&format!("pair:{}-{}:order-broken", lane_of(x), lane_of(y)));
                    s.oracle_fail(i, class, &format!("value order {:?} but key order {:?}: {} / {}", o, ex.cmp(&ey), sv_tok(&vals[0]), sv_tok(&vals[1])));
                }
            }
        }
    }
    s.finish();
}

fn gen_keyset(r: &mut Rng, mode: u64, center: i64) -> Vec<Vec<u8>> {
    if mode == 5 {
        // dense run of consecutive integers (trie nodes with 16..256 children)
        let len = *r.pick(&RUN_LENS) as i64;
        let start = center * 300 + *r.pick(&[0i64, 0, 200, 256 - len]);
        return (0..len).map(|j| encode_i64(start + j)).collect();
    }
    let n = match r.below(6) { 0 => 0, 1 => 1, _ => 1 + r.below(7) };
    let mut ks: Vec<Vec<u8>> = (0..n).map(|_| match mode {
        0 => encode_i64(center + r.range(-6, 6)),
        1 => encode_i64(gen_i64(r)),
        2 => { let l = r.below(4); (0..l).map(|_| *r.pick(&[97u8, 98, 99])).collect() }
        3 => { let l = r.below(6); (0..l).map(|_| *r.pick(&[0u8, 1, 127, 128, 254, 255])).collect() }
        _ => { let l = 1 + r.below(3); (0..l).map(|_| r.below(256) as u8).collect() }
    }).collect();
    ks.sort();
    ks.dedup();
    ks
}

fn stream_trie(a: &Args) {
    let mut s = Stream::create(&a.out, "trie");
    for i in 0..a.cases {
        if a.only.is_some_and(|o| o != i) { continue; }
        let mut r = Rng::for_case(a.seed, "trie", i);
        let mode = r.below(6);
        let mut ks = gen_keyset(&mut r, mode, 0);
        for _ in 0..r.below(3) { let more = gen_keyset(&mut r, mode, 3); ks.extend(more); }
        ks.sort(); ks.dedup();
        if r.chance(1, 10) { r.shuffle(&mut ks); s.tally("unsorted-input"); }
        let t = SurfTrie::build_from_sorted(&ks);
        let op = format!("trie {}", ks.iter().map(|k| hex(k)).collect::<Vec<_>>().join(" "));
        let j = |v: Vec<String>| if v.is_empty() { "-".to_string() } else { v.join(",") };
        let imp = format!("deg={} off={} lab={} e2c={} term={}",
            j(t.degrees.iter().map(|x| x.to_string()).collect()), j(t.child_offsets.iter().map(|x| x.to_string()).collect()),
            j(t.labels.iter().map(|x| x.to_string()).collect()), j(t.edge_to_child.iter().map(|x| x.to_string()).collect()),
            j(t.is_terminal_bits.iter().map(|x| x.to_string()).collect()));
        s.tally(&format!("mode:{mode}"));
        s.tally_n("keys", ks.len() as u64);
        s.tally_n("nodes", t.degrees.len() as u64);
        s.case(&op, &imp, !ks.is_empty());
        // oracle: number of terminal nodes = number of distinct keys
        let terms = (0..t.degrees.len()).filter(|n| t.is_terminal(*n)).count();
        let distinct: HashSet<&Vec<u8>> = ks.iter().collect();
        if terms == distinct.len() { s.oracle_ok(); } else { s.oracle_fail(i, "-", &format!("terminal count {terms} != keys {}: {op}", distinct.len())); }
    }
    s.finish();
}

fn has_prefix_pair(ks: &[Vec<u8>]) -> bool {
    ks.iter().any(|a| ks.iter().any(|b| a.len() < b.len() && b.starts_with(a)))
}

fn stream_surf(a: &Args) {
    let mut s = Stream::create(&a.out, "surf");
    for i in 0..a.cases {
        if a.only.is_some_and(|o| o != i) { continue; }
        let mut r = Rng::for_case(a.seed, "surf", i);
        let mode = r.below(6);
        let nz = if mode == 5 { 1 + r.below(4) } else { match r.below(4) { 0 => 1 + r.below(3), 1 => 11 + r.below(30), _ => 1 + r.below(40) } };
        // clustered: zone z holds values around z*spread, so range probes hit a varying share
        let spread = *r.pick(&[0i64, 1, 5, 20]);
        let zones: Vec<(u32, Vec<Vec<u8>>)> = (0..nz).map(|z| (z as u32 * if r.chance(1, 5) { 3 } else { 1 } + 0, gen_keyset(&mut r, mode, z as i64 * spread))).collect();
        let mut zones = zones;
        // distinct ascending ids
        for (k, z) in zones.iter_mut().enumerate() { z.0 = z.0.max(k as u32) + k as u32; }
        let entries: Vec<ZoneSurfEntry> = zones.iter().map(|(z, ks)| ZoneSurfEntry { zone_id: *z, trie: SurfTrie::build_from_sorted(ks) }).collect();
        let zsf = ZoneSurfFilter { entries };
        let all: Vec<&Vec<u8>> = zones.iter().flat_map(|z| z.1.iter()).collect();
        let np = 1 + r.below(6);
        let mut probes = vec![];
        for _ in 0..np {
            let kind = *r.pick(&["gi", "ge", "li", "le"]);
            let mut b: Vec<u8> = if !all.is_empty() && r.chance(2, 3) { (*r.pick(&all)).clone() } else {
                let c = r.range(-5, nz as i64 * spread + 5);
                gen_keyset(&mut r, mode, c).pop().unwrap_or_default()
            };
            match r.below(8) {
                0 => { b.pop(); }
                1 => { b.push(r.below(256) as u8); }
                2 => { if let Some(l) = b.last_mut() { *l = l.wrapping_add(1); } }
                3 => { if let Some(l) = b.last_mut() { *l = l.wrapping_sub(1); } }
                _ => {}
            }
            probes.push((kind, b));
        }
        let op = format!("surf {} {} {} {}", zones.len(),
            zones.iter().map(|(z, ks)| format!("{z} {} {}", ks.len(), ks.iter().map(|k| hex(k)).collect::<Vec<_>>().join(" ")).trim_end().to_string()).collect::<Vec<_>>().join(" "),
            probes.len(), probes.iter().map(|(k, b)| format!("{k} {}", hex(b))).collect::<Vec<_>>().join(" "));
        let mut outs = vec![];
        let mut nontrivial = false;
        for (kind, b) in &probes {
            let incl = kind.ends_with('i');
            let got: Vec<u32> = if kind.starts_with('g') { zsf.zones_overlapping_ge(b, incl, "seg") } else { zsf.zones_overlapping_le(b, incl, "seg") }
                .iter().map(|c| c.zone_id).collect();
            outs.push(if got.is_empty() { "-".to_string() } else { got.iter().map(|z| z.to_string()).collect::<Vec<_>>().join(",") });
            if !got.is_empty() && got.len() < zones.len() { nontrivial = true; }
            if zones.len() > 10 && got.len() * 10 >= zones.len() * 9 { s.tally("probe:>10zones,>=90%hit"); }
            s.tally(&format!("probe:{kind}"));
            // oracle: brute force over the keys of each zone
            for (z, ks) in &zones {
                let m = ks.iter().any(|k| match *kind { "gi" => k >= b, "ge" => k > b, "li" => k <= b, _ => k < b });
                if !m { continue; }
                if got.contains(z) { s.oracle_ok(); } else {
                    let class = if kind.starts_with('l') && has_prefix_pair(ks) { "surf-le-prefix-keys" } else { "-" };
                    s.oracle_fail(i, class, &format!("zone {z} holds a key satisfying {kind} {} but is not reported; keys {:?}", hex(b), ks.iter().map(|k| hex(k)).collect::<Vec<_>>()));
                }
            }
        }
        s.tally(&format!("mode:{mode}"));
        s.tally(&format!("zones:{}", if zones.len() > 10 { ">10" } else { "<=10" }));
        s.case(&op, &outs.join(" "), nontrivial);
    }
    s.finish();
}

/// One column of generated payload values for the `seg` stream.
fn gen_column(r: &mut Rng, kind: u64, z: i64, spread: i64) -> Option<ScalarValue> {
    let c = z * spread;
    Some(match kind {
        0 => ScalarValue::Int64(c + r.range(-4, 4)),
        1 => ScalarValue::Float64((c + r.range(-4, 4)) as f64 + 0.25 * (1 + r.below(3)) as f64), // fractional only
        2 => ScalarValue::Float64((c + r.range(-4, 4)) as f64 + 0.5 * r.below(2) as f64),        // integral and fractional
        3 => ScalarValue::Utf8(((1u64 << 63) + (c + 10 + r.range(-4, 4)) as u64).to_string()),    // u64 above i64::MAX
        4 => ScalarValue::Utf8((c + r.range(-4, 4)).to_string()),                                   // integer-looking strings
        5 => if r.chance(1, 2) { ScalarValue::Int64(c + r.range(-4, 4)) } else { ScalarValue::Float64(c as f64 + 0.5) }, // mixed kinds: no filter
        6 => ScalarValue::Float64(*r.pick(&[0.0, -0.0, 1.0, -1.0, 9223372036854775808.0, 18446744073709551616.0, 9223372036854777856.0, 1e19, 3e19, 4e19, -9223372036854775808.0, -1e19, 0.5])),
        7 => ScalarValue::Int64(gen_i64(r)),
        _ => if r.chance(1, 12) { return None } else { ScalarValue::Int64(c + r.range(-4, 4)) }, // optional field, sometimes absent
    })
}

fn gen_literal(r: &mut Rng, present: &[ScalarValue]) -> ScalarValue {
    let base = if !present.is_empty() && r.chance(3, 4) { r.pick(present).clone() } else { ScalarValue::Int64(r.range(-10, 60)) };
    let n = num_of(&base);
    match r.below(8) {
        0 => base,
        1 => match n { Some(Num::I(i)) if i.abs() < (1 << 50) => ScalarValue::Float64(i as f64), Some(Num::F(f)) if f.trunc() == f && f.abs() < 1e15 => ScalarValue::Int64(f as i64), _ => base },
        2 => match n { Some(Num::I(i)) if i.abs() < (1 << 50) => ScalarValue::Float64(i as f64 + 0.5), Some(Num::F(f)) if f.abs() < 1e15 => ScalarValue::Float64(f + 0.5), _ => base },
        3 => match n { Some(Num::I(i)) if i.abs() < (1 << 62) => ScalarValue::Int64(i as i64 + r.range(-2, 2)), Some(Num::F(f)) if f.abs() < 1e15 => ScalarValue::Int64(f.floor() as i64 + r.range(-1, 1)), _ => base },
        4 => match n { Some(Num::I(i)) if i.abs() < (1 << 62) => ScalarValue::Utf8((i as i64).to_string()), _ => base },
        5 => ScalarValue::Float64(gen_f64(r)),
        6 => ScalarValue::Utf8(gen_string(r)),
        _ => base,
    }
}

fn stream_seg(a: &Args) {
    let mut s = Stream::create(&a.out, "seg");
    let root = a.out.join("seg-tmp");
    for i in 0..a.cases {
        if a.only.is_some_and(|o| o != i) { continue; }
        let mut r = Rng::for_case(a.seed, "seg", i);
        let kind = r.below(9);
        let nz = match r.below(4) { 0 => 1 + r.below(3), 1 => 11 + r.below(30), _ => 1 + r.below(40) };
        let spread = *r.pick(&[0i64, 1, 3, 10]);
        let per_zone = 1 + r.below(4);
        let mut zones: Vec<(u32, Vec<Option<ScalarValue>>)> = vec![];
        for z in 0..nz {
            let n = if r.chance(1, 8) { 1 + r.below(per_zone) } else { per_zone };
            zones.push((z as u32, (0..n).map(|_| gen_column(&mut r, kind, z as i64, spread)).collect()));
        }
        let present: Vec<ScalarValue> = zones.iter().flat_map(|z| z.1.iter().flatten().cloned()).collect();
        let np = 1 + r.below(5);
        let probes: Vec<(&str, ScalarValue)> = (0..np).map(|_| (*r.pick(&["gt", "gte", "lt", "lte"]), gen_literal(&mut r, &present))).collect();
        // real builder: zone plans -> .zsrf file -> RangePruner
        let base = root.join(format!("c{i}"));
        let segdir = base.join("00001");
        std::fs::create_dir_all(&segdir).unwrap();
        let mut row = 0usize;
        let plans: Vec<ZonePlan> = zones.iter().map(|(z, vals)| {
            let events = vals.iter().enumerate().map(|(k, v)| {
                let mut b = EventBuilder::new();
                b.event_type = "ev".into();
                b.context_id = format!("c{k}");
                b.timestamp = 1_700_000_000 + row as u64 + k as u64;
                b.payload.insert("k".into(), ScalarValue::Int64((row + k) as i64));
                if let Some(v) = v { b.payload.insert("f".into(), v.clone()); }
                b.build()
            }).collect::<Vec<_>>();
            let p = ZonePlan { id: *z, start_index: row, end_index: row + vals.len() - 1, events, uid: "u1".into(), event_type: "ev".into(), segment_id: 1, created_at: 0 };
            row += vals.len();
            p
        }).collect();
        let allowed: HashSet<String> = ["f".to_string()].into_iter().collect();
        ZoneSurfFilter::build_all_filtered(&plans, &segdir, &allowed).unwrap();
        let path = segdir.join("u1_f.zsrf");
        let op = format!("seg {} {} {} {}", zones.len(),
            zones.iter().map(|(z, vs)| format!("{z} {} {}", vs.len(), vs.iter().map(|v| v.as_ref().map(sv_tok).unwrap_or("m".into())).collect::<Vec<_>>().join(" "))).collect::<Vec<_>>().join(" "),
            probes.len(), probes.iter().map(|(o, v)| format!("{o} {}", sv_tok(v))).collect::<Vec<_>>().join(" "));
        s.tally(&format!("column-kind:{kind}"));
        s.tally(&format!("zones:{}", if zones.len() > 10 { ">10" } else { "<=10" }));
        if !path.exists() {
            s.tally("nofilter");
            s.case(&op, "nofilter", false);
            let _ = std::fs::remove_dir_all(&base);
            continue;
        }
        let zsf = ZoneSurfFilter::load(&path).unwrap();
        let in_filter: Vec<u32> = zsf.entries.iter().map(|e| e.zone_id).collect();
        let pruner = RangePruner { artifacts: ZoneArtifacts::new(&base, None) };
        let mut outs = vec![];
        let mut nontrivial = false;
        for (o, lit) in &probes {
            let cop = match *o { "gt" => CompareOp::Gt, "gte" => CompareOp::Gte, "lt" => CompareOp::Lt, _ => CompareOp::Lte };
            let args = PruneArgs { segment_id: "00001", uid: "u1", column: "f", value: Some(lit), op: Some(&cop) };
            let got = pruner.apply_surf_only(&args).map(|v| v.iter().map(|c| c.zone_id).collect::<Vec<u32>>());
            match &got {
                None => { outs.push("none".to_string()); s.tally("answer:none(fallback/unencodable)"); }
                Some(v) => {
                    outs.push(if v.is_empty() { "-".into() } else { v.iter().map(|z| z.to_string()).collect::<Vec<_>>().join(",") });
                    if !v.is_empty() && v.len() < zones.len() { nontrivial = true; }
                    s.tally("answer:some");
                }
            }
            // oracle: every zone holding a row that satisfies `f <op> literal` numerically
            let Some(ln) = num_of(lit) else { continue };
            if let Some(v) = &got {
                for (z, vals) in &zones {
                    let hit = vals.iter().flatten().find(|x| num_of(x).is_some_and(|xn| holds(o, num_cmp(xn, ln))));
                    let Some(hit) = hit else { continue };
                    if v.contains(z) { s.oracle_ok(); continue; }
                    let class = if !in_filter.contains(z) && vals.first().is_some_and(|f| f.is_none()) {
                        "surf-zone-first-event-lacks-field"
                    } else {
                        // narrowest: is there a matching row on the literal's own lane? then the miss is not a lane effect
                        let same_lane_hit = vals.iter().flatten().any(|x| num_of(x).is_some_and(|xn| holds(o, num_cmp(xn, ln)) && class_for_pair(xn, ln) == "-"));
                        if same_lane_hit { "-" } else { class_for_pair(num_of(hit).unwrap(), ln) }
                    };
                    s.oracle_fail(i, class, &format!("zone {z} holds {} which satisfies {o} {} but is not reported", sv_tok(hit), sv_tok(lit)));
                }
            } else { s.oracle_ok(); }
        }
        let imp = format!("zones={} {}", if in_filter.is_empty() { "-".into() } else { in_filter.iter().map(|z| z.to_string()).collect::<Vec<_>>().join(",") }, outs.join(" "));
        s.case(&op, &imp, nontrivial);
        let _ = std::fs::remove_dir_all(&base);
    }
    let _ = std::fs::remove_dir_all(&root);
    s.finish();
}

fn stream_ebm(a: &Args) {
    let mut s = Stream::create(&a.out, "ebm");
    let root = a.out.join("ebm-tmp");
    std::fs::create_dir_all(&root).unwrap();
    std::panic::set_hook(Box::new(|_| {}));
    for i in 0..a.cases {
        if a.only.is_some_and(|o| o != i) { continue; }
        let mut r = Rng::for_case(a.seed, "ebm", i);
        let pool = ["free", "pro", "team", "Pro", "", "é", "x y", "pro "];
        let nvar = 1 + r.below(5) as usize;
        let mut variants: Vec<String> = vec![];
        while variants.len() < nvar {
            let v = r.pick(&pool).to_string();
            if !variants.contains(&v) || r.chance(1, 30) { variants.push(v); }
        }
        let rows = 1 + r.below(20) as u16;
        let nz = 1 + { let m = if r.chance(1, 3) { 40 } else { 6 }; r.below(m) };
        let long_zone = r.chance(1, 12);
        let zones: Vec<(u32, Vec<String>)> = (0..nz).map(|z| {
            let n = if long_zone && r.chance(1, 4) { rows as u64 + r.below(12) } else { 1 + r.below(rows as u64) };
            let subset: Vec<&String> = variants.iter().filter(|_| r.chance(1, 2)).collect();
            (z as u32 * 2 + 1, (0..n).map(|_| if r.chance(1, 15) || subset.is_empty() { r.pick(&pool).to_string() } else { (*r.pick(&subset)).clone() }).collect())
        }).collect();
        let np = 1 + r.below(4);
        let probes: Vec<(&str, usize)> = (0..np).map(|_| (*r.pick(&["eq", "neq", "eq", "neq", "gt"]), r.below(nvar as u64 + 1) as usize)).collect();
        let op = format!("ebm {rows} {} {} {} {} {} {}", variants.len(), variants.iter().map(|v| hexs(v)).collect::<Vec<_>>().join(" "), zones.len(),
            zones.iter().map(|(z, vs)| format!("{z} {} {}", vs.len(), vs.iter().map(|v| hexs(v)).collect::<Vec<_>>().join(" "))).collect::<Vec<_>>().join(" "),
            probes.len(), probes.iter().map(|(o, v)| format!("{o} {v}")).collect::<Vec<_>>().join(" "));
        let (vs, zs) = (variants.clone(), zones.clone());
        let built = std::panic::catch_unwind(move || {
            let mut b = EnumBitmapBuilder::new("u1", "plan", vs, rows);
            for (z, vals) in &zs { b.add_zone_values(*z, vals); }
            b.build()
        });
        let Ok(index) = built else {
            s.tally("builder-panic(zone longer than bitmap)");
            s.case(&op, "panic", false);
            continue;
        };
        // through the file format
        let path = root.join(format!("c{i}.ebm"));
        index.save(&path).unwrap();
        let index = EnumBitmapIndex::load(&path).unwrap();
        let _ = std::fs::remove_file(&path);
        let pruner = EnumZonePruner { segment_id: "00001", ebm: &index };
        let mut outs = vec![];
        let mut nontrivial = false;
        for (o, vid) in &probes {
            let cop = match *o { "eq" => CompareOp::Eq, "neq" => CompareOp::Neq, _ => CompareOp::Gt };
            let mut got: Vec<u32> = pruner.prune(&cop, *vid).iter().map(|c| c.zone_id).collect();
            got.sort();
            if !got.is_empty() && got.len() < zones.len() { nontrivial = true; }
            s.tally(&format!("probe:{o}"));
            outs.push(if got.is_empty() { "-".to_string() } else { got.iter().map(|z| z.to_string()).collect::<Vec<_>>().join(",") });
            if *vid >= variants.len() || *o == "gt" { continue; }
            // oracle (the pruner is called with vid = position of the literal in the variant list)
            if variants.iter().position(|v| v == &variants[*vid]) != Some(*vid) { continue; }
            for (z, vals) in &zones {
                let m = match *o {
                    "eq" => vals.iter().any(|v| v == &variants[*vid]),
                    // rows whose cell is not a declared variant are not counted (see C08_ebm_neq_fails)
                    _ => vals.iter().any(|v| v != &variants[*vid] && variants.contains(v)),
                };
                if !m { continue; }
                if got.contains(z) { s.oracle_ok(); } else { s.oracle_fail(i, "-", &format!("zone {z} holds a row satisfying {o} {:?} but is not reported", variants[*vid])); }
            }
        }
        s.tally(&format!("zones:{}", if zones.len() > 10 { ">10" } else { "<=10" }));
        s.case(&op, &outs.join(" "), nontrivial);
    }
    let _ = std::fs::remove_dir_all(&root);
    s.finish();
}

fn gen_ts(r: &mut Rng, base: i64) -> i64 {
    match r.below(12) {
        0 => base,
        1 => base / 3600 * 3600,
        2 => base / 3600 * 3600 - 1,
        3 => base / 86400 * 86400,
        4 => base / 86400 * 86400 - 1,
        5 => base / 86400 * 86400 + 86399,
        6 => base + r.range(-5, 5),
        7 => base + r.range(-4000, 4000),
        8 => base + r.range(-200000, 200000),
        _ => base + r.range(-50, 50),
    }
}

fn op_of(o: &str) -> CompareOp {
    match o { "eq" => CompareOp::Eq, "neq" => CompareOp::Neq, "gt" => CompareOp::Gt, "gte" => CompareOp::Gte, "lt" => CompareOp::Lt, _ => CompareOp::Lte }
}

fn stream_zti(a: &Args) {
    let mut s = Stream::create(&a.out, "zti");
    for i in 0..a.cases {
        if a.only.is_some_and(|o| o != i) { continue; }
        let mut r = Rng::for_case(a.seed, "zti", i);
        let base = match r.below(6) { 0 => 0, 1 => -100, 2 => i64::MAX - 100000, 3 => i64::MIN + 100000, _ => 1_700_000_000 + r.range(-1000000, 1000000) };
        let n = match r.below(8) { 0 => 0, 1 => 1, _ => 1 + r.below(12) };
        let mut ts: Vec<i64> = (0..n).map(|_| gen_ts(&mut r, base)).collect();
        if r.chance(1, 20) && !ts.is_empty() { ts.push(if r.chance(1, 2) { i64::MIN } else { i64::MAX }); }
        let stride = if r.chance(1, 6) { 2 + r.below(4) as i64 } else { 1 };
        let np = 1 + r.below(6);
        let mut probes: Vec<String> = vec![];
        for _ in 0..np {
            let v = if !ts.is_empty() && r.chance(2, 3) { *r.pick(&ts) + *r.pick(&[0i64, 0, 1, -1, 2]) } else { gen_ts(&mut r, base) };
            if r.chance(1, 5) { let w = v.saturating_add(r.range(-3, 100)); probes.push(format!("rng {v} {w}")); }
            else { probes.push(format!("{} {v}", r.pick(&["eq", "neq", "gt", "gte", "lt", "lte"]))); }
        }
        let z = ZoneTemporalIndex::from_timestamps(ts.clone(), stride, 64);
        let op = format!("zti {stride} {} {} {} {}", ts.len(), ts.iter().map(|t| t.to_string()).collect::<Vec<_>>().join(" "), probes.len(), probes.join(" "));
        let mut bits = String::new();
        for p in &probes {
            let w: Vec<&str> = p.split(' ').collect();
            let ans = if w[0] == "rng" {
                let (lo, hi): (i64, i64) = (w[1].parse().unwrap(), w[2].parse().unwrap());
                let ans = z.may_match_range(lo, hi);
                if stride == 1 { for t in &ts { if lo <= *t && *t <= hi { if ans { s.oracle_ok(); } else { s.oracle_fail(i, "-", &format!("ts {t} in [{lo},{hi}] but may_match_range false")); } break; } } }
                ans
            } else {
                let v: i64 = w[1].parse().unwrap();
                let ans = z.may_match(op_of(w[0]), v);
                if stride == 1 {
                    let m = ts.iter().any(|t| match w[0] { "eq" => *t == v, "neq" => *t != v, "gt" => *t > v, "gte" => *t >= v, "lt" => *t < v, _ => *t <= v });
                    if m { if ans { s.oracle_ok(); } else {
                        let span_overflow = ts.iter().max().unwrap().checked_sub(*ts.iter().min().unwrap()).is_none();
                        let class = if w[0] == "eq" && span_overflow { "zti-span-overflow" } else { "-" };
                        s.oracle_fail(i, class, &format!("a stored instant satisfies {p} but may_match is false; ts {ts:?}"));
                    } }
                }
                s.tally(&format!("probe:{}:{}", w[0], ans as u8));
                ans
            };
            bits.push(if ans { '1' } else { '0' });
        }
        s.tally(if stride == 1 { "stride:1" } else { "stride:>1(no oracle)" });
        let imp = format!("{} {} {} {}", z.min_ts, z.max_ts, if z.keys.is_empty() { "-".into() } else { z.keys.iter().map(|k| k.to_string()).collect::<Vec<_>>().join(",") }, bits);
        s.case(&op, &imp, ts.len() > 1);
    }
    s.finish();
}

fn stream_cal(a: &Args) {
    let mut s = Stream::create(&a.out, "cal");
    let root = a.out.join("cal-tmp");
    std::fs::create_dir_all(&root).unwrap();
    for i in 0..a.cases {
        if a.only.is_some_and(|o| o != i) { continue; }
        let mut r = Rng::for_case(a.seed, "cal", i);
        let era = r.below(10);
        let base: i64 = match era { 0 => 0, 1 => 4_294_967_296 + r.range(-200000, 200000), 2 => 4_294_967_296 * 2 + r.range(0, 100000), 3 => 86400 * r.range(0, 3), _ => 1_700_000_000 + r.range(-3000000, 3000000) };
        let nz = 1 + { let m = if r.chance(1, 3) { 40 } else { 6 }; r.below(m) };
        let zones: Vec<(u32, Vec<u64>)> = (0..nz).map(|z| {
            let zb = base + z as i64 * *r.pick(&[0i64, 100, 3600, 40000, 86400]);
            let n = 1 + r.below(5);
            (z as u32, (0..n).map(|_| gen_ts(&mut r, zb).max(0) as u64).collect())
        }).collect();
        let mut cal = TemporalCalendarIndex::new("created");
        for (z, ts) in &zones { cal.add_zone_range(*z, *ts.iter().min().unwrap(), *ts.iter().max().unwrap()); }
        cal.save(&format!("c{i}"), &root).unwrap();
        let cal = TemporalCalendarIndex::load(&format!("c{i}"), "created", &root).unwrap();
        let _ = std::fs::remove_file(root.join(format!("c{i}_created.cal")));
        let all: Vec<u64> = zones.iter().flat_map(|z| z.1.iter().cloned()).collect();
        let np = 1 + r.below(6);
        let mut probes: Vec<String> = vec![];
        for _ in 0..np {
            let v: i64 = match r.below(10) {
                0 => -1 - r.below(100) as i64,
                1 => *r.pick(&[9_999_999_999i64, 4_294_967_295, 4_294_967_296, 253_402_300_799, 0]),
                2 | 3 => gen_ts(&mut r, base).max(0),
                _ => *r.pick(&all) as i64 + *r.pick(&[0i64, 0, 1, -1, 3600, -3600, 86400, -86400]),
            };
            if r.chance(1, 5) { probes.push(format!("rng {v} {}", v.saturating_add(r.range(-10, 200000)))); }
            else { probes.push(format!("{} {v}", r.pick(&["eq", "gt", "gte", "lt", "lte", "eq", "gte", "lte", "neq"]))); }
        }
        let op = format!("cal {} {} {} {}", zones.len(),
            zones.iter().map(|(z, ts)| format!("{z} {} {}", ts.iter().min().unwrap(), ts.iter().max().unwrap())).collect::<Vec<_>>().join(" "),
            probes.len(), probes.join(" "));
        let mut outs = vec![];
        let mut nontrivial = false;
        for p in &probes {
            let w: Vec<&str> = p.split(' ').collect();
            let (got, pred, lit_hi): (Vec<u32>, Box<dyn Fn(u64) -> bool>, i64) = if w[0] == "rng" {
                let (lo, hi): (i64, i64) = (w[1].parse().unwrap(), w[2].parse().unwrap());
                (cal.zones_intersecting_range(lo, hi).iter().collect(), Box::new(move |t| lo <= t as i64 && t as i64 <= hi), hi.max(lo))
            } else {
                let v: i64 = w[1].parse().unwrap();
                let o = w[0].to_string();
                (cal.zones_intersecting(op_of(w[0]), v).iter().collect(),
                 Box::new(move |t| { let t = t as i64; match o.as_str() { "eq" => t == v, "neq" => t != v, "gt" => t > v, "gte" => t >= v, "lt" => t < v, _ => t <= v } }), v)
            };
            if !got.is_empty() && got.len() < zones.len() { nontrivial = true; }
            outs.push(if got.is_empty() { "-".to_string() } else { got.iter().map(|z| z.to_string()).collect::<Vec<_>>().join(",") });
            s.tally(&format!("probe:{}", w[0]));
            // oracle only for what TemporalPruner can send: =, <, <=, >, >= (and ranges) with a literal >= 0
            let lit_lo: i64 = w[1].parse().unwrap();
            if w[0] == "neq" || lit_lo < 0 { s.tally("probe-without-oracle(neq / negative literal: not sent by TemporalPruner)"); continue; }
            for (z, ts) in &zones {
                if !ts.iter().any(|t| pred(*t)) { continue; }
                if got.contains(z) { s.oracle_ok(); } else {
                    let mx = *ts.iter().max().unwrap() as i64;
                    let class = if w[0] != "eq" && (mx >= (1i64 << 32) || lit_hi >= (1i64 << 32)) { "cal-u32-truncation" } else { "-" };
                    s.oracle_fail(i, class, &format!("zone {z} (ts {ts:?}) holds an instant satisfying {p} but is not reported"));
                }
            }
        }
        s.tally(&format!("era:{}", match era { 0 => "epoch", 1 => "around-2^32", 2 => "beyond-2^32", 3 => "first-days", _ => "2023" }));
        s.case(&op, &outs.join(" "), nontrivial);
    }
    let _ = std::fs::remove_dir_all(&root);
    s.finish();
}

fn xv_tok(v: &ScalarValue) -> String {
    match v {
        ScalarValue::Utf8(s) => format!("s{}", hexs(s)),
        ScalarValue::Int64(i) => format!("i{i}"),
        ScalarValue::Timestamp(i) => format!("t{i}"),
        ScalarValue::Float64(f) => format!("d{}", hexs(&f.to_string())),
        ScalarValue::Boolean(b) => if *b { "b1".into() } else { "b0".into() },
        _ => "n".into(),
    }
}

fn stream_xor(a: &Args) {
    let mut s = Stream::create(&a.out, "xor");
    let root = a.out.join("xor-tmp");
    std::fs::create_dir_all(&root).unwrap();
    for i in 0..a.cases {
        if a.only.is_some_and(|o| o != i) { continue; }
        let mut r = Rng::for_case(a.seed, "xor", i);
        let nz = 1 + { let m = if r.chance(1, 3) { 40 } else { 6 }; r.below(m) };
        let kind = r.below(5);
        let genv = |r: &mut Rng| -> ScalarValue {
            match kind {
                0 => ScalarValue::Int64(r.range(-30, 30)),
                1 => ScalarValue::Float64(*r.pick(&[0.0, -0.0, 1.0, 2.0, 2.5, -1.5, 1e21, 1e-7, 0.1, 100.0, 1e15, 1e16, 123456789.125])),
                2 => ScalarValue::Utf8(gen_string(r)),
                3 => gen_value(r),
                _ => if r.chance(1, 2) { ScalarValue::Int64(r.range(-5, 5)) } else { ScalarValue::Float64(r.range(-5, 5) as f64) },
            }
        };
        let zones: Vec<(u32, Vec<ScalarValue>)> = (0..nz).map(|z| (z as u32, (0..(1 + { let m = if r.chance(1, 10) { 300 } else { 6 }; r.below(m) })).map(|_| genv(&mut r)).collect())).collect();
        let present: Vec<ScalarValue> = zones.iter().flat_map(|z| z.1.iter().cloned()).collect();
        let probes: Vec<ScalarValue> = (0..(1 + r.below(5))).map(|_| {
            let b = if r.chance(3, 4) { r.pick(&present).clone() } else { genv(&mut r) };
            match (&b, r.below(4)) {
                (ScalarValue::Int64(i), 0) => ScalarValue::Float64(*i as f64),
                (ScalarValue::Float64(f), 0) if f.trunc() == *f && f.abs() < 1e15 => ScalarValue::Int64(*f as i64),
                _ => b,
            }
        }).collect();
        let mut row = 0usize;
        let plans: Vec<ZonePlan> = zones.iter().map(|(z, vals)| {
            let events = vals.iter().enumerate().map(|(k, v)| {
                let mut b = EventBuilder::new();
                b.event_type = "ev".into(); b.context_id = format!("c{k}"); b.timestamp = 1_700_000_000;
                b.payload.insert("f".into(), v.clone());
                b.build()
            }).collect::<Vec<_>>();
            let p = ZonePlan { id: *z, start_index: row, end_index: row + vals.len() - 1, events, uid: "u1".into(), event_type: "ev".into(), segment_id: 1, created_at: 0 };
            row += vals.len();
            p
        }).collect();
        let sample: Vec<&ScalarValue> = present.iter().take(6).chain(probes.iter()).collect();
        let op = format!("xor {}", sample.iter().map(|v| xv_tok(v)).collect::<Vec<_>>().join(" "));
        let imp = sample.iter().map(|v| match snel_db::engine::core::FieldXorFilter::value_to_string(v) {
            Some(t) => hexs(&t),
            None => "none".to_string(),
        }).collect::<Vec<_>>().join(" ");
        s.tally(&format!("kind:{kind}"));
        let idx = ZoneXorFilterIndex::build_for_field("u1", "f", &plans);
        let Some(idx) = idx else { s.tally("no-index(all zones empty or failed)"); s.case(&op, &imp, false); continue; };
        let path = root.join(format!("u1_f{i}.zxf"));
        idx.save(&path).unwrap();
        let idx = ZoneXorFilterIndex::load(&path).unwrap();
        let _ = std::fs::remove_file(&path);
        let skipped = zones.iter().filter(|(z, vals)| !idx.filters.contains_key(z) && vals.iter().any(|v| !matches!(v, ScalarValue::Null | ScalarValue::Binary(_)))).count();
        if skipped > 0 { s.tally_n("zones-with-values-but-no-filter", skipped as u64); }
        s.tally_n("zones-with-filter", idx.filters.len() as u64);
        let text = |v: &ScalarValue| snel_db::engine::core::FieldXorFilter::value_to_string(v);
        for p in &probes {
            let got = idx.zones_maybe_containing(p);
            let Some(pt) = text(p) else { continue };
            for (z, vals) in &zones {
                // a row "matches" when it is the same value, or the same number in another spelling
                let same_text = vals.iter().any(|v| text(v).as_deref() == Some(pt.as_str()));
                let same_number = vals.iter().find(|v| match (num_of(v), num_of(p)) {
                    (Some(x), Some(y)) => !matches!(v, ScalarValue::Utf8(_)) && !matches!(p, ScalarValue::Utf8(_)) && num_cmp(x, y) == Some(Ordering::Equal),
                    _ => false });
                if !same_text && same_number.is_none() { continue; }
                if got.contains(z) { s.oracle_ok(); continue; }
                // same text => the filter must answer; a purely numeric match with different texts
                // (-0.0 vs 0, integers beyond 2^53 vs their float spelling) is the text-key defect
                let class = if !idx.filters.contains_key(z) { "xor-zone-filter-missing" }
                    else if !same_text { "xor-numeric-text-mismatch" }
                    else { "-" };
                s.oracle_fail(i, class, &format!("zone {z} holds a row equal to {} but is not reported", xv_tok(p)));
            }
        }
        s.case(&op, &imp, true);
    }
    let _ = std::fs::remove_dir_all(&root);
    s.finish();
}

/// One population of zones given by their byte keys, probed through `zones_overlapping_ge/le`;
/// writes the `surf`-format op line and judges every (zone, probe) against a brute-force scan.
fn surf_case(s: &mut Stream, i: u64, zones: &[(u32, Vec<Vec<u8>>)], probes: &[(&str, Vec<u8>)]) {
    let entries: Vec<ZoneSurfEntry> = zones.iter().map(|(z, ks)| ZoneSurfEntry { zone_id: *z, trie: SurfTrie::build_from_sorted(ks) }).collect();
    let zsf = ZoneSurfFilter { entries };
    let op = format!("surf {} {} {} {}", zones.len(),
        zones.iter().map(|(z, ks)| format!("{z} {} {}", ks.len(), ks.iter().map(|k| hex(k)).collect::<Vec<_>>().join(" ")).trim_end().to_string()).collect::<Vec<_>>().join(" "),
        probes.len(), probes.iter().map(|(k, b)| format!("{k} {}", hex(b))).collect::<Vec<_>>().join(" "));
    let mut outs = Vec::with_capacity(probes.len());
    for (kind, b) in probes {
        let incl = kind.ends_with('i');
        let got: Vec<u32> = if kind.starts_with('g') { zsf.zones_overlapping_ge(b, incl, "seg") } else { zsf.zones_overlapping_le(b, incl, "seg") }
            .iter().map(|c| c.zone_id).collect();
        outs.push(if got.is_empty() { "-".to_string() } else { got.iter().map(|z| z.to_string()).collect::<Vec<_>>().join(",") });
        for (z, ks) in zones {
            let m = ks.iter().any(|k| match *kind { "gi" => k >= b, "ge" => k > b, "li" => k <= b, _ => k < b });
            if !m { continue; }
            if got.contains(z) { s.oracle_ok(); } else {
                let class = if kind.starts_with('l') && has_prefix_pair(ks) { "surf-le-prefix-keys" } else { "-" };
                s.oracle_fail(i, class, &format!("zone {z} ({} keys, first {}, last {}) holds a key satisfying {kind} {} but is not reported",
                    ks.len(), ks.first().map(|k| hex(k)).unwrap_or_default(), ks.last().map(|k| hex(k)).unwrap_or_default(), hex(b)));
            }
        }
    }
    s.case(&op, &outs.join(" "), true);
}

const RUN_LENS: [u64; 13] = [16, 17, 31, 32, 33, 48, 63, 64, 65, 96, 128, 255, 256];

/// Label search (`simd_first_ge` / `simd_last_le` are private; reached through
/// `zones_overlapping_ge/le`): one trie node with a chosen label array of length 0..=70 (and the
/// dense sizes up to 256) below a 0-3 byte prefix, probed with **every** byte value for all four
/// bounds, on the node level and one level below.
fn stream_lbl(a: &Args) {
    let mut s = Stream::create(&a.out, "lbl");
    for i in 0..a.cases {
        if a.only.is_some_and(|o| o != i) { continue; }
        let mut r = Rng::for_case(a.seed, "lbl", i);
        let n = if i <= 70 { i } else if r.chance(1, 3) { *r.pick(&RUN_LENS) } else { r.below(71) } as usize;
        // n distinct labels: a consecutive run, or a random subset
        let labels: Vec<u8> = if r.chance(1, 2) || n > 200 {
            let start = r.below(257 - n as u64) as usize;
            (start..start + n).map(|x| x as u8).collect()
        } else {
            let mut all: Vec<u8> = (0..=255u8).collect();
            r.shuffle(&mut all);
            let mut l: Vec<u8> = all[..n].to_vec();
            l.sort();
            l
        };
        let prefix: Vec<u8> = (0..r.below(4)).map(|_| r.below(256) as u8).collect();
        let two_level = r.chance(1, 2);
        let keys: Vec<Vec<u8>> = labels.iter().map(|l| {
            let mut k = prefix.clone();
            k.push(*l);
            if two_level { k.push(*r.pick(&[0u8, 1, 127, 128, 200, 255])); }
            k
        }).collect();
        let y = *r.pick(&[0u8, 1, 127, 128, 200, 255]);
        let mut probes: Vec<(&str, Vec<u8>)> = Vec::with_capacity(2048);
        for b in 0..=255u8 {
            for kind in ["gi", "ge", "li", "le"] {
                let mut t = prefix.clone();
                t.push(b);
                probes.push((kind, t.clone()));
                t.push(y);
                probes.push((kind, t));
            }
        }
        s.tally(&format!("labels:{}", match n { 0 => "0", 1..=15 => "1-15", 16 => "16", 17..=31 => "17-31", 32 => "32", 33..=47 => "33-47", 48 => "48", 49..=63 => "49-63", 64 => "64", 65..=70 => "65-70", 96 => "96", 128 => "128", 255 => "255", 256 => "256", _ => "other" }));
        s.tally(if two_level { "two-level" } else { "one-level" });
        s.tally_n("probes", probes.len() as u64);
        surf_case(&mut s, i, &[(0, keys)], &probes);
    }
    s.finish();
}

/// Dense runs of consecutive integers through the real builder (`build_all_filtered` -> `.zsrf` ->
/// load), probed at every position of the run (and two beyond each end) with < <= > >=
/// (`zones_overlapping_*` on `encode_value(literal)`, a sample also through `RangePruner`), and
/// with = through the zone XOR index built from the same zone plans (oracle only).
fn stream_dense(a: &Args) {
    let mut s = Stream::create(&a.out, "dense");
    let root = a.out.join("dense-tmp");
    for i in 0..a.cases {
        if a.only.is_some_and(|o| o != i) { continue; }
        let mut r = Rng::for_case(a.seed, "dense", i);
        let len = if r.chance(1, 6) { 1 + r.below(80) } else { RUN_LENS[(i % 13) as usize] } as i128;
        let k = r.below(1 << 20) as i128;
        let base: i128 = match r.below(12) {
            0 => 0,
            1 => 256 * k,
            2 => 256 * k + (256 - len),              // run ends on ..ff
            3 => 256 * k + 200,                       // crosses a byte boundary when len > 56
            4 => -len,                                // ends at -1
            5 => -(len / 2),                          // straddles 0
            6 => i64::MAX as i128 - len + 1,          // ends at i64::MAX
            7 => i64::MIN as i128,
            8 => (1i128 << 32) - len / 2,
            9 => 65536 * k + 65536 - len,
            10 => r.range(-100000, 100000) as i128,
            _ => 256 * k + r.below(256) as i128,
        };
        let ulane = r.chance(1, 8) && base >= 2 && base + len + 2 < (1i128 << 62);
        let val = |v: i128| -> ScalarValue {
            if ulane { ScalarValue::Utf8(((1u64 << 63) + v as u64).to_string()) } else { ScalarValue::Int64(v as i64) }
        };
        let inrange = |v: i128| ulane || (v >= i64::MIN as i128 && v <= i64::MAX as i128);
        // zone layout: 0 = the whole run | run split in two zones | run + a sparse lower zone
        let layout = r.below(4);
        let mut zones: Vec<(u32, Vec<i128>)> = vec![];
        let run: Vec<i128> = (0..len).map(|j| base + j).collect();
        match layout {
            0 | 1 => zones.push((0, run.clone())),
            2 => { let h = (len / 2).max(1) as usize; zones.push((0, run[..h.min(run.len())].to_vec())); if h < run.len() { zones.push((1, run[h..].to_vec())); } }
            _ => { zones.push((0, (0..4).map(|j| base - 1000 - 7 * j).filter(|v| inrange(*v)).collect())); zones.push((1, run.clone())); }
        }
        zones.retain(|z| !z.1.is_empty());
        if r.chance(1, 2) { for z in zones.iter_mut() { r.shuffle(&mut z.1); } }
        let lo = base - 2;
        let hi = base + len + 1;
        let positions: Vec<i128> = (lo..=hi).filter(|v| inrange(*v)).collect();
        let mut probes: Vec<(&str, ScalarValue)> = vec![];
        for p in &positions { for o in ["gt", "gte", "lt", "lte"] {
            let lit = if !ulane && p.abs() < (1 << 52) && r.chance(1, 8) { ScalarValue::Float64(*p as f64) } else { val(*p) };
            probes.push((o, lit));
        } }
        let base_dir = root.join(format!("c{i}"));
        let segdir = base_dir.join("00001");
        std::fs::create_dir_all(&segdir).unwrap();
        let mut row = 0usize;
        let plans: Vec<ZonePlan> = zones.iter().map(|(z, vals)| {
            let events = vals.iter().enumerate().map(|(k, v)| {
                let mut b = EventBuilder::new();
                b.event_type = "ev".into(); b.context_id = format!("c{k}"); b.timestamp = 1_700_000_000 + (row + k) as u64;
                b.payload.insert("f".into(), val(*v));
                b.build()
            }).collect::<Vec<_>>();
            let p = ZonePlan { id: *z, start_index: row, end_index: row + vals.len() - 1, events, uid: "u1".into(), event_type: "ev".into(), segment_id: 1, created_at: 0 };
            row += vals.len();
            p
        }).collect();
        let allowed: HashSet<String> = ["f".to_string()].into_iter().collect();
        ZoneSurfFilter::build_all_filtered(&plans, &segdir, &allowed).unwrap();
        let zsf = ZoneSurfFilter::load(&segdir.join("u1_f.zsrf")).unwrap();
        let in_filter: Vec<u32> = zsf.entries.iter().map(|e| e.zone_id).collect();
        let pruner = RangePruner { artifacts: ZoneArtifacts::new(&base_dir, None) };
        let op = format!("seg {} {} {} {}", zones.len(),
            zones.iter().map(|(z, vs)| format!("{z} {} {}", vs.len(), vs.iter().map(|v| sv_tok(&val(*v))).collect::<Vec<_>>().join(" "))).collect::<Vec<_>>().join(" "),
            probes.len(), probes.iter().map(|(o, v)| format!("{o} {}", sv_tok(v))).collect::<Vec<_>>().join(" "));
        let mut outs = Vec::with_capacity(probes.len());
        for (n, (o, lit)) in probes.iter().enumerate() {
            let bytes = encode_value(lit).unwrap();
            let got: Vec<u32> = match *o {
                "gt" => zsf.zones_overlapping_ge(&bytes, false, "00001"), "gte" => zsf.zones_overlapping_ge(&bytes, true, "00001"),
                "lt" => zsf.zones_overlapping_le(&bytes, false, "00001"), _ => zsf.zones_overlapping_le(&bytes, true, "00001"),
            }.iter().map(|c| c.zone_id).collect();
            if n % 37 == (i % 37) as usize {
                // the same probe through the pruner (file load + threshold rule; <= 10 zones: no fallback)
                let cop = op_of(o);
                let via = pruner.apply_surf_only(&PruneArgs { segment_id: "00001", uid: "u1", column: "f", value: Some(lit), op: Some(&cop) })
                    .map(|v| v.iter().map(|c| c.zone_id).collect::<Vec<u32>>());
                if via.as_ref() != Some(&got) { s.oracle_fail(i, "-", &format!("RangePruner answers {via:?}, zones_overlapping {got:?} for {o} {}", sv_tok(lit))); }
                s.tally("probe-also-through-RangePruner");
            }
            outs.push(if got.is_empty() { "-".to_string() } else { got.iter().map(|z| z.to_string()).collect::<Vec<_>>().join(",") });
            let ln = num_of(lit).unwrap();
            for (z, vals) in &zones {
                if !vals.iter().any(|x| holds(o, num_cmp(num_of(&val(*x)).unwrap(), ln))) { continue; }
                if got.contains(z) { s.oracle_ok(); } else {
                    s.oracle_fail(i, "-", &format!("zone {z} (min {}, max {}, {} distinct) holds a row with f {o} {} but is not reported",
                        vals.iter().min().unwrap(), vals.iter().max().unwrap(), vals.len(), sv_tok(lit)));
                }
            }
        }
        // `=` at every position: zone XOR index from the same plans
        if let Some(idx) = ZoneXorFilterIndex::build_for_field("u1", "f", &plans) {
            for p in &positions {
                let got = idx.zones_maybe_containing(&val(*p));
                for (z, vals) in &zones {
                    if !vals.contains(p) { continue; }
                    if got.contains(z) { s.oracle_ok(); } else {
                        let class = if idx.filters.contains_key(z) { "-" } else { "xor-zone-filter-missing" };
                        s.oracle_fail(i, class, &format!("zone {z} holds f = {} but the XOR index does not report it", sv_tok(&val(*p))));
                    }
                }
            }
            s.tally_n("eq-probes(xor index)", positions.len() as u64);
        }
        s.tally(&format!("run-length:{}", if RUN_LENS.contains(&(len as u64)) { len.to_string() } else { "other(1-80)".into() }));
        s.tally(&format!("layout:{}", match layout { 0 | 1 => "run-is-one-zone", 2 => "run-split-over-two-zones", _ => "sparse-zone+run" }));
        s.tally(if ulane { "lane:U(decimal strings above i64::MAX)" } else { "lane:I" });
        s.tally_n("range-probes", probes.len() as u64);
        let imp = format!("zones={} {}", if in_filter.is_empty() { "-".into() } else { in_filter.iter().map(|z| z.to_string()).collect::<Vec<_>>().join(",") }, outs.join(" "));
        s.case(&op, &imp, true);
        let _ = std::fs::remove_dir_all(&base_dir);
    }
    let _ = std::fs::remove_dir_all(&root);
    s.finish();
}

/// Fixed minimal witnesses of the proposed findings, run against the real code (and, through the
/// same op lines, against the model). Every case is expected to fail the oracle with its class.
fn stream_wit(a: &Args) {
    let mut s = Stream::create(&a.out, "wit");
    let root = a.out.join("wit-tmp");
    let ids = |v: &[u32]| if v.is_empty() { "-".to_string() } else { v.iter().map(|z| z.to_string()).collect::<Vec<_>>().join(",") };
    // --- SuRF through the real builder: (class, zone values (None = field absent), op, literal)
    let seg_cases: Vec<(&str, Vec<Vec<Option<ScalarValue>>>, &str, ScalarValue)> = vec![
        ("surf-lane-mix", vec![vec![Some(ScalarValue::Float64(2.0))], vec![Some(ScalarValue::Float64(0.5))]], "gt", ScalarValue::Float64(1.5)),
        ("surf-lane-mix", vec![vec![Some(ScalarValue::Int64(2))], vec![Some(ScalarValue::Int64(0))]], "gt", ScalarValue::Float64(1.5)),
        ("surf-int-saturation", vec![vec![Some(ScalarValue::Float64(9223372036854775808.0))], vec![Some(ScalarValue::Float64(0.5))]], "gt", ScalarValue::Int64(i64::MAX)),
        ("surf-zone-first-event-lacks-field", vec![vec![Some(ScalarValue::Int64(1))], vec![None, Some(ScalarValue::Int64(9))]], "gte", ScalarValue::Int64(5)),
    ];
    for (n, (class, zones, o, lit)) in seg_cases.iter().enumerate() {
        let base = root.join(format!("s{n}"));
        let segdir = base.join("00001");
        std::fs::create_dir_all(&segdir).unwrap();
        let plans: Vec<ZonePlan> = zones.iter().enumerate().map(|(z, vals)| {
            let events = vals.iter().enumerate().map(|(k, v)| {
                let mut b = EventBuilder::new();
                b.event_type = "ev".into(); b.context_id = format!("c{k}"); b.timestamp = 1_700_000_000;
                b.payload.insert("k".into(), ScalarValue::Int64(k as i64));
                if let Some(v) = v { b.payload.insert("f".into(), v.clone()); }
                b.build()
            }).collect::<Vec<_>>();
            ZonePlan { id: z as u32, start_index: 0, end_index: vals.len() - 1, events, uid: "u1".into(), event_type: "ev".into(), segment_id: 1, created_at: 0 }
        }).collect();
        let allowed: HashSet<String> = ["f".to_string()].into_iter().collect();
        ZoneSurfFilter::build_all_filtered(&plans, &segdir, &allowed).unwrap();
        let zsf = ZoneSurfFilter::load(&segdir.join("u1_f.zsrf")).unwrap();
        let in_filter: Vec<u32> = zsf.entries.iter().map(|e| e.zone_id).collect();
        let cop = op_of(o);
        let pruner = RangePruner { artifacts: ZoneArtifacts::new(&base, None) };
        let got = pruner.apply_surf_only(&PruneArgs { segment_id: "00001", uid: "u1", column: "f", value: Some(lit), op: Some(&cop) })
            .map(|v| v.iter().map(|c| c.zone_id).collect::<Vec<u32>>());
        let op = format!("seg {} {} 1 {o} {}", zones.len(),
            zones.iter().enumerate().map(|(z, vs)| format!("{z} {} {}", vs.len(), vs.iter().map(|v| v.as_ref().map(sv_tok).unwrap_or("m".into())).collect::<Vec<_>>().join(" "))).collect::<Vec<_>>().join(" "), sv_tok(lit));
        let imp = format!("zones={} {}", ids(&in_filter), got.as_ref().map(|v| ids(v)).unwrap_or("none".into()));
        s.case(&op, &imp, true);
        let ln = num_of(lit).unwrap();
        for (z, vals) in zones.iter().enumerate() {
            if vals.iter().flatten().any(|x| holds(o, num_cmp(num_of(x).unwrap(), ln))) {
                if got.as_ref().is_none_or(|v| v.contains(&(z as u32))) { s.oracle_ok(); } else {
                    s.oracle_fail(n as u64, class, &format!("witness: {op} -> {imp}; zone {z} holds a matching row"));
                }
            }
        }
        let _ = std::fs::remove_dir_all(&base);
    }
    // --- trie with prefix-related keys
    {
        let ks = vec![b"a".to_vec(), b"abd".to_vec()];
        let zsf = ZoneSurfFilter { entries: vec![ZoneSurfEntry { zone_id: 0, trie: SurfTrie::build_from_sorted(&ks) }] };
        let got: Vec<u32> = zsf.zones_overlapping_le(b"abc", true, "seg").iter().map(|c| c.zone_id).collect();
        let op = "surf 1 0 2 61 616264 1 li 616263".to_string();
        s.case(&op, &ids(&got), true);
        if got.contains(&0) { s.oracle_ok(); } else { s.oracle_fail(100, "surf-le-prefix-keys", &format!("witness: {op} -> {}; key 61 <= 616263", ids(&got))); }
    }
    // --- calendar: far-future upper bound
    {
        std::fs::create_dir_all(&root).unwrap();
        let mut cal = TemporalCalendarIndex::new("created");
        cal.add_zone_range(0, 1_700_000_000, 1_700_000_000);
        let got: Vec<u32> = cal.zones_intersecting(CompareOp::Lte, 9_999_999_999).iter().collect();
        let op = "cal 1 0 1700000000 1700000000 1 lte 9999999999".to_string();
        s.case(&op, &ids(&got), true);
        if got.contains(&0) { s.oracle_ok(); } else { s.oracle_fail(200, "cal-u32-truncation", &format!("witness: {op} -> {}; 1700000000 <= 9999999999", ids(&got))); }
    }
    // --- per-zone temporal index: instants 2^63 apart
    {
        let ts = vec![-100i64, -1, i64::MAX];
        let z = ZoneTemporalIndex::from_timestamps(ts.clone(), 1, 64);
        let ans = z.may_match(CompareOp::Eq, -1);
        let op = "zti 1 3 -100 -1 9223372036854775807 1 eq -1".to_string();
        let imp = format!("{} {} {} {}", z.min_ts, z.max_ts, z.keys.iter().map(|k| k.to_string()).collect::<Vec<_>>().join(","), ans as u8);
        s.case(&op, &imp, true);
        if ans { s.oracle_ok(); } else { s.oracle_fail(250, "zti-span-overflow", &format!("witness: {op} -> {imp}; -1 is stored")); }
    }
    // --- XOR index: -0.0 stored, 0 probed
    {
        let mut b = EventBuilder::new();
        b.event_type = "ev".into(); b.context_id = "c".into(); b.timestamp = 1;
        b.payload.insert("f".into(), ScalarValue::Float64(-0.0));
        let plan = ZonePlan { id: 0, start_index: 0, end_index: 0, events: vec![b.build()], uid: "u1".into(), event_type: "ev".into(), segment_id: 1, created_at: 0 };
        let idx = ZoneXorFilterIndex::build_for_field("u1", "f", &[plan]).unwrap();
        let mut missed = 0;
        for p in [ScalarValue::Int64(0), ScalarValue::Float64(0.0)] {
            if !idx.zones_maybe_containing(&p).contains(&0) { missed += 1; }
        }
        let op = format!("xor {} {} {}", xv_tok(&ScalarValue::Float64(-0.0)), xv_tok(&ScalarValue::Int64(0)), xv_tok(&ScalarValue::Float64(0.0)));
        let text = |v: &ScalarValue| hexs(&snel_db::engine::core::FieldXorFilter::value_to_string(v).unwrap());
        let imp = format!("{} {} {}", text(&ScalarValue::Float64(-0.0)), text(&ScalarValue::Int64(0)), text(&ScalarValue::Float64(0.0)));
        s.case(&op, &imp, true);
        // a binary fuse filter answers a foreign key with probability ~1/256: one miss is enough
        if missed == 0 { s.oracle_ok(); } else { s.oracle_fail(300, "xor-numeric-text-mismatch", &format!("witness: stored -0.0, probes 0 and 0.0: missed {missed} of 2; texts {imp}")); }
    }
    let _ = std::fs::remove_dir_all(&root);
    s.finish();
}

fn main() {
    let a = parse_args();
    let _: PathBuf = a.out.clone();
    match a.stream.as_str() {
        "raw" => stream_raw(&a),
        "enc" => stream_enc(&a),
        "trie" => stream_trie(&a),
        "surf" => stream_surf(&a),
        "seg" => stream_seg(&a),
        "ebm" => stream_ebm(&a),
        "zti" => stream_zti(&a),
        "cal" => stream_cal(&a),
        "xor" => stream_xor(&a),
        "wit" => stream_wit(&a),
        "lbl" => stream_lbl(&a),
        "dense" => stream_dense(&a),
        other => {
            eprintln!("unknown stream {other}");
            std::process::exit(2);
        }
    }
}
