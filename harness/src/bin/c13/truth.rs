//! Independent executable spec of C13 (the oracle). It keeps the *intended* account state —
//! who exists, who is active, which roles and per-type rights an admin gave — from the
//! operations the harness issued, and judges every accepted / executed request of the real
//! code against the property text:
//!   accepted  ⇒ valid signature of an active user over exactly the executed command, or a live token;
//!   data read ⇒ read right on every returned event type; stored ⇒ write right; schema /
//!   user / permission management ⇒ admin.
//! It does not look at the Lean model or at `can_read`/`can_write`.
use snel_db::verif::hmac_hex;
use std::collections::{HashMap, HashSet};

#[derive(Clone, Debug)]
pub struct TUser {
    pub key: String,
    pub active: bool,
    pub roles: Vec<String>,
    /// rights an admin granted and did not take back: (type, "read"/"write")
    pub rights: HashSet<(String, &'static str)>,
}

#[derive(Clone, Debug)]
pub struct TTok {
    pub real: String,
    pub owner: String,
    pub alive: bool,
    /// seconds on the scenario clock when it was minted
    pub minted_at: u64,
}

#[derive(Default)]
pub struct Truth {
    /// Explicit permission sets as the admin history defines them: GRANT merges, REVOKE takes the
    /// named rights away and leaves the (possibly all-false) set in place, the operator calls
    /// set / drop it. Grants are over-approximated (a GRANT counts for every listed type even if
    /// the handler stopped half-way), so demands derived from a `false` bit are never too strong.
    pub entries: HashMap<(String, String), (bool, bool)>,
    /// Rights an admin explicitly took away and nobody granted again: (user, type, "read"/"write").
    pub revoked: HashSet<(String, String, &'static str)>,
    /// The admin history in words (create / GRANT / REVOKE / REVOKE KEY / restart), for replays.
    pub history: Vec<String>,
    pub users: HashMap<String, TUser>,
    pub tokens: Vec<TTok>,
    pub conns: HashMap<u64, Option<String>>,
    pub now: u64,
    pub expiry: u64,
}

impl Truth {
    pub fn is_admin(&self, u: &str) -> bool {
        self.users.get(u).is_some_and(|x| x.roles.iter().any(|r| r == "admin"))
    }
    pub fn may_read(&self, u: &str, et: &str) -> bool {
        self.users.get(u).is_some_and(|x| {
            x.roles.iter().any(|r| matches!(r.as_str(), "admin" | "read-only" | "viewer" | "editor"))
                || x.rights.contains(&(et.to_string(), "read"))
        })
    }
    pub fn may_write(&self, u: &str, et: &str) -> bool {
        self.users.get(u).is_some_and(|x| {
            x.roles.iter().any(|r| matches!(r.as_str(), "admin" | "editor" | "write-only"))
                || x.rights.contains(&(et.to_string(), "write"))
        })
    }
    pub fn has_any_right(&self, u: &str) -> bool {
        self.users.get(u).is_some_and(|x| {
            x.roles.iter().any(|r| matches!(r.as_str(), "admin" | "read-only" | "viewer" | "editor" | "write-only"))
                || !x.rights.is_empty()
        })
    }
    // ---- "revoking a permission takes effect" — decided from the admin history alone; a restart
    // in the history changes nothing. An explicit set overrides the role (types.rs: "Permissions
    // override roles"; REVOKE leaves an explicit denial): a revoked write right must be refused
    // whatever the role; a revoked read right must be refused when the set grants write neither.
    pub fn must_deny_write(&self, u: &str, et: &str) -> bool {
        !self.is_admin(u) && self.revoked.contains(&(u.to_string(), et.to_string(), "write"))
    }
    pub fn must_deny_read(&self, u: &str, et: &str) -> bool {
        !self.is_admin(u)
            && self.revoked.contains(&(u.to_string(), et.to_string(), "read"))
            && !self.entries.get(&(u.to_string(), et.to_string())).is_some_and(|e| e.1)
    }
    pub fn history_text(&self) -> String {
        self.history.join("; ")
    }
    /// GRANT naming `what` (attempted by someone entitled).
    pub fn hist_grant(&mut self, id: &str, et: &str, what: &'static str) {
        let e = self.entries.entry((id.to_string(), et.to_string())).or_insert((false, false));
        if what == "read" { e.0 = true } else { e.1 = true }
        self.revoked.remove(&(id.to_string(), et.to_string(), what));
    }
    /// REVOKE naming `what` (executed).
    pub fn hist_revoke(&mut self, id: &str, et: &str, what: &'static str) {
        let e = self.entries.entry((id.to_string(), et.to_string())).or_insert((false, false));
        if what == "read" { e.0 = false } else { e.1 = false }
        self.revoked.insert((id.to_string(), et.to_string(), what));
    }
    /// The operator sets the explicit set (`AuthManager::grant_permission`).
    pub fn hist_set(&mut self, id: &str, et: &str, read: bool, write: bool) {
        self.entries.insert((id.to_string(), et.to_string()), (read, write));
        for (bit, what) in [(read, "read"), (write, "write")] {
            let k = (id.to_string(), et.to_string(), what);
            if bit { self.revoked.remove(&k); } else { self.revoked.insert(k); }
        }
    }
    /// The operator removes the explicit set (`AuthManager::revoke_permission`): the role decides again.
    pub fn hist_drop(&mut self, id: &str, et: &str) {
        self.entries.remove(&(id.to_string(), et.to_string()));
        self.revoked.remove(&(id.to_string(), et.to_string(), "read"));
        self.revoked.remove(&(id.to_string(), et.to_string(), "write"));
    }

    pub fn add_user(&mut self, id: &str, key: &str, roles: &[String]) {
        self.users.insert(
            id.to_string(),
            TUser { key: key.to_string(), active: true, roles: roles.to_vec(), rights: HashSet::new() },
        );
    }
    pub fn revoke_key(&mut self, id: &str) {
        if let Some(u) = self.users.get_mut(id) {
            u.active = false;
        }
        for t in self.tokens.iter_mut() {
            if t.owner == id {
                t.alive = false;
            }
        }
    }
    pub fn set_rights(&mut self, id: &str, et: &str, read: bool, write: bool) {
        if let Some(u) = self.users.get_mut(id) {
            u.rights.remove(&(et.to_string(), "read"));
            u.rights.remove(&(et.to_string(), "write"));
            if read {
                u.rights.insert((et.to_string(), "read"));
            }
            if write {
                u.rights.insert((et.to_string(), "write"));
            }
        }
    }
    pub fn grant(&mut self, id: &str, et: &str, what: &'static str) {
        if let Some(u) = self.users.get_mut(id) {
            u.rights.insert((et.to_string(), what));
        }
    }
    pub fn ungrant(&mut self, id: &str, et: &str, what: &'static str) {
        if let Some(u) = self.users.get_mut(id) {
            u.rights.remove(&(et.to_string(), what));
        }
    }
    pub fn restart(&mut self) {
        for t in self.tokens.iter_mut() {
            t.alive = false;
        }
        self.conns.clear();
    }

    /// Is the credential on `line` (as sent to the real gate) a valid one for (`cmd`, `user`)?
    /// `bound` = the user the connection was bound to by an earlier accepted AUTH.
    /// Returns the form that justifies it.
    pub fn credential_ok(&self, line: &str, bound: Option<&str>, cmd: &str, user: &str) -> Option<&'static str> {
        let t = line.trim();
        let active = self.users.get(user).filter(|u| u.active);
        // live token at the end of the line
        if let Some(pos) = t.rfind(" TOKEN ") {
            let tok = t[pos + 7..].trim();
            if self.tokens.iter().any(|k| {
                k.real == tok && k.owner == user && k.alive && self.now <= k.minted_at + self.expiry
            }) && active.is_some()
                && t[..pos].trim() == cmd
            {
                return Some("token");
            }
        }
        let u = active?;
        let sig = hmac_hex(u.key.as_bytes(), cmd.as_bytes());
        if bound == Some(user) {
            if let Some(rest) = t.strip_prefix(&format!("{sig}:")) {
                if rest.trim() == cmd {
                    return Some("bound");
                }
            }
            return None;
        }
        if bound.is_none() && t == format!("{user}:{sig}:{cmd}") {
            return Some("inline");
        }
        None
    }

    /// AUTH accepted for `user` on `line`: must carry HMAC(key, user) of an active user.
    pub fn auth_ok(&self, line: &str, user: &str) -> bool {
        let Some(u) = self.users.get(user).filter(|u| u.active) else { return false };
        let t = line.trim();
        if t.len() < 5 || !t[..5].eq_ignore_ascii_case("AUTH ") {
            return false;
        }
        t[5..].trim() == format!("{user}:{}", hmac_hex(u.key.as_bytes(), user.as_bytes()))
    }
}
